"""Identity-encoding (Temporal)Datasets, a reference model and an op interpreter (DESIGN 1.5).

Every measurement encodes where it came from:

    value(oid, chid, tidx) = oid * 2**20 + chid * 2**10 + tidx          (exact in float64)

`_oid` / `_chid` travel as ordinary obs / channel descriptors through the library's own
descriptor plumbing, the (unique) values of the `time` descriptor identify time points.
A side table maps ids -> the descriptor values the item was created with.  After any
operation the *live* library object must satisfy, against the reference `Model`:

  * every row / column / time slice is identified by its id; every other tracked descriptor
    at that position equals the side-table value for that id,
  * every measurement decodes to the ids of its row, column and time slice (after bin_time:
    the mean over exactly the member time points),
  * the multiset of ids equals what the reference model predicts for the operation; order
    is compared only where it is documented.

A history is a list of op records {'op': name, 'a': int, 'b': int, 'm': int, 'xs': [int..]}
with abstract arguments that `run_ops` interprets against the current object / model.  An op
that is not applicable to the current object (wrong kind, library pre-condition known from
probing) is skipped and labelled `skip:<op>`.  With live=False only the reference model is
run (used by classify()).

This module imports rsatoolbox lazily so that it can be used for classification only.
"""
from collections import Counter
from fractions import Fraction

import numpy as np

from vf import core
from vf.core import Violation, require

S_O = 2 ** 20
S_C = 2 ** 10

OPS = ['split_obs', 'split_channel', 'split_time', 'subset_obs', 'subset_channel',
       'subset_time', 'sort_by', 'merge_new', 'odd_even', 'nested_odd_even', 'bin_time',
       'time_as_observations', 'time_as_channels', 'df_roundtrip', 'copy', 'average_by',
       'tensor']

# keys whose values belong to a row (observation); everything else at dataset level is
# carried along untouched
OBS_UNIVERSE = ('_oid', 'cond', 'sess', 'subj')
CH_UNIVERSE = ('_chid', 'roi', 'name')
TIME_UNIVERSE = ('time', 'tgrp')


# ---------------------------------------------------------------------------------------
# value normalisation

def norm(v):
    if isinstance(v, np.ndarray) and v.ndim == 0:
        v = v.item()
    if isinstance(v, np.generic):
        v = v.item()
    if isinstance(v, bytes):
        v = v.decode('utf-8', 'replace')
    return v


def same(a, b):
    """descriptor values equal after normalising numpy scalars; 3 == 3.0 accepted (DESIGN C11)"""
    a, b = norm(a), norm(b)
    if isinstance(a, str) or isinstance(b, str):
        return isinstance(a, str) and isinstance(b, str) and a == b
    try:
        if a != a and b != b:
            return True
        return bool(a == b)
    except Exception:  # noqa: BLE001
        return False


def hkey(v):
    """hashable key of a normalised descriptor value (1 and 1.0 collapse, str stays str)"""
    v = norm(v)
    if isinstance(v, str):
        return ('s', v)
    if isinstance(v, bool):
        return ('n', float(v))
    if isinstance(v, (int, float)):
        return ('n', float(v))
    return ('o', repr(v))


def groups_first_appearance(values):
    """[(value, [indices])] in order of first appearance"""
    order, idx = [], {}
    for i, v in enumerate(values):
        k = hkey(v)
        if k not in idx:
            idx[k] = len(order)
            order.append((v, []))
        order[idx[k]][1].append(i)
    return order


def sort_key(v):
    v = norm(v)
    return v


# ---------------------------------------------------------------------------------------

class Side:
    """ids -> original descriptor values"""

    def __init__(self):
        self.obs = {}
        self.ch = {}
        self.name2chid = {}


class Model:
    """reference state of one (Temporal)Dataset"""

    def __init__(self):
        self.kind = 'ds'
        self.rows = []          # [(oid, tpos|None)]
        self.cols = []          # [(chid, tpos|None)]
        self.times = []         # [tpos] (kind 'tds')
        self.trecs = []         # append-only: dict(w={tidx: Fraction}, tval=float, desc={})
        self.row_keys = []      # tracked keys whose value belongs to a row
        self.ds_only = set()    # row keys that currently live only at dataset level
        self.ch_keys = []
        self.time_keys = []     # tracked time keys (kind tds) / time keys carried by rows or cols
        self.row_time_keys = []
        self.col_time_keys = []
        self.conv_times = []    # candidate tpos for rows/cols that carry a time label
        self.time_is_array = True
        self.obs_float = False
        self.side = None
        self.counter = None     # shared mutable [next_oid]
        self.pools = None       # label pools for new rows

    def clone(self):
        m = Model()
        m.__dict__.update(self.__dict__)
        m.rows = list(self.rows)
        m.cols = list(self.cols)
        m.times = list(self.times)
        m.row_keys = list(self.row_keys)
        m.ds_only = set(self.ds_only)
        m.ch_keys = list(self.ch_keys)
        m.time_keys = list(self.time_keys)
        m.row_time_keys = list(self.row_time_keys)
        m.col_time_keys = list(self.col_time_keys)
        m.conv_times = list(self.conv_times)
        return m

    # ---- values the reference expects ----
    def trec_value(self, tpos, key):
        t = self.trecs[tpos]
        if key == 'time':
            return t['tval']
        return t['desc'][key]

    def row_value(self, row, key):
        if key in self.row_time_keys:
            return self.trec_value(row[1], key)
        return self.side.obs[row[0]][key]

    def col_value(self, col, key):
        if key in self.col_time_keys:
            return self.trec_value(col[1], key)
        return self.side.ch[col[0]][key]

    def obs_level_keys(self):
        return [k for k in self.row_keys if k not in self.ds_only]

    def tmean(self, tpos):
        if tpos is None:
            return Fraction(0)
        return sum((Fraction(k) * w for k, w in self.trecs[tpos]['w'].items()), Fraction(0))

    def trivial_time(self):
        tp = set(self.times) | {r[1] for r in self.rows} | {c[1] for c in self.cols}
        tp.discard(None)
        return all(len(self.trecs[t]['w']) == 1 for t in tp)

    def expected(self):
        r = np.array([float(o * S_O) for o, _ in self.rows])
        c = np.array([float(ch * S_C) for ch, _ in self.cols])
        base = r[:, None] + c[None, :]
        if self.kind == 'tds':
            t = np.array([float(self.tmean(tp)) for tp in self.times])
            return base[:, :, None] + t[None, None, :]
        rt = np.array([float(self.tmean(tp)) for _, tp in self.rows])
        ct = np.array([float(self.tmean(tp)) for _, tp in self.cols])
        return base + rt[:, None] + ct[None, :]

    def shape(self):
        if self.kind == 'tds':
            return (len(self.rows), len(self.cols), len(self.times))
        return (len(self.rows), len(self.cols))


# ---------------------------------------------------------------------------------------
# building the initial object from a JSON spec

def _container(values, cont):
    if cont == 'array':
        a = np.array(values)
        if a.dtype.kind == 'i' and a.size and a.min() >= 0 and a.max() < 60000 \
                and int(a.sum()) % 3 == 0:
            # small non-negative codes (run / session / trigger numbers) as they come out of
            # recording software: unsigned integers (a deterministic third of such descriptors)
            a = a.astype(np.uint16 if int(a.sum()) % 2 == 0 else np.uint8 if a.max() < 256 else np.uint32)
        return a
    return list(values)


def build_model(spec):
    """spec (JSON): kind, oids, chids, obs{key:{values,container}}, ch{...}, time{...}, desc"""
    side = Side()
    m = Model()
    m.side = side
    m.kind = spec['kind']
    oids, chids = spec['oids'], spec['chids']
    for i, o in enumerate(oids):
        side.obs[o] = {'_oid': o, 'subj': spec['desc']['subj']}
        for k, d in spec['obs'].items():
            side.obs[o][k] = d['values'][i]
    for j, c in enumerate(chids):
        side.ch[c] = {'_chid': c}
        for k, d in spec['ch'].items():
            side.ch[c][k] = d['values'][j]
        side.name2chid[side.ch[c]['name']] = c
    m.rows = [(o, None) for o in oids]
    m.cols = [(c, None) for c in chids]
    m.row_keys = ['_oid'] + list(spec['obs'].keys()) + ['subj']
    m.ds_only = {'subj'}
    m.ch_keys = ['_chid'] + list(spec['ch'].keys())
    if m.kind == 'tds':
        tv = spec['time']['time']['values']
        for k, t in enumerate(tv):
            desc = {key: d['values'][k] for key, d in spec['time'].items() if key != 'time'}
            m.trecs.append(dict(w={k: Fraction(1)}, tval=float(t), desc=desc))
        m.times = list(range(len(tv)))
        m.time_keys = list(spec['time'].keys())
        m.time_is_array = spec['time']['time']['container'] == 'array'
    m.counter = [max(oids) + 1]
    m.pools = {k: list(groups_first_appearance(d['values'])) for k, d in spec['obs'].items()}
    return m


def build_object(spec, model):
    from rsatoolbox.data.dataset import Dataset, TemporalDataset
    obs = {'_oid': _container(spec['oids'], spec.get('oid_container', 'list'))}
    for k, d in spec['obs'].items():
        obs[k] = _container(d['values'], d['container'])
    ch = {'_chid': _container(spec['chids'], spec.get('chid_container', 'array'))}
    for k, d in spec['ch'].items():
        ch[k] = _container(d['values'], d['container'])
    meas = model.expected()
    if (len(spec['oids']) + len(spec['chids'])) % 3 == 0:
        # the same values in column-major memory (arrays that come from a transposed
        # channel x trial recording or from scipy.io.loadmat): a deterministic third of the cases
        meas = np.asfortranarray(meas)
    desc = dict(spec['desc'])
    if spec['kind'] == 'tds':
        td = {k: _container(d['values'], d['container']) for k, d in spec['time'].items()}
        if isinstance(td['time'], np.ndarray):
            td['time'] = td['time'].astype(float)
        return TemporalDataset(meas, descriptors=desc, obs_descriptors=obs,
                               channel_descriptors=ch, time_descriptors=td)
    return Dataset(meas, descriptors=desc, obs_descriptors=obs, channel_descriptors=ch)


# ---------------------------------------------------------------------------------------
# reading the live object

def _lookup_obs(obj, key, i, op):
    d = obj.obs_descriptors
    if key in d:
        v = d[key]
        require(len(v) == obj.n_obs, '%s: obs descriptor %r has %d entries for %d observations'
                % (op, key, len(v), obj.n_obs), '%s:obs-desc-length' % op)
        return v[i]
    if key in obj.descriptors:
        return obj.descriptors[key]
    raise Violation('%s: descriptor %r of the observations is gone (obs keys %s, dataset keys %s)'
                    % (op, key, sorted(obj.obs_descriptors), sorted(obj.descriptors)),
                    '%s:obs-desc-lost' % op)


def _as_id(v, op, what):
    v = norm(v)
    try:
        f = float(v)
    except Exception:  # noqa: BLE001
        raise Violation('%s: %s id %r is not numeric' % (op, what, v), '%s:%s-id' % (op, what))
    require(f == int(f), '%s: %s id %r is not an id' % (op, what, v), '%s:%s-id' % (op, what))
    return int(f)


def _find_tpos(model, cands, v, op, what):
    v = norm(v)
    for tp in cands:
        try:
            if float(v) == model.trecs[tp]['tval']:
                return tp
        except Exception:  # noqa: BLE001
            break
    raise Violation('%s: %s carries time label %r which is none of %s' % (
        op, what, v, [model.trecs[tp]['tval'] for tp in cands]), '%s:%s-time-label' % (op, what))


def read_rows(obj, model, op):
    out = []
    for i in range(obj.n_obs):
        oid = _as_id(_lookup_obs(obj, '_oid', i, op), op, 'obs')
        require(oid in model.side.obs, '%s: unknown observation id %r' % (op, oid), '%s:obs-id' % op)
        tp = None
        if model.row_time_keys:
            tp = _find_tpos(model, model.conv_times, _lookup_obs(obj, 'time', i, op), op, 'obs')
        out.append((oid, tp))
    return out


def read_cols(obj, model, op):
    out = []
    d = obj.channel_descriptors
    for k in model.ch_keys:
        require(k in d, '%s: channel descriptor %r is gone (keys %s)' % (op, k, sorted(d)),
                '%s:ch-desc-lost' % op)
        require(len(d[k]) == obj.n_channel, '%s: channel descriptor %r has %d entries for %d '
                'channels' % (op, k, len(d[k]), obj.n_channel), '%s:ch-desc-length' % op)
    for j in range(obj.n_channel):
        if '_chid' in model.ch_keys:
            chid = _as_id(d['_chid'][j], op, 'channel')
        else:
            nm = norm(d['name'][j])
            require(nm in model.side.name2chid, '%s: unknown channel name %r' % (op, nm),
                    '%s:channel-id' % op)
            chid = model.side.name2chid[nm]
        require(chid in model.side.ch, '%s: unknown channel id %r' % (op, chid),
                '%s:channel-id' % op)
        tp = None
        if model.col_time_keys:
            tp = _find_tpos(model, model.conv_times, d['time'][j], op, 'channel')
        out.append((chid, tp))
    return out


def read_times(obj, model, cands, op):
    d = obj.time_descriptors
    require('time' in d, '%s: time descriptor "time" is gone' % op, '%s:time-desc-lost' % op)
    require(len(d['time']) == obj.n_time, '%s: time descriptor has %d entries for %d time points'
            % (op, len(d['time']), obj.n_time), '%s:time-desc-length' % op)
    return [_find_tpos(model, cands, d['time'][k], op, 'time slice') for k in range(obj.n_time)]


def check_invariant(obj, model, op):
    """the identity invariant of DESIGN 1.5 for `obj` against `model` (ids already in sync)"""
    from rsatoolbox.data.dataset import Dataset, TemporalDataset
    want = TemporalDataset if model.kind == 'tds' else Dataset
    require(type(obj) is want, '%s: result is a %s, expected %s' % (
        op, type(obj).__name__, want.__name__), '%s:type' % op)
    meas = np.asarray(obj.measurements)
    shp = model.shape()
    require(meas.shape == shp, '%s: measurements have shape %s, expected %s' % (op, meas.shape, shp),
            '%s:shape' % op)
    dims = (obj.n_obs, obj.n_channel) + ((obj.n_time,) if model.kind == 'tds' else ())
    require(tuple(dims) == tuple(shp), '%s: n_obs/n_channel/n_time %s disagree with shape %s' % (
        op, dims, shp), '%s:shape' % op)
    # --- descriptors stay with their row / column / slice
    for i, row in enumerate(model.rows):
        for k in model.row_keys:
            got = _lookup_obs(obj, k, i, op)
            exp = model.row_value(row, k)
            if not same(got, exp):
                raise Violation('%s: observation with _oid=%d has %s=%r, it was created with %r '
                                '(row %d)' % (op, row[0], k, norm(got), exp, i),
                                '%s:obs-desc' % op)
    d = obj.channel_descriptors
    for j, col in enumerate(model.cols):
        for k in model.ch_keys:
            exp = model.col_value(col, k)
            if not same(d[k][j], exp):
                raise Violation('%s: channel with _chid=%d has %s=%r, it was created with %r '
                                '(column %d)' % (op, col[0], k, norm(d[k][j]), exp, j),
                                '%s:ch-desc' % op)
    if model.kind == 'tds':
        td = obj.time_descriptors
        for k in model.time_keys:
            require(k in td, '%s: time descriptor %r is gone' % (op, k), '%s:time-desc-lost' % op)
            require(len(td[k]) == obj.n_time, '%s: time descriptor %r has %d entries for %d time '
                    'points' % (op, k, len(td[k]), obj.n_time), '%s:time-desc-length' % op)
            for t, tp in enumerate(model.times):
                exp = model.trec_value(tp, k)
                if not same(td[k][t], exp):
                    raise Violation('%s: time slice %d (time=%r) has %s=%r, expected %r' % (
                        op, t, model.trecs[tp]['tval'], k, norm(td[k][t]), exp),
                        '%s:time-desc' % op)
    # --- every measurement decodes to its row / column / slice
    exp = model.expected()
    if model.trivial_time():
        ok = np.array_equal(meas, exp)
    else:
        ok = core.close(meas, exp, rtol=1e-12, atol=0)
    if not ok:
        bad = np.argwhere(~np.isclose(meas, exp, rtol=1e-12, atol=0))
        pos = tuple(int(x) for x in bad[0]) if len(bad) else ()
        got = float(meas[pos]) if pos else float('nan')
        raise Violation('%s: measurement at %s is %r = (oid %d, chid %d, t %d) but the labels there '
                        'say %r' % (op, pos, got, int(got) // S_O, (int(got) % S_O) // S_C,
                                    int(got) % S_C, float(exp[pos]) if pos else None),
                        '%s:value' % op)


def _cmp_ids(got, want, ordered, op, what):
    if ordered:
        if got != want:
            if Counter(got) == Counter(want):
                raise Violation('%s: %s come in order %s, documented order is %s' % (
                    op, what, _sh(got), _sh(want)), '%s:%s-order' % (op, what))
            raise Violation('%s: %s are %s, expected %s' % (op, what, _sh(got), _sh(want)),
                            '%s:%s-ids' % (op, what))
    elif Counter(got) != Counter(want):
        raise Violation('%s: %s are %s, expected the multiset %s' % (op, what, _sh(got), _sh(want)),
                        '%s:%s-ids' % (op, what))


def _sh(ids, n=14):
    s = [i[0] if i[1] is None else i for i in ids] if ids and isinstance(ids[0], tuple) else list(ids)
    return str(s[:n]) + ('...(%d)' % len(s) if len(s) > n else '')


def sync(obj, model, op, parent_times=None, rows_ordered=False, cols_ordered=True,
         times_ordered=True):
    """compare the live ids with the model's prediction, adopt the live order, check invariant"""
    got = read_rows(obj, model, op)
    _cmp_ids(got, model.rows, rows_ordered, op, 'observations')
    model.rows = got
    got = read_cols(obj, model, op)
    _cmp_ids(got, model.cols, cols_ordered, op, 'channels')
    model.cols = got
    if model.kind == 'tds':
        got = read_times(obj, model, parent_times if parent_times is not None else model.times, op)
        _cmp_ids(got, model.times, times_ordered, op, 'time-slices')
        model.times = got
    check_invariant(obj, model, op)


# ---------------------------------------------------------------------------------------
# interpreter

class State:
    def __init__(self, obj, model, live):
        self.obj = obj
        self.model = model
        self.live = live
        self.log = []       # executed op names
        self.skipped = []
        self.flags = set()


def _call(op, fn, *a, **k):
    return core.lib(fn, *a, on_error='violation', sig='%s:raises' % op, **k)


def _pick_value_arg(groups, mask, aslist):
    """choose a non-empty subset of the unique values by bit mask; scalar if one and not aslist"""
    n = len(groups)
    sel = [i for i in range(n) if (mask >> (i % 16)) & 1]
    if not sel:
        sel = [mask % n]
    vals = [groups[i][0] for i in sel]
    idx = sorted(i for s in sel for i in groups[s][1])
    if len(vals) == 1 and not aslist:
        return vals[0], idx
    if mask % 5 == 0:
        # the list of wanted values taken from another object's descriptor: values repeat and come
        # in any order; the subset still holds each matching item once, in original order
        vals = vals[::-1] + [vals[0]]
    return vals, idx


def _split(st, level, rec):
    m = st.model
    name = {'obs': 'split_obs', 'ch': 'split_channel', 'time': 'split_time'}[level]
    if level == 'obs':
        keys, items = m.obs_level_keys(), m.rows
        val = m.row_value
    elif level == 'ch':
        keys, items = list(m.ch_keys), m.cols
        val = m.col_value
    else:
        if m.kind != 'tds':
            return False
        keys, items = list(m.time_keys), m.times
        val = m.trec_value
    if not keys:
        return False
    by = keys[rec['a'] % len(keys)]
    groups = groups_first_appearance([val(it, by) for it in items])
    pms = []
    for _, idx in groups:
        pm = m.clone()
        sel = [items[i] for i in idx]
        if level == 'obs':
            pm.rows = sel
        elif level == 'ch':
            pm.cols = sel
        else:
            pm.times = sel
            pm.time_is_array = False
        pms.append(pm)
    parts = [None] * len(pms)
    if st.live:
        got = _call(name, getattr(st.obj, name), by)
        require(isinstance(got, list) and len(got) == len(groups), '%s(%r): %d parts for %d distinct '
                'values' % (name, by, len(got) if isinstance(got, list) else -1, len(groups)),
                '%s:count' % name)
        used = set()
        order = []
        for p in got:
            if level == 'obs':
                ids = read_rows(p, m, name)
            elif level == 'ch':
                ids = read_cols(p, m, name)
            else:
                ids = read_times(p, m, m.times, name)
            hit = None
            for g, pm in enumerate(pms):
                want = pm.rows if level == 'obs' else pm.cols if level == 'ch' else pm.times
                if g not in used and Counter(ids) == Counter(want):
                    hit = g
                    break
            if hit is None:
                raise Violation('%s(%r): a part holds %s, which is not the set of items of one '
                                'value (groups: %s)' % (name, by, _sh(ids), [
                                    _sh([items[i] for i in idx]) for _, idx in groups]),
                                '%s:partition' % name)
            used.add(hit)
            sync(p, pms[hit], name, parent_times=m.times)
            order.append(hit)
        pms = [pms[g] for g in order]
        parts = got
    # what next
    then = rec['m'] % 3 if level == 'obs' else 0
    if then == 0 or len(pms) == 0:
        k = rec['b'] % len(pms)
        st.obj, st.model = parts[k], pms[k]
        return True
    if then == 1:
        rot = rec['b'] % len(pms)
        chosen = list(range(rot, len(pms))) + list(range(rot))
        st.flags.add('merge:all-parts')
    else:
        chosen = [i for i in range(len(pms)) if (rec['b'] >> (i % 8)) & 1] or [rec['b'] % len(pms)]
        st.flags.add('merge:some-parts')
    mm = m.clone()
    mm.rows = [r for i in chosen for r in pms[i].rows]
    if st.live:
        from rsatoolbox.data.ops import merge_datasets
        merged = _call('merge', merge_datasets, [parts[i] for i in chosen])
        sync(merged, mm, 'merge')
        st.obj = merged
    st.model = mm
    return True


def _subset(st, level, rec):
    m = st.model
    name = {'obs': 'subset_obs', 'ch': 'subset_channel'}[level]
    if level == 'obs':
        keys, items, val = m.obs_level_keys(), m.rows, m.row_value
    else:
        keys, items, val = list(m.ch_keys), m.cols, m.col_value
    if not keys:
        return False
    by = keys[rec['a'] % len(keys)]
    groups = groups_first_appearance([val(it, by) for it in items])
    value, idx = _pick_value_arg(groups, rec['m'], rec['b'] % 2 == 1)
    nm = m.clone()
    if level == 'obs':
        nm.rows = [items[i] for i in idx]
    else:
        nm.cols = [items[i] for i in idx]
    # a third of the subsets are only looked at: the history goes on with the object they were taken
    # from (a later sort or subset of that object must not depend on the earlier call)
    peek = rec['m'] % 3 == 0
    if st.live:
        res = _call(name, getattr(st.obj, name), by, value)
        sync(res, nm, name, rows_ordered=True)
        if peek:
            check_invariant(st.obj, m, name + ' (source afterwards)')
        else:
            st.obj = res
    if not peek:
        st.model = nm
    return True


def _subset_time(st, rec):
    m = st.model
    if m.kind != 'tds':
        return False
    tv = [m.trecs[tp]['tval'] for tp in m.times]
    lo, hi = tv[rec['a'] % len(tv)], tv[rec['b'] % len(tv)]
    if lo > hi:
        lo, hi = hi, lo
    nm = m.clone()
    nm.times = [tp for tp in m.times if lo <= m.trecs[tp]['tval'] <= hi]
    nm.time_is_array = False
    if st.live:
        res = _call('subset_time', st.obj.subset_time, 'time', lo, hi)
        sync(res, nm, 'subset_time', parent_times=m.times, rows_ordered=True)
        st.obj = res
    st.model = nm
    return True


def _sort_by(st, rec):
    m = st.model
    keys = m.obs_level_keys()
    if not keys:
        return False
    by = keys[rec['a'] % len(keys)]
    vals = [sort_key(m.row_value(r, by)) for r in m.rows]
    order = sorted(range(len(vals)), key=lambda i: vals[i])
    nm = m.clone()
    nm.rows = [m.rows[i] for i in order]
    if len(m.rows) > 16 and len({hkey(v) for v in vals}) < len(vals):
        st.flags.add('sort:duplicates,n>16')
    if st.live:
        op = 'sort_by:' + m.kind
        _call(op, st.obj.sort_by, by)
        got = read_rows(st.obj, m, op)
        if got != nm.rows:
            require(Counter(got) == Counter(nm.rows), '%s(%r): rows %s are not a permutation of %s'
                    % (op, by, _sh(got), _sh(m.rows)), '%s:observations-ids' % op)
            gv = [sort_key(m.row_value(r, by)) for r in got]
            if all(gv[i] <= gv[i + 1] for i in range(len(gv) - 1)):
                raise Violation('%s(%r) with %d rows: sorted, but rows with equal keys changed their '
                                'relative order (not stable): got _oid %s, stable order %s' % (
                                    op, by, len(got), _sh(got), _sh(nm.rows)), '%s:stability' % op)
            raise Violation('%s(%r): result is not sorted: keys %s' % (op, by, gv[:20]),
                            '%s:order' % op)
        check_invariant(st.obj, nm, op)
    st.model = nm
    return True


def _merge_new(st, rec):
    """merge the current object with a freshly built independent set of the same structure.
    Row keys that live only at dataset level (`ds_only`, e.g. 'subj') get one value for all new
    rows: equal to the current one -> stays a dataset descriptor, different -> merge_datasets
    documents that it becomes an observation descriptor."""
    m = st.model
    xs = rec['xs'] or [0]
    n_new = 1 + rec['a'] % 3
    if '_oid' in m.ds_only:
        n_new = 1
    if m.counter[0] + n_new >= 1024:
        return False
    homogeneous = len({hkey(m.side.obs[r[0]]['subj']) for r in m.rows}) == 1
    if rec['m'] % 4 == 0 and homogeneous:
        subj = m.side.obs[m.rows[0][0]]['subj']
    else:
        subj = 1000 + rec['m'] % 3      # differs from every generated subj (0..9)
    new_rows = []
    for i in range(n_new):
        oid = m.counter[0]
        m.counter[0] += 1
        rec_side = {'_oid': oid, 'subj': subj}
        for k, pool in m.pools.items():
            j = xs[0] if k in m.ds_only else xs[i % len(xs)] + i
            rec_side[k] = pool[j % len(pool)][0]
        m.side.obs[oid] = rec_side
        tp = None
        if m.row_time_keys:
            j = xs[0] if any(k in m.ds_only for k in m.row_time_keys) else xs[(i + 1) % len(xs)]
            tp = m.conv_times[j % len(m.conv_times)]
        new_rows.append((oid, tp))
    first = rec['b'] % 2 == 0
    nm = m.clone()
    nm.rows = (new_rows + m.rows) if first else (m.rows + new_rows)
    om = m.clone()
    om.rows = new_rows
    for k in sorted(m.ds_only):
        if not same(m.row_value(m.rows[0], k), om.row_value(new_rows[0], k)):
            nm.ds_only.discard(k)       # varies between the sets: promoted to the observations
    st.flags.add('merge:independent-set')
    if st.live:
        from copy import deepcopy
        from rsatoolbox.data.dataset import Dataset, TemporalDataset
        from rsatoolbox.data.ops import merge_datasets
        cur = st.obj
        obs = {}
        for k in cur.obs_descriptors:
            if k in om.row_keys:
                obs[k] = [om.row_value(r, k) for r in new_rows]
            else:
                # untracked observation-level key (e.g. 'bins' labels): repeat a present value
                obs[k] = [cur.obs_descriptors[k][0]] * len(new_rows)
        desc = {}
        for k, v in cur.descriptors.items():
            if k in om.row_keys:
                if k in cur.obs_descriptors:
                    continue        # also present per observation: let those values speak
                desc[k] = om.row_value(new_rows[0], k)
            else:
                desc[k] = v
        meas = om.expected()
        if m.kind == 'tds':
            other = TemporalDataset(meas, descriptors=desc, obs_descriptors=obs,
                                    channel_descriptors=deepcopy(cur.channel_descriptors),
                                    time_descriptors=deepcopy(cur.time_descriptors))
        else:
            other = Dataset(meas, descriptors=desc, obs_descriptors=obs,
                            channel_descriptors=deepcopy(cur.channel_descriptors))
        merged = _call('merge', merge_datasets, [other, cur] if first else [cur, other])
        sync(merged, nm, 'merge')
        st.obj = merged
    st.model = nm
    return True


def _odd_even(st, rec, nested):
    m = st.model
    keys = m.obs_level_keys()
    if not keys:
        return False
    name = 'nested_odd_even_split' if nested else 'odd_even_split'

    def oe(rows, by):
        g = groups_first_appearance([m.row_value(r, by) for r in rows])
        o = [rows[i] for gi, (_, idx) in enumerate(g) if gi % 2 == 0 for i in idx]
        e = [rows[i] for gi, (_, idx) in enumerate(g) if gi % 2 == 1 for i in idx]
        return o, e, len(g)

    def attempt(k1, k2):
        odd, even = [], []
        if nested:
            for _, idx in groups_first_appearance([m.row_value(r, k1) for r in m.rows]):
                o, e, n = oe([m.rows[i] for i in idx], k2)
                if n < 2:
                    return None     # an empty half: merge_datasets([]) - outside the domain
                odd += o
                even += e
        else:
            odd, even, n = oe(m.rows, k1)
            if n < 2:
                return None
        return odd, even

    # abstract arguments: start at the drawn descriptor(s), take the first admissible choice
    a0 = rec['a']
    b0 = rec['xs'][0] if rec['xs'] else 0
    found = None
    for da in range(len(keys)):
        for db in range(len(keys) if nested else 1):
            k1 = keys[(a0 + da) % len(keys)]
            k2 = keys[(b0 + db) % len(keys)]
            res = attempt(k1, k2)
            if res is not None:
                found = (k1, k2, res)
                break
        if found:
            break
    if not found:
        return False
    k1, k2, (odd, even) = found
    mo, me = m.clone(), m.clone()
    mo.rows, me.rows = odd, even
    if st.live:
        args = (k1, k2) if nested else (k1,)
        res = _call(name, getattr(st.obj, name), *args)
        require(isinstance(res, tuple) and len(res) == 2, '%s: no (odd, even) pair returned' % name,
                '%s:count' % name)
        sync(res[0], mo, name + ':odd')
        sync(res[1], me, name + ':even')
        st.obj = res[rec['b'] % 2]
    st.model = (mo, me)[rec['b'] % 2]
    return True


def _bin_time(st, rec):
    m = st.model
    if m.kind != 'tds' or not m.time_is_array or set(m.time_keys) - {'time'}:
        return False
    xs = rec['xs'] or [0]
    n_t = len(m.times)
    n_bins = 1 + rec['a'] % max(1, min(n_t, 4))
    members = [[] for _ in range(n_bins)]
    for i in range(n_t):
        b = xs[i % len(xs)] % (n_bins + 1)
        if b < n_bins:
            members[b].append(i)
        if (rec['m'] >> (i % 8)) & 1 and n_bins > 1:       # overlapping bins
            b2 = (b + 1) % n_bins
            if i not in members[b2]:
                members[b2].append(i)
    if not any(members):
        members[0] = list(range(n_t))
    tv = np.array([m.trecs[tp]['tval'] for tp in m.times])
    bins, new_tp, seen = [], [], set()
    nm = m.clone()
    for mem in members:
        if not mem:
            continue
        mem = sorted(mem)
        mean_t = float(np.mean(tv[mem]))
        if mean_t in seen:
            continue            # bins whose centre coincides could not be told apart afterwards
        seen.add(mean_t)
        w = {}
        for i in mem:
            for k, wk in m.trecs[m.times[i]]['w'].items():
                w[k] = w.get(k, Fraction(0)) + wk / len(mem)
        nm.trecs = nm.trecs + [dict(w=w, tval=mean_t, desc={})]
        new_tp.append(len(nm.trecs) - 1)
        bins.append(np.array([tv[i] for i in mem]))
    nm.times = new_tp
    nm.time_keys = ['time']
    nm.time_is_array = True
    if st.live:
        res = _call('bin_time', st.obj.bin_time, 'time', bins)
        # the binned time must be the mean of the member times
        td = res.time_descriptors
        require('time' in td and len(td['time']) == len(new_tp), 'bin_time: %d binned times for %d '
                'bins' % (len(td.get('time', [])), len(new_tp)), 'bin_time:shape')
        for k, tp in enumerate(new_tp):
            if not core.close(float(td['time'][k]), nm.trecs[tp]['tval'], rtol=1e-12, atol=0):
                raise Violation('bin_time: bin %d of times %s is labelled %r, the mean is %r' % (
                    k, bins[k].tolist(), float(td['time'][k]), nm.trecs[tp]['tval']),
                    'bin_time:time-label')
            nm.trecs[tp]['tval'] = float(td['time'][k])
        sync(res, nm, 'bin_time', rows_ordered=True)
        st.obj = res
    st.model = nm
    return True


def _time_as_observations(st, rec):
    m = st.model
    if m.kind != 'tds':
        return False
    nm = m.clone()
    nm.kind = 'ds'
    nm.rows = [(o, tp) for tp in m.times for o, _ in m.rows]
    nm.row_time_keys = list(m.time_keys)
    nm.row_keys = m.row_keys + list(m.time_keys)
    nm.conv_times = list(m.times)
    nm.times = []
    nm.obs_float = True
    if min(m.shape()) == 1:
        st.flags.add('convert:size-1-dimension')
    if st.live:
        res = _call('time_as_observations', st.obj.time_as_observations, 'time')
        sync(res, nm, 'time_as_observations')
        st.obj = res
    st.model = nm
    return True


def _time_as_channels(st, rec):
    m = st.model
    if m.kind != 'tds':
        return False
    nm = m.clone()
    nm.kind = 'ds'
    nm.cols = [(c, tp) for c, _ in m.cols for tp in m.times]
    nm.col_time_keys = list(m.time_keys)
    nm.ch_keys = m.ch_keys + list(m.time_keys)
    nm.conv_times = list(m.times)
    nm.times = []
    if min(m.shape()) == 1:
        st.flags.add('convert:size-1-dimension')
    if st.live:
        res = _call('time_as_channels', st.obj.time_as_channels)
        sync(res, nm, 'time_as_channels', rows_ordered=True, cols_ordered=False)
        st.obj = res
    st.model = nm
    return True


def _df_roundtrip(st, rec):
    m = st.model
    if m.kind != 'ds' or 'name' not in m.ch_keys or m.col_time_keys:
        return False
    names = [m.col_value(c, 'name') for c in m.cols]
    if st.live and 'roi' in m.ch_keys:
        # a table whose data columns are labelled by a descriptor shared by several channels (voxels
        # of one region): every channel still has its own column, under its label
        df = _call('to_df', st.obj.to_df, 'roi')
        meas = np.asarray(st.obj.measurements)
        rois = [norm(v) for v in st.obj.channel_descriptors['roi']]
        for lab in {hkey(r): r for r in rois}.values():
            js = [j for j, r in enumerate(rois) if same(r, lab)]
            try:
                block = np.asarray(df.loc[:, [bool(same(c, lab)) for c in df.columns]], dtype=float)
            except Exception:  # noqa: BLE001
                continue
            if any(same(lab, k) for k in list(st.obj.obs_descriptors) + list(st.obj.descriptors)):
                continue        # label collides with a descriptor column name
            got = sorted(tuple(block[:, q]) for q in range(block.shape[1]))
            want = sorted(tuple(meas[:, j]) for j in js)
            require(got == want, "to_df(channel_descriptor='roi'): %d channels carry the label %r, the "
                    'table has %d columns under it%s' % (len(js), lab, len(got),
                                                          '' if len(got) != len(want) else
                                                          ' with other data'), 'to_df:shared-labels')
    if len({hkey(n) for n in names}) < len(names):
        return False
    nm = m.clone()
    nm.ch_keys = ['name']
    nm.ds_only = set()
    for k in nm.row_keys:
        if len({hkey(m.row_value(r, k)) for r in m.rows}) == 1:
            nm.ds_only.add(k)
    explicit = m.obs_float or rec['a'] % 2 == 1
    if explicit and rec.get('b', 0) % 2 == 1 and len(names) >= 2:
        # the caller names the channel columns in an order of their own (here: reversed):
        # the dataset then lists the channels in that order, each with its own column's data
        nm.cols = list(reversed(nm.cols))
        names = list(reversed(names))
    if st.live:
        from rsatoolbox.data.dataset import Dataset
        df = _call('to_df', st.obj.to_df, 'name')
        require(len(df) == len(m.rows), 'to_df: %d rows for %d observations' % (len(df), len(m.rows)),
                'to_df:shape')
        res = _call('from_df', Dataset.from_df, df, channels=list(names) if explicit else None,
                    channel_descriptor='name')
        sync(res, nm, 'df_roundtrip', rows_ordered=True)
        st.obj = res
    st.model = nm
    return True


def _copy(st, rec):
    if st.live:
        res = _call('copy', st.obj.copy)
        require(res is not st.obj, 'copy returned the object itself', 'copy:identity')
        sync(res, st.model, 'copy', rows_ordered=True)
        st.obj = res
    return True


def _average_by(st, rec):
    m = st.model
    keys = m.obs_level_keys()
    if m.kind != 'ds' or not keys:
        return False
    by = keys[rec['a'] % len(keys)]
    groups = groups_first_appearance([m.row_value(r, by) for r in m.rows])
    if st.live:
        from rsatoolbox.data.computations import average_dataset_by
        avg, uniq, n_obs = _call('average_dataset_by', average_dataset_by, st.obj, by)
        exp = m.expected()
        require(len(uniq) == len(groups) and len(avg) == len(groups) and len(n_obs) == len(groups),
                'average_dataset_by(%r): %d averages for %d distinct labels' % (by, len(avg), len(groups)),
                'average_dataset_by:count')
        seen = set()
        for i, u in enumerate(uniq):
            hit = [g for g, (v, _) in enumerate(groups) if same(v, u)]
            require(len(hit) == 1 and hit[0] not in seen, 'average_dataset_by(%r): label %r is not '
                    'one of the distinct values / appears twice' % (by, norm(u)),
                    'average_dataset_by:labels')
            seen.add(hit[0])
            idx = groups[hit[0]][1]
            want = exp[idx].sum(axis=0) / len(idx)
            if not core.close(avg[i], want, rtol=1e-12, atol=0):
                raise Violation('average_dataset_by(%r): average for label %r is %s, the mean of its '
                                '%d rows is %s' % (by, norm(u), core._short(avg[i]), len(idx),
                                                   core._short(want)), 'average_dataset_by:value')
            require(float(n_obs[i]) == len(idx), 'average_dataset_by(%r): n_obs for %r is %r, %d rows '
                    'carry the label' % (by, norm(u), float(n_obs[i]), len(idx)),
                    'average_dataset_by:n_obs')
        # "means of exactly the rows carrying that label": a missing value (NaN) in one row may
        # only reach the average of that row's own label
        if len(groups) >= 2 and st.obj.measurements.ndim == 2 and st.obj.measurements.size:
            poisoned = st.obj.copy()
            meas = np.array(poisoned.measurements, dtype=float)
            r = rec.get('b', 0) % meas.shape[0]
            c = rec.get('m', 0) % meas.shape[1]
            meas[r, c] = np.nan
            poisoned.measurements = meas
            avg2, uniq2, _ = _call('average_dataset_by', average_dataset_by, poisoned, by)
            own = m.row_value(m.rows[r], by)
            for i, u in enumerate(uniq2):
                j = [k for k, w in enumerate(uniq) if same(w, u)]
                if len(j) != 1:
                    continue
                if same(u, own):
                    continue
                if not core.close(avg2[i], avg[j[0]], rtol=0, atol=0):
                    raise Violation('average_dataset_by(%r): a NaN in a row labelled %r changed the '
                                    'average of label %r from %s to %s' % (
                                        by, norm(own), norm(u), core._short(avg[j[0]]),
                                        core._short(avg2[i])), 'average_dataset_by:foreign-rows')
    return True


def _tensor(st, rec):
    m = st.model
    keys = m.obs_level_keys()
    if m.kind != 'ds' or not keys:
        return False
    by = keys[rec['a'] % len(keys)]
    groups = groups_first_appearance([m.row_value(r, by) for r in m.rows])
    if len({len(idx) for _, idx in groups}) != 1:
        return False        # np.stack refuses unbalanced groups
    if st.live:
        tensor, uniq = _call('get_measurements_tensor', st.obj.get_measurements_tensor, by)
        exp = m.expected()
        n_rest = len(groups[0][1])
        require(np.asarray(tensor).shape == (len(groups), len(m.cols), n_rest),
                'get_measurements_tensor(%r): shape %s, expected %s' % (
                    by, np.asarray(tensor).shape, (len(groups), len(m.cols), n_rest)),
                'get_measurements_tensor:shape')
        seen = set()
        for i, u in enumerate(uniq):
            hit = [g for g, (v, _) in enumerate(groups) if same(v, u)]
            require(len(hit) == 1 and hit[0] not in seen, 'get_measurements_tensor(%r): label %r'
                    % (by, norm(u)), 'get_measurements_tensor:labels')
            seen.add(hit[0])
            want = exp[groups[hit[0]][1]].T
            if not np.array_equal(np.asarray(tensor)[i], want):
                raise Violation('get_measurements_tensor(%r): slice for label %r does not hold the '
                                'rows carrying that label in dataset order' % (by, norm(u)),
                                'get_measurements_tensor:value')
    return True


_DISPATCH = {
    'split_obs': lambda st, r: _split(st, 'obs', r),
    'split_channel': lambda st, r: _split(st, 'ch', r),
    'split_time': lambda st, r: _split(st, 'time', r),
    'subset_obs': lambda st, r: _subset(st, 'obs', r),
    'subset_channel': lambda st, r: _subset(st, 'ch', r),
    'subset_time': _subset_time,
    'sort_by': _sort_by,
    'merge_new': _merge_new,
    'odd_even': lambda st, r: _odd_even(st, r, False),
    'nested_odd_even': lambda st, r: _odd_even(st, r, True),
    'bin_time': _bin_time,
    'time_as_observations': _time_as_observations,
    'time_as_channels': _time_as_channels,
    'df_roundtrip': _df_roundtrip,
    'copy': _copy,
    'average_by': _average_by,
    'tensor': _tensor,
}


def start(spec, live=True):
    model = build_model(spec)
    obj = None
    if live:
        obj = core.lib(build_object, spec, model, on_error='violation', sig='construct:raises')
        sync(obj, model, 'construct', rows_ordered=True)
    return State(obj, model, live)


def run_ops(st, ops):
    for rec in ops:
        rec = dict(rec)
        rec.setdefault('a', 0)
        rec.setdefault('b', 0)
        rec.setdefault('m', 0)
        rec.setdefault('xs', [])
        done = _DISPATCH[rec['op']](st, rec)
        (st.log if done else st.skipped).append(rec['op'])
    return st


def describe(spec, ops):
    """labels for classify(): reference model only"""
    st = run_ops(start(spec, live=False), ops)
    return st
