"""Injected random draws for library calls that use numpy's global RNG.

`with Injected(draws, fallback_seed) as rec:` replaces, for the duration of the block,
`numpy.random.randint / shuffle / permutation / choice` by functions that consume the
generated integer list `draws` (abstract draws: every integer is reduced modulo the range the
library asks for, so any integer list is a valid outcome and shrinks well):

  randint(low, high, size)   one draw per element:   low + d % (high - low)
  shuffle(x)                 Fisher-Yates from the back: for i = n-1 .. 1: j = d % (i+1); swap
  permutation(n | array)     shuffle of arange(n) / of a copy
  choice(a, size, replace)   with replacement like randint; without: partial Fisher-Yates
                             (p= is not supported -> falls through to the fallback generator)

When the list is exhausted further draws come from `numpy.random.RandomState(fallback_seed)`
(the seed is part of the case, so a replay is still deterministic).  `rec.log` lists every call
(function, arguments, produced values), `rec.used` how many list entries were consumed and
`rec.fallback` how many draws came from the fallback generator.

`Seeded(seed)` seeds the real global generator for a block and restores its state afterwards
(used by the one statistical sub-check, C09 uniformity).

Nothing here imports rsatoolbox.
"""
import numpy as np


class Injected:
    NAMES = ('randint', 'shuffle', 'permutation', 'choice')

    def __init__(self, draws, fallback_seed=0):
        self.draws = [int(d) for d in draws]
        self.pos = 0
        self.fallback = 0
        self.fallback_seed = int(fallback_seed) % (2 ** 32)
        self._fb = None
        self.log = []
        self._saved = {}

    # -- one abstract draw reduced to range(n) -------------------------------
    def _draw(self, n):
        n = int(n)
        if n <= 0:
            raise ValueError('empty range for an injected draw')
        if self.pos < len(self.draws):
            d = self.draws[self.pos]
            self.pos += 1
            return d % n
        if self._fb is None:
            self._fb = np.random.RandomState(self.fallback_seed)
        self.fallback += 1
        return int(self._fb.randint(0, n))

    @property
    def used(self):
        return self.pos

    # -- replacements --------------------------------------------------------
    def randint(self, low, high=None, size=None, dtype=int):
        if high is None:
            low, high = 0, low
        low, high = int(low), int(high)
        if size is None:
            out = low + self._draw(high - low)
            self.log.append(('randint', low, high, None, [out]))
            return out
        shape = (int(size),) if np.isscalar(size) else tuple(int(s) for s in size)
        n = int(np.prod(shape)) if len(shape) else 1
        vals = [low + self._draw(high - low) for _ in range(n)]
        self.log.append(('randint', low, high, list(shape), list(vals)))
        return np.array(vals, dtype=dtype).reshape(shape)

    def _perm(self, n):
        p = list(range(n))
        for i in range(n - 1, 0, -1):
            j = self._draw(i + 1)
            p[i], p[j] = p[j], p[i]
        return p

    def shuffle(self, x):
        n = len(x)
        p = self._perm(n)
        self.log.append(('shuffle', n, list(p)))
        if isinstance(x, np.ndarray):
            x[...] = x[p].copy()
        else:
            old = list(x)
            for i in range(n):
                x[i] = old[p[i]]
        return None

    def permutation(self, x):
        if isinstance(x, (int, np.integer)):
            p = self._perm(int(x))
            self.log.append(('permutation', int(x), list(p)))
            return np.array(p)
        a = np.array(x)
        p = self._perm(len(a))
        self.log.append(('permutation', len(a), list(p)))
        return a[p]

    def choice(self, a, size=None, replace=True, p=None):
        if p is not None:
            # weighted choice is not modelled; use the recorded fallback generator
            if self._fb is None:
                self._fb = np.random.RandomState(self.fallback_seed)
            self.fallback += 1
            out = self._fb.choice(a, size=size, replace=replace, p=p)
            self.log.append(('choice-weighted', None, np.asarray(out).tolist()))
            return out
        pool = np.arange(a) if isinstance(a, (int, np.integer)) else np.array(a)
        n = len(pool)
        if size is None:
            i = self._draw(n)
            self.log.append(('choice', n, [i]))
            return pool[i]
        shape = (int(size),) if np.isscalar(size) else tuple(int(s) for s in size)
        m = int(np.prod(shape)) if len(shape) else 1
        if replace:
            idx = [self._draw(n) for _ in range(m)]
        else:
            if m > n:
                raise ValueError('Cannot take a larger sample than population when replace=False')
            order = list(range(n))
            idx = []
            for k in range(m):
                j = k + self._draw(n - k)
                order[k], order[j] = order[j], order[k]
                idx.append(order[k])
        self.log.append(('choice', n, list(idx)))
        return pool[idx].reshape(shape)

    # -- context manager -----------------------------------------------------
    def __enter__(self):
        for name in self.NAMES:
            self._saved[name] = getattr(np.random, name)
            setattr(np.random, name, getattr(self, name))
        return self

    def __exit__(self, et, ev, tb):
        for name, fn in self._saved.items():
            setattr(np.random, name, fn)
        self._saved = {}
        return False

    # -- reporting helpers ---------------------------------------------------
    def calls(self, name=None):
        return [c for c in self.log if name is None or c[0] == name]

    def summary(self):
        return dict(used=self.pos, fallback=self.fallback,
                    calls=[c[0] for c in self.log])


class Seeded:
    """seed numpy's global generator for a block, restore the previous state afterwards"""

    def __init__(self, seed):
        self.seed = int(seed) % (2 ** 32)

    def __enter__(self):
        self._state = np.random.get_state()
        np.random.seed(self.seed)
        return self

    def __exit__(self, et, ev, tb):
        np.random.set_state(self._state)
        return False


def outcomes(n, size):
    """all tuples in range(n)**size (complete outcome space of randint(0, n, size))"""
    import itertools
    return itertools.product(range(n), repeat=size)
