"""Hidden identities for rsatoolbox.rdm.RDMs objects (DESIGN 1.5).

Every generated RDMs object carries two extra descriptors with globally unique values,
`_rid` (one per RDM) and `_cid` (one per condition).  A side table (`Side`) maps
ids -> original dissimilarities and original descriptor values.  After any history the
order-free invariant is:

* each present RDM / condition is identified by its id; every other (user) descriptor value
  at that position equals the side-table value for that id;
* the dissimilarity at (rid, {cid_a, cid_b}) equals the side-table value; it is NaN iff
  cid_a == cid_b (two copies of one condition) or the pair is outside the row's `support`
  (pair absent from a partial RDM);
* the multiset of present ids equals the multiset the caller's reference model predicts;
  order is asserted only on request.

The ids travel through the library's own descriptor plumbing, so a mis-assignment of
descriptors *or* of values breaks the invariant and neither can compensate for the other.

Nothing here draws random numbers.  Everything is importable by other checks
(C12, C16): `Side`, `MObj`, `build_member`, `check_object`, `fingerprint`.
"""
import math
from collections import Counter
from copy import deepcopy

import numpy as np

from vf import core
from vf.core import Violation, require

from rsatoolbox.rdm.rdms import RDMs

RID = '_rid'
CID = '_cid'
IGNORED_KEYS = ('index', 'p_inv')    # library-managed / gimmick entries, never asserted


# ---------------------------------------------------------------------------
# normalisation of descriptor values

def norm(v):
    """numpy scalar -> python scalar; everything else unchanged"""
    if isinstance(v, np.generic):
        return v.item()
    return v


def same_value(a, b):
    """descriptor value equality: strings with strings, numbers with numbers
    (3 == 3.0 is accepted: an equal-valued float is the same label)"""
    a, b = norm(a), norm(b)
    if isinstance(a, str) or isinstance(b, str):
        return isinstance(a, str) and isinstance(b, str) and a == b
    if isinstance(a, bool) or isinstance(b, bool):
        return a is b
    if isinstance(a, (int, float)) and isinstance(b, (int, float)):
        return a == b or (isinstance(a, float) and isinstance(b, float)
                          and math.isnan(a) and math.isnan(b))
    try:
        return bool(np.all(np.asarray(a) == np.asarray(b)))
    except Exception:  # noqa: BLE001
        return False


def as_container(values, container):
    if container == 'array':
        return np.array(values)
    return list(values)


def pair_index(n):
    """[(i, j)] for i<j in row-major upper-triangle order (the vector form convention)"""
    return [(i, j) for i in range(n) for j in range(i + 1, n)]


def n_pairs(n):
    return n * (n - 1) // 2


def vec_to_mat(v, n):
    """own vector -> square conversion (explicit loops, no scipy / rsatoolbox)"""
    m = np.zeros((n, n))
    k = 0
    for i in range(n):
        for j in range(i + 1, n):
            m[i, j] = v[k]
            m[j, i] = v[k]
            k += 1
    return m


def _eq_nan(a, b):
    a = np.asarray(a, dtype=float)
    b = np.asarray(b, dtype=float)
    return a.shape == b.shape and bool(np.array_equal(a, b, equal_nan=True))


# ---------------------------------------------------------------------------
# side table and reference-model object

class Side:
    """ids -> original content"""

    def __init__(self):
        self.values = {}     # (rid, cid_lo, cid_hi) -> float
        self.rdesc = {}      # rid -> {user key: value}  (rdm-level and object-level descriptors)
        self.pdesc = {}      # cid -> {user key: value}

    def value(self, rid, ca, cb):
        lo, hi = (ca, cb) if ca <= cb else (cb, ca)
        return self.values[(rid, lo, hi)]

    def expected_vector(self, rid, support, cids):
        n = len(cids)
        out = np.empty(n_pairs(n))
        k = 0
        for i in range(n):
            for j in range(i + 1, n):
                ca, cb = cids[i], cids[j]
                if ca == cb:
                    out[k] = np.nan
                elif support is not None and (ca not in support or cb not in support):
                    out[k] = np.nan
                else:
                    out[k] = self.value(rid, ca, cb)
                k += 1
        return out


class MObj:
    """reference model of one RDMs object: only ids (and which descriptor keys must be there)

    rows  : list of (rid, support) ; support None = all pairs, else frozenset of cids for which
            the row has data (from_partials)
    conds : list of cid
    pkeys : user pattern-descriptor keys that must be present (besides _cid)
    rkeys : user descriptor keys every RDM must still carry (at rdm level or object level)
    rlevel: keys expected at rdm level (for key-set homogeneity of concat partners)
    odesc : object-level descriptors expected (key -> value), 'p_inv' included when present
    """

    def __init__(self, rows, conds, pkeys, rkeys, rlevel, odesc, measure, origin=('new', ())):
        self.rows = list(rows)
        self.conds = list(conds)
        self.pkeys = tuple(pkeys)
        self.rkeys = tuple(rkeys)
        self.rlevel = tuple(rlevel)
        self.odesc = dict(odesc)
        self.measure = measure
        self.origin = origin

    def clone(self, **kw):
        m = MObj(self.rows, self.conds, self.pkeys, self.rkeys, self.rlevel, self.odesc,
                 self.measure, self.origin)
        for k, v in kw.items():
            setattr(m, k, v)
        return m

    @property
    def rids(self):
        return [r for r, _ in self.rows]

    def unique_conds(self):
        return len(set(self.conds)) == len(self.conds)


# ---------------------------------------------------------------------------
# building objects from a JSON spec

def member_ids(fam, k):
    """rids of member k, cids of the family (canonical condition numbering)"""
    n_rdm = len(fam['members'][k]['vals'])
    rids = [1000 * (k + 1) + r for r in range(n_rdm)]
    return rids


def family_cids(fam):
    return [101 + i for i in range(fam['n_cond'])]


def build_member(fam, k, side):
    """construct member k of a family spec through the RDMs constructor; register its
    content in the side table.  returns (RDMs, MObj)

    fam = dict(n_cond, pdesc=[dict(name, values)], cid_first, measure, has_study,
               members=[dict(order, vals (n_rdm x n_pairs in canonical pair order),
                             rdesc=[dict(name, values)], pcont, rcont, form, study)])
    """
    mem = fam['members'][k]
    n = fam['n_cond']
    cids_canon = family_cids(fam)
    rids = member_ids(fam, k)
    order = list(mem['order'])
    assert sorted(order) == list(range(n))
    canon_pairs = pair_index(n)
    vals = mem['vals']
    # side table
    for i, cid in enumerate(cids_canon):
        side.pdesc.setdefault(cid, {d['name']: d['values'][i] for d in fam['pdesc']})
    for r, rid in enumerate(rids):
        d = {dd['name']: dd['values'][r] for dd in mem['rdesc']}
        if fam.get('has_study'):
            d['study'] = mem['study']
        side.rdesc[rid] = d
        for kk, (a, b) in enumerate(canon_pairs):
            side.values[(rid, cids_canon[a], cids_canon[b])] = float(vals[r][kk])
    # the member lists the conditions in its own order
    cids = [cids_canon[i] for i in order]
    n_rdm = len(rids)
    mats = np.zeros((n_rdm, n, n))
    for r, rid in enumerate(rids):
        for i in range(n):
            for j in range(n):
                if i != j:
                    mats[r, i, j] = side.value(rid, cids[i], cids[j])
    vecs = np.array([[mats[r, i, j] for (i, j) in canon_pairs] for r in range(n_rdm)],
                    dtype=float).reshape(n_rdm, n_pairs(n))
    pdesc = {}
    if fam.get('cid_first', True):
        pdesc[CID] = as_container(cids, mem['pcont'])
    for d in fam['pdesc']:
        pdesc[d['name']] = as_container([d['values'][i] for i in order], mem['pcont'])
    if not fam.get('cid_first', True):
        pdesc[CID] = as_container(cids, mem['pcont'])
    rdesc = {RID: as_container(rids, mem['rcont'])}
    for d in mem['rdesc']:
        rdesc[d['name']] = as_container(d['values'], mem['rcont'])
    odesc = {'study': mem['study']} if fam.get('has_study') else {}
    form = mem.get('form', 'vec2d')
    if form == 'mat3d':
        data = mats
    elif form == 'vec1d' and n_rdm == 1:
        data = vecs[0].copy()
    else:
        data = vecs
    if form != 'mat3d' and data.size and not np.isnan(data).any() and np.all(data == np.round(data)) \
            and (n_rdm + n) % 2 == 0:
        # integer-valued RDMs handed over in an integer array (the constructor keeps the dtype of
        # vector input): a deterministic half of the integral cases
        data = data.astype(np.int64)
    if data.ndim >= 2 and (3 * n_rdm + n) % 4 == 0:
        # the same values in column-major memory (a transposed view, loadmat output, ...)
        data = np.asfortranarray(data)
    obj = core.lib(RDMs, data, dissimilarity_measure=fam.get('measure'),
                   descriptors=dict(odesc), rdm_descriptors=rdesc, pattern_descriptors=pdesc,
                   on_error='violation', sig='raises:constructor')
    rkeys = [d['name'] for d in mem['rdesc']] + (['study'] if fam.get('has_study') else [])
    model = MObj(rows=[(rid, None) for rid in rids], conds=cids,
                 pkeys=[d['name'] for d in fam['pdesc']], rkeys=rkeys,
                 rlevel=[d['name'] for d in mem['rdesc']], odesc=odesc,
                 measure=fam.get('measure'), origin=('new', ()))
    return obj, model


# ---------------------------------------------------------------------------
# the invariant

def _safe(op, what, fn):
    """accessor calls on an object the library itself produced must not raise"""
    try:
        return fn()
    except Exception as e:  # noqa: BLE001
        raise Violation('%s: %s() of the resulting object raised %s: %s' % (
            op, what, type(e).__name__, e), 'forms:%s-raises:%s' % (what, op))


def check_forms(obj, op):
    """vector and square forms describe the same symmetric zero-diagonal matrices; sizes agree"""
    d = obj.dissimilarities
    require(isinstance(d, np.ndarray) and d.ndim == 2,
            '%s: dissimilarities not a 2-D array (%r)' % (op, getattr(d, 'shape', None)),
            'forms:shape:' + op)
    n_rdm, n_cond = obj.n_rdm, obj.n_cond
    require(d.shape == (n_rdm, n_pairs(n_cond)),
            '%s: dissimilarities shape %s inconsistent with n_rdm=%r n_cond=%r' % (
                op, d.shape, n_rdm, n_cond), 'forms:shape:' + op)
    require(_safe(op, 'len', lambda: len(obj)) == n_rdm,
            '%s: len() differs from n_rdm = %r' % (op, n_rdm), 'forms:len:' + op)
    for k, v in obj.rdm_descriptors.items():
        require(len(v) == n_rdm, '%s: rdm descriptor %r has %d entries for %d RDMs' % (
            op, k, len(v), n_rdm), 'forms:descriptor-length:' + op)
    for k, v in obj.pattern_descriptors.items():
        require(len(v) == n_cond, '%s: pattern descriptor %r has %d entries for %d conditions' % (
            op, k, len(v), n_cond), 'forms:descriptor-length:' + op)
    v = _safe(op, 'get_vectors', obj.get_vectors)
    require(_eq_nan(v, d), '%s: get_vectors() differs from the stored vectors' % op,
            'forms:vectors:' + op)
    m = _safe(op, 'get_matrices', obj.get_matrices)
    require(isinstance(m, np.ndarray) and m.shape == (n_rdm, n_cond, n_cond),
            '%s: get_matrices() shape %r for n_rdm=%r n_cond=%r' % (
                op, getattr(m, 'shape', None), n_rdm, n_cond), 'forms:matrix-shape:' + op)
    for r in range(n_rdm):
        own = vec_to_mat(d[r], n_cond)
        require(_eq_nan(m[r], own),
                '%s: square form of RDM %d is not the symmetric zero-diagonal matrix of its '
                'vector form\nvector %s\nmatrix\n%s' % (op, r, d[r], m[r]),
                'forms:matrix-vs-vector:' + op)
    return m


def read_ids(obj, op):
    require(RID in obj.rdm_descriptors,
            '%s: the result has lost its rdm descriptors (keys %s)' % (
                op, sorted(obj.rdm_descriptors)), 'rdesc-dropped:' + op)
    require(CID in obj.pattern_descriptors,
            '%s: the result has lost its pattern descriptors (keys %s)' % (
                op, sorted(obj.pattern_descriptors)), 'pdesc-dropped:' + op)
    rids = [norm(x) for x in obj.rdm_descriptors[RID]]
    cids = [norm(x) for x in obj.pattern_descriptors[CID]]
    return rids, cids


def effective_rdesc(obj, key, r):
    """descriptor `key` of RDM r: rdm level first, object level otherwise"""
    if key in obj.rdm_descriptors:
        return True, obj.rdm_descriptors[key][r]
    if key in obj.descriptors:
        return True, obj.descriptors[key]
    return False, None


def check_object(obj, model, side, op, ordered_rows=True, ordered_conds=True):
    """assert the identity invariant of `obj` against `model`; afterwards the order of
    model.rows / model.conds is synchronised with the observed order"""
    require(isinstance(obj, RDMs), '%s: result is %s, not RDMs' % (op, type(obj).__name__),
            'type:' + op)
    check_forms(obj, op)
    rids, cids = read_ids(obj, op)
    # --- descriptors stay with their RDM / condition
    for r, rid in enumerate(rids):
        require(rid in side.rdesc, '%s: unknown RDM id %r at row %d' % (op, rid, r),
                'ids:unknown-rid:' + op)
        for key in model.rkeys:
            found, val = effective_rdesc(obj, key, r)
            require(found, '%s: descriptor %r of RDM %r is gone' % (op, key, rid),
                    'rdesc-dropped:' + op)
            require(same_value(val, side.rdesc[rid][key]),
                    '%s: RDM %r carries %s=%r, it had %r' % (
                        op, rid, key, norm(val), side.rdesc[rid][key]), 'rdesc:' + op)
    for i, cid in enumerate(cids):
        require(cid in side.pdesc, '%s: unknown condition id %r at position %d' % (op, cid, i),
                'ids:unknown-cid:' + op)
        for key in model.pkeys:
            require(key in obj.pattern_descriptors,
                    '%s: pattern descriptor %r is gone' % (op, key), 'pdesc-dropped:' + op)
            val = obj.pattern_descriptors[key][i]
            require(same_value(val, side.pdesc[cid][key]),
                    '%s: condition %r carries %s=%r, it had %r' % (
                        op, cid, key, norm(val), side.pdesc[cid][key]), 'pdesc:' + op)
    # --- values stay with (rid, unordered pair of cids); rows matched as a multiset
    d = obj.dissimilarities
    tokens = list(model.rows)
    used = [False] * len(tokens)
    new_rows = []
    cache = {}
    for r, rid in enumerate(rids):
        cand = [t for t in range(len(tokens)) if not used[t] and tokens[t][0] == rid]
        require(len(cand) > 0,
                '%s: RDM %r present %d times, expected %d times (present %s, expected %s)' % (
                    op, rid, rids.count(rid), [t[0] for t in tokens].count(rid), rids,
                    [t[0] for t in tokens]), 'ids:rdm-multiset:' + op)
        hit = None
        for t in cand:
            key = tokens[t]
            if key not in cache:
                cache[key] = side.expected_vector(rid, key[1], cids)
            if _eq_nan(cache[key], d[r]):
                hit = t
                break
        if hit is None:
            exp = cache[tokens[cand[0]]]
            bad = [k for k in range(len(exp)) if not _eq_nan(exp[k], d[r][k])]
            i, j = pair_index(len(cids))[bad[0]]
            raise Violation(
                '%s: RDM %r, conditions (%r, %r): value %r, the source had %r '
                '(%d of %d pairs differ; conditions %s)' % (
                    op, rid, cids[i], cids[j], float(d[r][bad[0]]), float(exp[bad[0]]),
                    len(bad), len(exp), cids), 'value:' + op)
        used[hit] = True
        new_rows.append(tokens[hit])
    require(all(used), '%s: RDMs present %s, expected %s' % (op, rids, [t[0] for t in tokens]),
            'ids:rdm-multiset:' + op)
    require(Counter(cids) == Counter(model.conds),
            '%s: conditions present %s, expected %s' % (op, cids, model.conds),
            'ids:cond-multiset:' + op)
    if ordered_rows:
        require(rids == model.rids, '%s: RDM order %s, documented order %s' % (
            op, rids, model.rids), 'order:rdm:' + op)
    if ordered_conds:
        require(cids == model.conds, '%s: condition order %s, documented order %s' % (
            op, cids, model.conds), 'order:cond:' + op)
    model.rows = new_rows
    model.conds = list(cids)
    return rids, cids


# ---------------------------------------------------------------------------
# fingerprints (for 'nothing else changed')

def _norm_list(v):
    out = []
    for x in v:
        x = norm(x)
        if isinstance(x, np.ndarray):
            x = ('arr', x.tolist())
        elif isinstance(x, float) and math.isfinite(x) and x == int(x):
            x = int(x)
        out.append(x)
    return out


def fingerprint(obj):
    """labelled content of an RDMs object incl. order and the 'index' entries; container types
    (list vs array) and numpy-vs-python scalar types are normalised away"""
    d = np.ascontiguousarray(np.asarray(obj.dissimilarities, dtype=float))
    fp = [('shape', d.shape), ('bytes', d.tobytes()), ('n', obj.n_rdm, obj.n_cond),
          ('measure', obj.dissimilarity_measure)]
    try:    # the square form the object hands out is part of its observable content
        fp.append(('square', np.ascontiguousarray(np.asarray(obj.get_matrices(), dtype=float)).tobytes()))
    except Exception as e:  # noqa: BLE001
        fp.append(('square', 'raises ' + type(e).__name__))
    for name, dd in (('rdm', obj.rdm_descriptors), ('pattern', obj.pattern_descriptors)):
        for k in sorted(dd):
            fp.append((name, k, repr(_norm_list(dd[k]))))
    for k in sorted(obj.descriptors):
        v = obj.descriptors[k]
        v = v.tolist() if isinstance(v, np.ndarray) else norm(v)
        fp.append(('desc', k, repr(v)))
    return fp


def fingerprint_diff(a, b):
    """human-readable first difference between two fingerprints"""
    da = {x[:2] if x[0] in ('rdm', 'pattern', 'desc') else x[:1]: x for x in a}
    db = {x[:2] if x[0] in ('rdm', 'pattern', 'desc') else x[:1]: x for x in b}
    for k in sorted(set(da) | set(db), key=repr):
        if da.get(k) != db.get(k):
            if k == ('bytes',):
                return 'dissimilarities changed'
            if k == ('square',):
                return 'the square form handed out by get_matrices() changed'
            return '%s: %s -> %s' % (k, da.get(k, ('-',))[-1], db.get(k, ('-',))[-1])
    return 'no difference'


def deep_descriptors(obj):
    """independent copies of the three descriptor dicts (for rebuilding through the constructor)"""
    return (deepcopy(obj.descriptors), deepcopy(obj.rdm_descriptors),
            deepcopy(obj.pattern_descriptors))
