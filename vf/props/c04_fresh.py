"""C04 'a rerun with the same random seed reproduces the result exactly' - across processes.

Within one interpreter a rerun can agree by accident (set / dict iteration order, caches);
here the same seeded call is executed in two fresh interpreters that differ in PYTHONHASHSEED
and the stored arrays are compared bit for bit."""
import json
import os
import subprocess
import sys

from hypothesis import strategies as st

from vf import core, gen
from vf.core import Violation, Reject, require

ROUTINES = ['eval_bootstrap', 'eval_bootstrap_rdm', 'eval_bootstrap_pattern', 'bootstrap_crossval',
            'eval_dual_bootstrap']

CHILD = r'''
import sys, json, hashlib
sys.path.insert(0, sys.argv[1])
import warnings; warnings.filterwarnings('ignore')
import numpy as np
case = json.loads(sys.argv[2])
from rsatoolbox.rdm import RDMs
from rsatoolbox.model import ModelFixed
import rsatoolbox.inference as inf
import rsatoolbox.inference.evaluate as ev
ev.tqdm = type('T', (), {'trange': staticmethod(lambda n, **k: range(n))})
vecs = np.array(case['data'], dtype=float)
n_rdm = vecs.shape[0]
subj = [case['subjects'][i % len(case['subjects'])] for i in range(n_rdm)]
cond = case['conds']
data = RDMs(vecs, rdm_descriptors={'subj': subj}, pattern_descriptors={'cond': cond})
models = [ModelFixed('m%d' % i, RDMs(np.array([v], dtype=float), pattern_descriptors={'cond': cond}))
          for i, v in enumerate(case['models'])]
np.random.seed(case['seed'])
kw = dict(method=case['method'], N=case['N'])
r = case['routine']
if r in ('eval_bootstrap', 'eval_dual_bootstrap', 'bootstrap_crossval'):
    kw.update(rdm_descriptor='subj', pattern_descriptor='cond')
elif r == 'eval_bootstrap_rdm':
    kw.update(rdm_descriptor='subj')
else:
    kw.update(pattern_descriptor='cond', rdm_descriptor='subj')
if r in ('eval_dual_bootstrap', 'bootstrap_crossval'):
    kw.update(k_rdm=1, k_pattern=1)
res = getattr(inf, r)(models, data, **kw)
out = {}
for name in ('evaluations', 'noise_ceiling', 'variances'):
    a = np.asarray(getattr(res, name), dtype=float)
    out[name] = hashlib.sha1(np.ascontiguousarray(a).tobytes()).hexdigest() + ':' + str(a.shape)
out['dof'] = int(res.dof)
print('RESULT ' + json.dumps(out))
'''


@st.composite
def fresh_case(draw):
    n_cond = draw(st.integers(5, 7))
    n_rdm = draw(st.integers(4, 6))
    p = n_cond * (n_cond - 1) // 2
    labels = draw(st.sampled_from([['anna', 'bo', 'cy'], ['s10', 's2', 's1', 's33'], [3, 1, 2]]))
    conds = draw(st.sampled_from([['c%d' % i for i in range(n_cond)],
                                  ['face', 'house', 'cat', 'dog', 'tool', 'tree', 'car'][:n_cond]]))
    return dict(routine=draw(st.sampled_from(ROUTINES)), method=draw(st.sampled_from(['cosine', 'corr'])),
                N=draw(st.integers(4, 8)), seed=draw(st.integers(0, 2 ** 20)),
                data=draw(gen.matrix(n_rdm, p, kind='pos')), models=draw(gen.matrix(2, p, kind='pos')),
                subjects=labels, conds=conds)


def _run(case, hashseed):
    env = dict(os.environ, PYTHONHASHSEED=str(hashseed), OMP_NUM_THREADS='1')
    src = os.path.join(core.REPO, 'src')
    p = subprocess.run([sys.executable, '-c', CHILD, src, json.dumps(case)], env=env,
                       capture_output=True, text=True, timeout=300)
    lines = [l for l in p.stdout.splitlines() if l.startswith('RESULT ')]
    if p.returncode != 0 or not lines:
        raise Reject('child process failed: %s' % p.stderr.strip()[-300:], 'rejected:child')
    return json.loads(lines[-1][7:])


def check_fresh(case):
    a = _run(case, 1)
    b = _run(case, 2)
    for k in ('evaluations', 'noise_ceiling', 'variances', 'dof'):
        require(a[k] == b[k], '%s(%s) with np.random.seed(%d) run in two fresh interpreters '
                '(PYTHONHASHSEED 1 and 2): stored %s differ (%s vs %s)' % (
                    case['routine'], case['method'], case['seed'], k, a[k], b[k]),
                'rerun:fresh-process:' + case['routine'])


def classify_fresh(case):
    labs = case['subjects']
    return ['fresh:' + case['routine'], 'labels:' + ('str' if isinstance(labs[0], str) else 'int')], True
