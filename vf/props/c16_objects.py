"""C16 helpers: JSON specs -> library objects, fingerprints, own field-wise equality."""
import hashlib

import numpy as np

from vf import core
from vf.core import Violation, require

ASCII_POOL = ['a', 'b10', 'b9', '', 'Cond A', 'zz', 'x_1', 'V1']
UNI_POOL = ['bär', 'a', 'ß2', 'Ünï', 'π', 'naïve', '日本', 'x']


# ---- typed values (object-level descriptors) -------------------------------------------

def decode_value(tv):
    t, v = tv['t'], tv['v']
    if t in ('vec', 'mat'):
        return np.array(v, dtype=float)
    if t == 'none':
        return None
    return v


def decode_peritem(spec, n):
    """per-item descriptor: homogeneous list / array of length n (values cycled)"""
    vals = [spec['values'][i % len(spec['values'])] for i in range(n)]
    if spec['container'] == 'array':
        return np.array(vals)
    return list(vals)


# ---- fingerprint (in-memory object unchanged by saving) --------------------------------

def fp(v):
    if isinstance(v, np.ndarray):
        return ('nd', v.dtype.str, v.shape,
                hashlib.sha1(np.ascontiguousarray(v).tobytes()).hexdigest()
                if v.dtype.kind != 'O' else repr(v.tolist()))
    if isinstance(v, dict):
        return ('dict', tuple((k, fp(v[k])) for k in sorted(v, key=str)))
    if isinstance(v, (list, tuple)):
        return (type(v).__name__, tuple(fp(x) for x in v))
    if isinstance(v, np.generic):
        return (type(v).__name__, repr(v.item()))
    return (type(v).__name__, repr(v))


def fp_rdms(r):
    return fp(dict(d=r.dissimilarities, m=r.dissimilarity_measure, desc=r.descriptors,
                   rd=r.rdm_descriptors, pd=r.pattern_descriptors, n=(r.n_rdm, r.n_cond)))


def fp_dataset(d):
    out = dict(m=d.measurements, desc=d.descriptors, od=d.obs_descriptors, cd=d.channel_descriptors,
               t=type(d).__name__)
    if hasattr(d, 'time_descriptors'):
        out['td'] = d.time_descriptors
    return fp(out)


def fp_model(m):
    return (type(m).__name__, fp(m.name), fp_rdms(m.rdm_obj) if m.rdm_obj is not None else None,
            fp(getattr(m, 'rdm', None)))


def fp_result(r):
    return (fp(dict(e=r.evaluations, v=r.variances, dof=r.dof, nc=r.noise_ceiling, m=r.method,
                    cv=r.cv_method, nr=r.n_rdm, np_=r.n_pattern, mv=r.model_var, dv=r.diff_var,
                    ncv=r.noise_ceil_var)), tuple(fp_model(m) for m in r.models))


# ---- own equality -----------------------------------------------------------------------

def _scalar(v):
    if isinstance(v, np.ndarray) and v.ndim == 0:
        v = v.item()
    if isinstance(v, np.generic):
        v = v.item()
    if isinstance(v, bytes):
        return ('bytes', v)
    return v


def veq(a, b):
    """element-wise equal after normalising np.str_/str, np.int64/int, 0-d arrays/scalars;
    NaN equals NaN; a string never equals a number; None only equals None"""
    a, b = _scalar(a), _scalar(b)
    seq_a = isinstance(a, (list, tuple, np.ndarray))
    seq_b = isinstance(b, (list, tuple, np.ndarray))
    if seq_a or seq_b:
        if not (seq_a and seq_b):
            return False
        la = a.tolist() if isinstance(a, np.ndarray) else list(a)
        lb = b.tolist() if isinstance(b, np.ndarray) else list(b)
        if isinstance(a, np.ndarray) and isinstance(b, np.ndarray) and a.shape != b.shape:
            return False
        return len(la) == len(lb) and all(veq(x, y) for x, y in zip(la, lb))
    if a is None or b is None:
        return a is None and b is None
    if isinstance(a, str) or isinstance(b, str):
        return isinstance(a, str) and isinstance(b, str) and a == b
    if isinstance(a, tuple) or isinstance(b, tuple):      # ('bytes', ..): undecoded strings
        return False
    try:
        if a != a and b != b:
            return True
        return bool(a == b)
    except Exception:  # noqa: BLE001
        return False


def _show(v, n=6):
    if isinstance(v, np.ndarray):
        return 'array(%s%s, dtype=%s)' % (v.ravel()[:n].tolist(), '...' if v.size > n else '', v.dtype)
    if isinstance(v, (list, tuple)) and len(v) > n:
        return repr(list(v[:n]))[:-1] + ', ...]'
    return repr(v)


def cmp_array(lo, orig, what, sig):
    lo, orig = np.asarray(lo), np.asarray(orig)
    require(lo.shape == orig.shape, '%s: loaded shape %s, saved %s' % (what, lo.shape, orig.shape), sig)
    require(lo.dtype.kind == orig.dtype.kind, '%s: loaded dtype %s, saved %s' % (
        what, lo.dtype, orig.dtype), sig)
    if not np.array_equal(lo, orig, equal_nan=True):
        bad = np.argwhere(~((lo == orig) | (np.isnan(lo) & np.isnan(orig))))
        pos = tuple(int(i) for i in bad[0])
        raise Violation('%s differs at %s: loaded %r, saved %r' % (what, pos, lo[pos], orig[pos]), sig)


def cmp_dict(lo, orig, what, sig, skip=()):
    """same keys, element-wise equal values"""
    kl, ko = set(lo) - set(skip), set(orig) - set(skip)
    require(kl == ko, '%s: loaded keys %s, saved keys %s' % (what, sorted(kl, key=str), sorted(ko, key=str)),
            sig + ':keys')
    for k in sorted(ko, key=str):
        if not veq(lo[k], orig[k]):
            raise Violation('%s[%r]: loaded %s, saved %s' % (what, k, _show(lo[k]), _show(orig[k])),
                            sig + ':value')


def cmp_rdms(lo, orig, tag):
    from rsatoolbox.rdm import RDMs
    require(type(lo) is RDMs, '%s: loaded a %s' % (tag, type(lo).__name__), tag + ':type')
    require((lo.n_rdm, lo.n_cond) == (orig.n_rdm, orig.n_cond), '%s: loaded n_rdm,n_cond %s, saved %s'
            % (tag, (lo.n_rdm, lo.n_cond), (orig.n_rdm, orig.n_cond)), tag + ':n_cond')
    cmp_array(lo.dissimilarities, orig.dissimilarities, tag + ' dissimilarities', tag + ':dissimilarities')
    require(veq(lo.dissimilarity_measure, orig.dissimilarity_measure), '%s: measure loaded %r, saved %r'
            % (tag, lo.dissimilarity_measure, orig.dissimilarity_measure), tag + ':measure')
    cmp_dict(lo.descriptors, orig.descriptors, tag + ' descriptors', tag + ':descriptors')
    cmp_dict(lo.rdm_descriptors, orig.rdm_descriptors, tag + ' rdm_descriptors', tag + ':rdm_descriptors')
    cmp_dict(lo.pattern_descriptors, orig.pattern_descriptors, tag + ' pattern_descriptors',
             tag + ':pattern_descriptors')


def cmp_dataset(lo, orig, tag):
    require(type(lo) is type(orig), '%s: loaded a %s, saved a %s' % (
        tag, type(lo).__name__, type(orig).__name__), tag + ':type')
    cmp_array(lo.measurements, orig.measurements, tag + ' measurements', tag + ':measurements')
    cmp_dict(lo.descriptors, orig.descriptors, tag + ' descriptors', tag + ':descriptors')
    cmp_dict(lo.obs_descriptors, orig.obs_descriptors, tag + ' obs_descriptors', tag + ':obs_descriptors')
    cmp_dict(lo.channel_descriptors, orig.channel_descriptors, tag + ' channel_descriptors',
             tag + ':channel_descriptors')
    if hasattr(orig, 'time_descriptors'):
        cmp_dict(lo.time_descriptors, orig.time_descriptors, tag + ' time_descriptors',
                 tag + ':time_descriptors')


def has_nan(arr):
    arr = np.asarray(arr)
    return arr.dtype.kind == 'f' and bool(np.isnan(arr).any())


def lib_eq(lo, orig, tag, nan_inside):
    """library `==` must not raise; True for NaN-free objects; with NaN inside (IEEE: NaN != NaN)
    it must answer exactly what it answers for an in-memory copy"""
    name = type(orig).__name__
    for x, y, d in ((lo, orig, 'loaded == saved'), (orig, lo, 'saved == loaded')):
        try:
            res = x == y
        except Exception as e:  # noqa: BLE001
            raise Violation('%s: `%s` raises %s: %s' % (tag, d, type(e).__name__, e),
                            'eq-raises:' + name)
        if nan_inside:
            try:
                ref = orig.copy() == orig
            except Exception:  # noqa: BLE001
                continue
            require(bool(res) == bool(ref), '%s: `%s` is %s but `copy == saved` is %s' % (
                tag, d, bool(res), bool(ref)), 'eq-differs-from-copy:' + name)
        else:
            require(bool(res) is True, '%s: `%s` is %r although every field is equal' % (tag, d, res),
                    'eq-false:' + name)


# ---- builders ---------------------------------------------------------------------------

def apply_special(arr, special):
    """put NaN / inf at generated positions (indices modulo the shape)"""
    arr = np.array(arr, dtype=float)
    if arr.size == 0:
        return arr
    flat = arr.reshape(-1)
    for pos, kind in special:
        flat[pos % flat.size] = {'nan': np.nan, 'inf': np.inf, '-inf': -np.inf}[kind]
    return flat.reshape(arr.shape)


def build_rdms(spec):
    from rsatoolbox.rdm import RDMs
    n_rdm, n_cond = spec['n_rdm'], spec['n_cond']
    dis = apply_special(spec['dis'], spec.get('special', []))
    desc = {k: decode_value(v) for k, v in spec.get('desc', {}).items()}
    rd = {k: decode_peritem(v, n_rdm) for k, v in spec.get('rdm_desc', {}).items()}
    pd = {k: decode_peritem(v, n_cond) for k, v in spec.get('pat_desc', {}).items()}
    return RDMs(dis, dissimilarity_measure=spec.get('measure'), descriptors=desc,
                rdm_descriptors=rd, pattern_descriptors=pd)


def _uniq(values):
    out = []
    for v in values:
        if not any(veq(v, u) for u in out):
            out.append(v)
    return out


def _pick(values, mask, xs=None):
    u = _uniq(list(values))
    if xs:
        return [_py(u[i % len(u)]) for i in xs]
    sel = [_py(u[i]) for i in range(len(u)) if (mask >> (i % 16)) & 1]
    return sel or [_py(u[mask % len(u)])]


def _py(v):
    return v.item() if isinstance(v, np.generic) else v


def rdms_history(r, ops):
    """short random history of structural operations (C10 builds the full machine)"""
    done = []
    for rec in ops:
        op, a, m, xs = rec['op'], rec.get('a', 0), rec.get('m', 0), rec.get('xs', [])
        rkeys = sorted(r.rdm_descriptors)
        pkeys = sorted(r.pattern_descriptors)
        if op == 'subset':
            by = rkeys[a % len(rkeys)]
            r = core.lib(r.subset, by, _pick(r.rdm_descriptors[by], m))
        elif op == 'subsample':
            by = rkeys[a % len(rkeys)]
            r = core.lib(r.subsample, by, _pick(r.rdm_descriptors[by], m, xs[:4] or [0]))
        elif op == 'subset_pattern':
            by = pkeys[a % len(pkeys)]
            vals = _pick(r.pattern_descriptors[by], m)
            r2 = core.lib(r.subset_pattern, by, vals)
            if r2.n_cond < 2:
                continue
            r = r2
        elif op == 'subsample_pattern':
            by = pkeys[a % len(pkeys)]
            r2 = core.lib(r.subsample_pattern, by, _pick(r.pattern_descriptors[by], m, xs[:5] or [0, 1]))
            if r2.n_cond < 2:
                continue
            r = r2
        elif op == 'sort_by':
            by = pkeys[a % len(pkeys)]
            core.lib(r.sort_by, **{by: 'alpha'})
        elif op == 'reorder':
            n = r.n_cond
            key = [(xs[i % len(xs)] if xs else 0, -i) for i in range(n)]
            core.lib(r.reorder, sorted(range(n), key=lambda i: key[i]))
        elif op == 'append':
            core.lib(r.append, r.copy())
        elif op == 'copy':
            r = core.lib(r.copy)
        done.append(op)
    return r, done
