"""C19 - searchlights hold exactly the voxels in radius; RDMs match direct computation;
model evaluation returns one result per centre, in centre order, for every n_jobs."""
import contextlib
import math
import multiprocessing as mp
import os
from fractions import Fraction

import numpy as np
from hypothesis import strategies as st

from vf import core, gen, ref
from vf.core import SubCheck, Enumeration, Violation, Reject, lib, require, require_close

# joblib/loky workers are fresh interpreters: let them import the tree under test and
# the probe module by name (only matters for the loky sub-check)
_pp = [os.path.join(core.REPO, 'src'), core.VERIF_DIR]
_old = os.environ.get('PYTHONPATH', '')
if not _old.startswith(os.pathsep.join(_pp)):
    os.environ['PYTHONPATH'] = os.pathsep.join(_pp + ([_old] if _old else []))

import joblib  # noqa: E402
from rsatoolbox.util import searchlight as S  # noqa: E402
from rsatoolbox.data.dataset import Dataset  # noqa: E402
from rsatoolbox.rdm import RDMs  # noqa: E402
from rsatoolbox.rdm.calc import calc_rdm  # noqa: E402
from rsatoolbox.model import ModelFixed  # noqa: E402
from rsatoolbox.inference import eval_fixed  # noqa: E402
from vf.props.c19_probe import eval_probe  # noqa: E402

# progress bars and the "Found n searchlights" print are noise for the runner
S.tqdm = lambda it, **kw: it
S.print = lambda *a, **k: None

RULE = ("geometry: Hypothesis-generated 3-D masks (each side 1-5, random / dense / full contents, "
        "bool or int, array or nested list), radius from {1,1.01,sqrt2,1.5,sqrt3,2,2.5,3} plus "
        "other values (int and float), threshold from {0,.3,.5,.75,1} plus k/20 and thirds; every "
        "voxel of the volume is used as a centre for _get_searchlight_neighbors and the whole "
        "get_volume_searchlight result is compared with a brute-force loop over all voxels "
        "(thorough: additionally every one of the 2^18 masks of a 2x3x3 volume at radius 1.5 / "
        "threshold 0.5 and at one rotating (radius, threshold) pair). rdms: data matrices x event "
        "vectors with repetitions (int/str labels, permuted rows) x 6 methods x 1-6 explicit "
        "centres with arbitrary neighbour lists; rdms_chunked: 999-2001 synthetic centres "
        "(non-monotone distinct voxel indices, neighbour lists of varying length) so the >1000 "
        "branch runs; oracle = loop-based reference distance by event label and the library's own "
        "single-dataset calc_rdm on data[:, neighbours[i]]. evaluate: RDM stacks with distinct "
        "rows x fixed models x method x n_jobs in {1,2,3,4,8,-1} on the threading backend and "
        "{2,4} on the default loky (process) backend; oracle = reference similarity of model "
        "and row i and the direct eval_fixed on row i; evaluate_undefined: 2-12 centres of which a "
        "proper subset has an all-NaN RDM (NaN rows, or correlation RDMs of searchlights lying in "
        "zero-filled voxels via get_searchlight_RDMs) x a NaN-tolerant user evaluation function "
        "x n_jobs in {1,2,4,-1}; oracle = result i carries voxel_index i and equals the function "
        "called on row i. Non-trivial: geometry - at least two mask "
        "voxels, radius > 1 (spheres clipped by the border of a <=5^3 volume) or threshold "
        "strictly between 0 and 1; rdms - >= 2 centres with different neighbour lists and a "
        "label order that is not sorted or repetitions; chunked - more than 1000 centres; "
        "evaluate - >= 2 centres and n_jobs != 1. Distinct by SHA1 of the case.")
ASSUMPTIONS = [
    "Euclidean distance is the correctly rounded double sqrt(dx^2+dy^2+dz^2) compared with the "
    "radius as given (so radius float(sqrt 2) excludes the face diagonal); where this and exact "
    "rational arithmetic on the given double disagree either answer is accepted",
    "the in-mask fraction is count/size in double arithmetic compared with the threshold as "
    "given; where exact rational arithmetic disagrees either answer is accepted",
    "masks are binary (bool or 0/1 integers) as documented",
    "linear indices are C-order (numpy.ravel_multi_index), the order in which the tutorial "
    "reshapes the 4-D data to n_obs x n_voxels",
    "order of centres and order of voxels inside a neighbour list are not asserted, only the "
    "sets and the centre <-> neighbour-list correspondence",
    "the pair order of a searchlight RDM is that of the library's direct single-dataset "
    "calc_rdm (the returned object carries no pattern descriptors); values are additionally "
    "looked up by label pair against the reference formula",
    "worker scheduling cannot be chosen by the harness: n_jobs and backend are varied, "
    "interleavings are whatever the OS produces",
    "formulas of crossnobis / poisson_cv are C01/C02's business; here they are only compared "
    "with the direct library computation on the same columns",
]

EPS = np.finfo(float).eps


# ---------------------------------------------------------------------------
# geometry oracle (brute force, integer arithmetic + one correctly rounded sqrt)

def lin(shape, x, y, z):
    return (x * shape[1] + y) * shape[2] + z


def oracle_searchlights(shape, radius):
    """for every voxel (linear index) two frozensets of linear indices:
    float rule sqrt(d2) < radius and exact rule d2 < radius^2 (rational)"""
    nx, ny, nz = shape
    r2 = Fraction(radius) ** 2
    kmax = math.ceil(r2) - 1          # largest integer strictly below r2
    vox = [(x, y, z) for x in range(nx) for y in range(ny) for z in range(nz)]
    fl, ex = [], []
    for (cx, cy, cz) in vox:
        f, e = [], []
        for i, (x, y, z) in enumerate(vox):
            d2 = (x - cx) ** 2 + (y - cy) ** 2 + (z - cz) ** 2
            if math.sqrt(d2) < radius:
                f.append(i)
            if d2 <= kmax:
                e.append(i)
        fl.append(frozenset(f))
        ex.append(frozenset(e))
    return fl, ex


_TABLE = {}


def oracle_cached(shape, radius):
    key = (tuple(shape), float(radius))
    if key not in _TABLE:
        if len(_TABLE) > 64:
            _TABLE.clear()
        _TABLE[key] = oracle_searchlights(tuple(shape), radius)
    return _TABLE[key]


def accept_status(cnt, n, thr):
    """'yes' / 'no' / 'either' for in-mask fraction cnt/n against threshold thr"""
    f = (cnt / n) >= thr
    e = Fraction(cnt, n) >= Fraction(thr)
    if f == e:
        return 'yes' if f else 'no'
    return 'either'


def build_mask(case):
    shape = tuple(case['shape'])
    bits = np.array(case['bits'], dtype=int).reshape(shape)
    m = bits.astype(bool) if case.get('dtype', 'int') == 'bool' else bits
    if case.get('form', 'array') == 'list':
        return m.tolist(), bits
    if case.get('form') == 'array-F':
        # same logical volume in column-major memory (what image loaders usually hand out):
        # linear indices are still the row-major indices of the (x, y, z) coordinates
        return np.asfortranarray(m), bits
    return m, bits


def check_geometry(case):
    shape = tuple(case['shape'])
    radius, thr = case['radius'], case['threshold']
    mask, bits = build_mask(case)
    flat = bits.ravel()
    nvox = flat.size
    fl, ex = oracle_cached(shape, radius)

    # 1. every voxel of the volume as a centre
    if case.get('all_centres', True):
        marr = np.array(mask)
        for c in range(nvox):
            cx, cy, cz = np.unravel_index(c, shape)
            nb = lib(S._get_searchlight_neighbors, marr, (int(cx), int(cy), int(cz)), radius,
                     on_error='violation', sig='raises:_get_searchlight_neighbors')
            require(len(nb) == 3 and len(nb[0]) == len(nb[1]) == len(nb[2]),
                    'neighbour tuple malformed for centre %s' % ((cx, cy, cz),), 'neighbors:format')
            coords = list(zip(*nb))
            for (x, y, z) in coords:
                require(0 <= x < shape[0] and 0 <= y < shape[1] and 0 <= z < shape[2],
                        'centre %s radius %r: voxel %s outside the volume %s' % (
                            (cx, cy, cz), radius, (x, y, z), shape), 'neighbors:out-of-volume')
            got = [lin(shape, x, y, z) for (x, y, z) in coords]
            require(len(set(got)) == len(got), 'centre %s radius %r: duplicate voxels' % (
                (cx, cy, cz), radius), 'neighbors:duplicates')
            if set(got) != fl[c] and set(got) != ex[c]:
                extra = sorted(set(got) - fl[c])
                missing = sorted(fl[c] - set(got))
                raise Violation('shape %s centre %s radius %r: searchlight has extra voxels %s, '
                                'misses %s (linear indices)' % (shape, (int(cx), int(cy), int(cz)),
                                                                radius, extra, missing),
                                'neighbors:membership')

    # 2. the whole-volume call
    status = {}
    for c in range(nvox):
        if not flat[c]:
            continue
        sf = accept_status(int(sum(flat[i] for i in fl[c])), len(fl[c]), thr)
        if ex[c] != fl[c]:
            se = accept_status(int(sum(flat[i] for i in ex[c])), len(ex[c]), thr)
            if se != sf:
                sf = 'either'
        status[c] = sf
    sure = {c for c, s in status.items() if s == 'yes'}
    maybe = {c for c, s in status.items() if s == 'either'}

    if not sure and not maybe:
        # nothing qualifies: the answer is "no centres"
        try:
            centers, neighbors = S.get_volume_searchlight(mask, radius=radius, threshold=thr)
        except Exception as e:  # noqa: BLE001
            raise Violation('mask %s with %d voxels, radius %r, threshold %r: no voxel qualifies '
                            'as a centre, get_volume_searchlight raises %s: %s instead of '
                            'returning no centres' % (shape, int(flat.sum()), radius, thr,
                                                      type(e).__name__, e), 'volume:no-centres-raises')
        require(len(centers) == 0 and len(neighbors) == 0,
                'no voxel qualifies but %d centres returned' % len(centers), 'volume:accepted-set')
        return
    try:
        centers, neighbors = S.get_volume_searchlight(mask, radius=radius, threshold=thr)
    except Exception as e:  # noqa: BLE001
        if not sure:
            raise Reject('only knife-edge centres', 'degenerate:knife-edge-only')
        raise Violation('get_volume_searchlight raised %s: %s' % (type(e).__name__, e),
                        'raises:get_volume_searchlight')
    centers = np.asarray(centers)
    require(centers.ndim == 1 and len(neighbors) == centers.shape[0],
            'centres shape %s, %d neighbour lists' % (centers.shape, len(neighbors)),
            'volume:format')
    require(np.issubdtype(centers.dtype, np.integer), 'centres dtype %s' % centers.dtype,
            'volume:format')
    got = [int(c) for c in centers]
    require(all(0 <= c < nvox for c in got), 'centre index outside the volume', 'volume:index-range')
    require(len(set(got)) == len(got), 'duplicate centres %s' % got, 'volume:duplicate-centres')
    gs = set(got)
    if not (sure <= gs and gs <= (sure | maybe)):
        raise Violation('mask shape %s radius %r threshold %r: accepted centres %s, expected %s '
                        '(knife-edge: %s); missing %s, extra %s' % (
                            shape, radius, thr, sorted(gs), sorted(sure), sorted(maybe),
                            sorted(sure - gs), sorted(gs - sure - maybe)), 'volume:accepted-set')
    for i, c in enumerate(got):
        nb = [int(v) for v in np.asarray(neighbors[i]).ravel()]
        require(len(set(nb)) == len(nb), 'neighbour list %d has duplicates' % i,
                'volume:neighbor-duplicates')
        if set(nb) != fl[c] and set(nb) != ex[c]:
            raise Violation('mask shape %s radius %r: neighbour list %d = %s is not the searchlight '
                            'of centre %d (%s), expected %s' % (
                                shape, radius, i, sorted(nb), c,
                                tuple(int(v) for v in np.unravel_index(c, shape)), sorted(fl[c])),
                            'volume:neighbor-lists')


# (Hypothesis favours the first elements of sampled_from: interesting values first)
RADII = [2, 1.5, math.sqrt(2), math.sqrt(3), 2.5, 3, 1.01, 1]
RADII_MORE = [2.0, 3.0, math.sqrt(5), math.sqrt(6), 2.01, 2.24, math.sqrt(8), 3.5, 4, 1.0, 0.5]
THRESHOLDS = [.5, .75, 1, .3, 0]
THRESHOLDS_MORE = [1.0, 0.25, 1 / 3, 2 / 3, 0.6, 0.7, 0.9, 0.1, 0.2, 0.8, 0.0]

radius_st = st.one_of(st.sampled_from(RADII), st.sampled_from(RADII), st.sampled_from(RADII_MORE),
                      st.integers(17, 56).map(lambda k: k / 16))
threshold_st = st.one_of(st.sampled_from(THRESHOLDS), st.sampled_from(THRESHOLDS),
                         st.sampled_from(THRESHOLDS_MORE), st.integers(1, 20).map(lambda k: k / 20))


@st.composite
def geometry_case(draw):
    shape = [draw(st.sampled_from([3, 2, 4, 5, 3, 2, 1])) for _ in range(3)]
    n = shape[0] * shape[1] * shape[2]
    fill = draw(st.sampled_from(['random', 'dense', 'dense', 'full']))
    if fill == 'random':
        bits = [int(b) for b in draw(st.lists(st.booleans(), min_size=n, max_size=n))]
    elif fill == 'dense':
        bits = [int(v != 0) for v in draw(st.lists(st.integers(0, 9), min_size=n, max_size=n))]
    else:
        bits = [1] * n
    return dict(shape=shape, bits=bits, dtype=draw(st.sampled_from(['bool', 'int'])),
                form=draw(st.sampled_from(['array', 'array', 'list', 'array-F'])),
                radius=draw(radius_st), threshold=draw(threshold_st), all_centres=True)


def classify_geometry(case):
    shape, bits = case['shape'], case['bits']
    r, t = case['radius'], case['threshold']
    n_set = sum(bits)
    labels = ['radius:%s' % ('<=1' if r <= 1 else '<=sqrt2' if r <= math.sqrt(2) else
                             '<=2' if r <= 2 else '>2'),
              'radius-type:' + type(r).__name__,
              'threshold:%s' % ('0' if t == 0 else '1' if t == 1 else 'between'),
              'mask:%s' % ('empty' if n_set == 0 else 'full' if n_set == len(bits) else 'partial'),
              'size1-dim' if 1 in shape else 'all-dims>1', 'form:' + case.get('form', 'array')]
    if float(r) in (1.0, 2.0, 3.0, math.sqrt(2), math.sqrt(3), math.sqrt(5), math.sqrt(6),
                    math.sqrt(8)):
        labels.append('radius-on-lattice-distance')
    nt = n_set >= 2 and (r > 1 or 0 < t < 1) and max(shape) >= 2
    return labels, nt


# exhaustive: every mask of a 2x3x3 volume, split over N_EXH enumerations so that the
# runner can spread them over processes
N_EXH = 16
EXH_SHAPE = [2, 3, 3]
COMBOS = [(r, t) for r in RADII for t in THRESHOLDS]


def _exh_enum(k):
    def enum(tier, seed):
        nbit = EXH_SHAPE[0] * EXH_SHAPE[1] * EXH_SHAPE[2]
        for m in range(k, 2 ** nbit, N_EXH):
            bits = [(m >> b) & 1 for b in range(nbit)]
            yield dict(shape=EXH_SHAPE, bits=bits, dtype='int', form='array', radius=1.5,
                       threshold=0.5, all_centres=False)
            r, t = COMBOS[(m ^ (m >> 4) ^ (m >> 9) ^ (m >> 13)) % len(COMBOS)]
            yield dict(shape=EXH_SHAPE, bits=bits, dtype='int', form='array', radius=r,
                       threshold=t, all_centres=False)
    return enum


# ---------------------------------------------------------------------------
# RDMs per centre

METHODS = ['euclidean', 'correlation', 'mahalanobis', 'crossnobis', 'poisson', 'poisson_cv']
CV_METHODS = ('crossnobis', 'poisson_cv')


def ref_rdm_by_label(meas, obs, method):
    """dict {(label_a, label_b): distance} from the loop-based reference"""
    labels, means = ref.cond_means(meas, obs)
    out = {}
    for a in range(len(labels)):
        for b in range(len(labels)):
            if a == b:
                continue
            if method in ('euclidean', 'mahalanobis'):
                d = ref.d_euclid(means[a], means[b])
            elif method == 'correlation':
                d = ref.d_corr(means[a], means[b])
            elif method == 'poisson':
                d = ref.d_poisson(means[a], means[b])
            else:
                return None
            out[(labels[a], labels[b])] = d
    return out, labels, means


def direct_rdm(data, nb, events, method):
    """library's own direct computation on the columns of one searchlight"""
    ds = Dataset(np.array(data[:, nb]), obs_descriptors={'events': events})
    r = lib(calc_rdm, ds, method=method, descriptor='events')
    return r


def check_rows(sl, data, events_plain, events_arg, centers, neighbors, method, tag):
    n_centers = len(centers)
    n_cond = len(ref.first_appearance(list(events_plain)))
    require(isinstance(sl, RDMs), 'return type %s' % type(sl).__name__, tag + ':format')
    require(sl.n_rdm == n_centers, '%d RDMs for %d centres' % (sl.n_rdm, n_centers),
            tag + ':n_rdm')
    require(sl.n_cond == n_cond, 'n_cond %d, %d distinct events' % (sl.n_cond, n_cond),
            tag + ':n_cond')
    vi = list(sl.rdm_descriptors.get('voxel_index', []))
    require(len(vi) == n_centers and all(int(vi[i]) == int(centers[i]) for i in range(n_centers)),
            'voxel_index %s... does not list the centres %s... in order' % (
                [int(v) for v in vi[:6]], [int(c) for c in centers[:6]]), tag + ':voxel_index')
    require(sl.dissimilarity_measure == method, 'dissimilarity_measure %r' % (
        sl.dissimilarity_measure,), tag + ':measure')
    got = np.asarray(sl.dissimilarities, dtype=float)
    cache = {}
    for i in range(n_centers):
        nb = [int(v) for v in neighbors[i]]
        key = tuple(nb)
        if key not in cache:
            d = direct_rdm(data, nb, events_arg, method)
            dv = np.asarray(d.dissimilarities, dtype=float)[0]
            labs = [x.item() if hasattr(x, 'item') else x for x in d.pattern_descriptors['events']]
            sub = data[:, nb]
            r = ref_rdm_by_label(sub, events_plain, method)
            scale = 0.0
            if r is not None and method == 'correlation' and \
                    min(float(np.std(m)) for m in r[2]) < 2.0 ** -4:
                # (nearly) constant mean pattern: the correlation distance is undefined /
                # ill-conditioned; only row i == direct computation is compared (NaN == NaN)
                r = None
            if r is not None:
                table, _, means = r
                scale = max(float(np.sum(np.square(m))) for m in means)
                if method == 'correlation':
                    rt, at = 1e-8, 1e-10
                elif method == 'poisson':
                    rt, at = 1e-9, 1e-11
                else:
                    rt, at = 1e-9, 64 * EPS * scale
                want = np.array([table[(labs[a], labs[b])] for (a, b) in ref.pairs(len(labs))])
                require_close(dv, want, 'direct calc_rdm(%s) on searchlight columns %s vs reference '
                              'by label' % (method, nb), tag + ':direct-vs-reference', rt, at)
            fin = np.abs(dv[np.isfinite(dv)])
            cache[key] = (dv, float(fin.max()) if fin.size else 0.0)
        dv, mag = cache[key]
        if not core.close(got[i], dv, rtol=1e-12, atol=1e-12 * max(mag, 1e-300)):
            # does the row belong to another centre?
            other = [j for j in range(n_centers) if tuple(int(v) for v in neighbors[j]) in cache and
                     core.close(got[i], cache[tuple(int(v) for v in neighbors[j])][0],
                                rtol=1e-12, atol=1e-12 * max(mag, 1e-300))]
            raise Violation('%d centres, method %s: RDM %d (voxel_index %d, neighbours %s) = %s, '
                            'direct computation %s%s' % (
                                n_centers, method, i, int(centers[i]), nb, core._short(got[i]),
                                core._short(dv),
                                ' - equals the RDM of centre %s' % other[:3] if other else ''),
                            tag + (':row-order' if other else ':row-value'))


@st.composite
def rdm_case(draw):
    method = draw(st.sampled_from(METHODS))
    cv = method in CV_METHODS
    big = cv and draw(st.integers(0, 2)) == 0
    # (cross-validated methods take their folds from the k-th occurrence of each event in
    # observation order: also designs with many interleaved repetitions, > 16 observations)
    des = draw(gen.design(n_cond_range=(4, 6) if big else (2, 5),
                          reps_range=(4, 6) if big else ((2, 3) if cv else (1, 3)),
                          balanced=True if cv else None))
    n_vox = draw(st.integers(4, 14))
    if method in ('poisson', 'poisson_cv'):
        kind = 'pos'
    elif method == 'correlation':
        kind = draw(st.sampled_from(['grid', 'float']))
    else:
        kind = draw(gen.value_kind())
    data = draw(gen.matrix(len(des['obs']), n_vox, kind=kind))
    data_dtype = 'float'
    if method != 'correlation' and draw(st.integers(0, 3)) == 0:
        # integer-typed data matrices (e.g. counts) are data matrices too
        data_dtype = draw(st.sampled_from(['int', 'uint8']))
        top = 9 if data_dtype == 'int' else 255      # (pixel values / raw counts in a narrow type)
        data = draw(st.lists(st.lists(st.integers(0, top), min_size=n_vox, max_size=n_vox),
                             min_size=len(des['obs']), max_size=len(des['obs'])))
    n_centers = draw(st.integers(1, 6))
    kmin = 3 if method == 'correlation' else 1
    neighbors = [draw(st.lists(st.integers(0, n_vox - 1), min_size=kmin, max_size=min(n_vox, 7),
                               unique=True)) for _ in range(n_centers)]
    centers = draw(st.lists(st.integers(0, 5000), min_size=n_centers, max_size=n_centers,
                            unique=True))
    return dict(method=method, design=des, data=data, data_dtype=data_dtype, centers=centers,
                neighbors=neighbors,
                events_form=draw(gen.container), nb_form=draw(st.sampled_from(['list', 'array'])))


def check_rdms(case):
    data = np.array(case['data'], dtype={'int': int, 'uint8': np.uint8}.get(case.get('data_dtype'), float))
    events_plain = list(case['design']['obs'])
    events_arg = gen.as_desc(events_plain, case['events_form'])
    centers = np.array(case['centers'])
    neighbors = [list(nb) for nb in case['neighbors']]
    nb_arg = [np.array(nb) for nb in neighbors] if case['nb_form'] == 'array' else neighbors
    before = data.copy()
    sl = lib(S.get_searchlight_RDMs, data, centers, nb_arg, events_arg, method=case['method'],
             verbose=False, on_error='violation', sig='rdms:raises:' + case['method'])
    require(np.array_equal(before, data), 'data_2d modified', 'rdms:input-mutated')
    check_rows(sl, data, events_plain, events_arg, centers, neighbors, case['method'], 'rdms')
    # the centres array stays the caller's: shifting it afterwards (e.g. to another index space)
    # must not relabel the RDMs already computed
    want_vi = [int(v) for v in centers]
    centers += 1
    got_vi = [int(v) for v in sl.rdm_descriptors['voxel_index']]
    require(got_vi == want_vi, 'after the caller changed its centres array in place the result reports '
            'voxel_index %s, it was computed for %s' % (got_vi[:6], want_vi[:6]),
            'rdms:result-shares-centers')


def classify_rdms(case):
    des = case['design']
    labels = ['method:' + case['method'], 'labels:' + des['kind'],
              'data:' + case.get('data_dtype', 'float'),
              'events:' + case['events_form'], 'n_centers=%d' % len(case['centers']),
              'sorted-labels' if gen.is_sorted_labels(ref.first_appearance(des['obs']))
              else 'unsorted-labels', 'reps' if max(des['reps']) > 1 else 'no-reps']
    distinct = len({tuple(nb) for nb in case['neighbors']}) >= 2
    nt = distinct and ('unsorted-labels' in labels or max(des['reps']) > 1)
    return labels, nt


def expand_chunked(case):
    n_vox = len(case['perm'])
    n = case['n_centers']
    prime = 104729
    centers = [(i * case['mult'] + case['off']) % prime for i in range(n)]
    neighbors = []
    for i in range(n):
        k = case['kmin'] + (i * case['kmul']) % case['kspan']
        neighbors.append([case['perm'][(i * case['step'] + j) % n_vox] for j in range(k)])
    return centers, neighbors


@st.composite
def chunked_case(draw):
    method = draw(st.sampled_from(['euclidean', 'euclidean', 'correlation', 'crossnobis',
                                   'poisson']))
    cv = method in CV_METHODS
    des = draw(gen.design(n_cond_range=(2, 4), reps_range=(2, 2) if cv else (1, 2),
                          balanced=True if cv else None))
    n_vox = draw(st.integers(6, 12))
    kind = 'pos' if method == 'poisson' else draw(st.sampled_from(['grid', 'float']))
    data = draw(gen.matrix(len(des['obs']), n_vox, kind=kind))
    data_dtype = 'float'
    if method != 'correlation' and draw(st.integers(0, 2)) == 0:
        data_dtype = 'int'
        data = draw(st.lists(st.lists(st.integers(0, 9), min_size=n_vox, max_size=n_vox),
                             min_size=len(des['obs']), max_size=len(des['obs'])))
    n_centers = draw(st.one_of(
        st.sampled_from([1001, 1002, 1099, 1100, 1101, 1234, 2001, 1001, 1000, 999]),
        st.integers(1001, 1400)))
    kmin = 3 if method == 'correlation' else draw(st.integers(1, 3))
    # crossnobis with searchlights of unequal size is the rdms sub-check's business (it fails
    # on the unrepaired tree, see fixes/C19-merge-descriptors-unequal-shapes.diff); here all
    # crossnobis searchlights have one size so that the chunk logic is what gets exercised
    kspan = 1 if cv else draw(st.integers(1, n_vox - kmin + 1))
    return dict(method=method, design=des, data=data, data_dtype=data_dtype, n_centers=n_centers,
                perm=draw(gen.permutation(n_vox)), step=draw(st.integers(0, n_vox)),
                kmin=kmin, kspan=kspan, kmul=draw(st.integers(1, 7)),
                mult=draw(st.integers(1, 104728)), off=draw(st.integers(0, 104728)))


def check_chunked(case):
    data = np.array(case['data'], dtype=int if case.get('data_dtype') == 'int' else float)
    events_plain = list(case['design']['obs'])
    events_arg = np.array(events_plain)
    centers, neighbors = expand_chunked(case)
    sl = lib(S.get_searchlight_RDMs, data, np.array(centers), neighbors, events_arg,
             method=case['method'], verbose=False, on_error='violation',
             sig='rdms:raises:' + case['method'])
    check_rows(sl, data, events_plain, events_arg, centers, neighbors, case['method'],
               'chunked' if len(centers) > 1000 else 'rdms')


def classify_chunked(case):
    n = case['n_centers']
    labels = ['method:' + case['method'], 'chunked' if n > 1000 else 'not-chunked',
              'data:' + case.get('data_dtype', 'float'),
              'n%100==0' if n % 100 == 0 else 'n%100!=0', 'labels:' + case['design']['kind']]
    return labels, n > 1000


# ---------------------------------------------------------------------------
# evaluate_models_searchlight

EVAL_METHODS = ['corr', 'cosine', 'spearman']


@contextlib.contextmanager
def allow_children():
    """joblib silently falls back to n_jobs=1 inside a daemonic multiprocessing worker (the
    runner's pool); lift the flag for the duration of the call so the loky branch really runs"""
    p = mp.current_process()
    old = p._config.get('daemon')
    p._config['daemon'] = False
    try:
        yield
    finally:
        if old is None:
            p._config.pop('daemon', None)
        else:
            p._config['daemon'] = old


def shutdown_loky():
    try:
        from joblib.externals.loky import reusable_executor as re_
        ex = re_._executor
        if ex is not None:
            ex.shutdown(wait=True, kill_workers=True)
            re_._executor = None
    except Exception:  # noqa: BLE001
        pass


def _fix_const(v):
    v = list(v)
    if max(v) == min(v):
        v[0] += 1.0
    return v


@st.composite
def evaluate_case(draw, backend='threading'):
    n_cond = draw(st.integers(3, 5))
    npair = ref.n_pairs(n_cond)
    n_centers = draw(st.integers(1, 12))
    rows = [_fix_const(draw(gen.vector(npair, kind='pos'))) for _ in range(n_centers)]
    n_models = draw(st.integers(1, 3))
    models = [_fix_const(draw(gen.vector(npair, kind='pos'))) for _ in range(n_models)]
    vi = draw(st.lists(st.integers(0, 9999), min_size=n_centers, max_size=n_centers, unique=True))
    if backend == 'loky':
        n_jobs = draw(st.sampled_from([2, 4]))
        fn = 'probe'
    else:
        n_jobs = draw(st.sampled_from([1, 2, 2, 3, 4, 4, 8, -1]))
        fn = draw(st.sampled_from(['eval_fixed', 'probe']))
    single = n_models == 1 and draw(st.booleans())
    # a flexible model evaluated at explicitly given weights: theta travels with every call
    theta = None
    if n_models >= 2 and draw(st.integers(0, 2)) == 0:
        theta = [draw(st.sampled_from([0.25, 1.0, 3.0])), draw(st.sampled_from([0.0, 0.5, 2.0]))]
    return dict(rdms=rows, models=models, voxel_index=vi, method=draw(st.sampled_from(EVAL_METHODS)),
                n_jobs=n_jobs, backend=backend if n_jobs != 1 else 'default', fn=fn,
                single_model=single, theta=theta)


def _evals(r, fn):
    return np.asarray(r['evaluations'] if fn == 'probe' else r.evaluations, dtype=float)


def check_evaluate(case):
    vecs = np.array(case['rdms'], dtype=float)
    n = vecs.shape[0]
    vi = [int(v) for v in case['voxel_index']]
    method, n_jobs, fn = case['method'], case['n_jobs'], case['fn']
    sl = RDMs(vecs.copy(), rdm_descriptors={'voxel_index': np.array(vi)},
              dissimilarity_measure='euclidean')
    mvecs = [np.array(m, dtype=float) for m in case['models']]
    models = [ModelFixed('m%d' % k, m.copy()) for k, m in enumerate(mvecs)]
    marg = models[0] if case.get('single_model') else models
    f = eval_probe if fn == 'probe' else eval_fixed
    backend = case['backend']
    kw = {}
    if case.get('theta'):
        from rsatoolbox.model import ModelWeighted
        w = np.array(case['theta'], dtype=float)
        models = [ModelWeighted('w', np.array(mvecs[:2]))]
        marg = models
        mvecs = [w[0] * mvecs[0] + w[1] * mvecs[1]]
        kw = {'theta': [w.copy()]}
    try:
        if backend == 'threading':
            with joblib.parallel_backend('threading'):
                res = lib(S.evaluate_models_searchlight, sl, marg, f, method=method, n_jobs=n_jobs,
                          on_error='violation', sig='raises:evaluate_models_searchlight', **kw)
        elif backend == 'loky':
            with allow_children():
                res = lib(S.evaluate_models_searchlight, sl, marg, f, method=method, n_jobs=n_jobs,
                          on_error='violation', sig='raises:evaluate_models_searchlight', **kw)
        else:
            res = lib(S.evaluate_models_searchlight, sl, marg, f, method=method, n_jobs=n_jobs,
                      on_error='violation', sig='raises:evaluate_models_searchlight', **kw)
    finally:
        if backend == 'loky':
            shutdown_loky()
    require(isinstance(res, list), 'return type %s' % type(res).__name__, 'evaluate:format')
    require(len(res) == n, '%d results for %d centres (n_jobs=%r)' % (len(res), n, n_jobs),
            'evaluate:length')
    require(np.array_equal(sl.dissimilarities, vecs), 'searchlight RDMs modified',
            'evaluate:input-mutated')
    want = np.array([[ref.sim(method, m, vecs[i]) for m in mvecs] for i in range(n)])
    for i in range(n):
        ev = _evals(res[i], fn)
        require(ev.shape == (1, len(models), 1), 'result %d: evaluations shape %s' % (i, ev.shape),
                'evaluate:format')
        ev = ev[0, :, 0]
        if not core.close(ev, want[i], rtol=1e-9, atol=1e-10):
            other = [j for j in range(n) if core.close(ev, want[j], rtol=1e-9, atol=1e-10)]
            raise Violation('n_jobs=%r backend=%s method=%s: result %d = %s, expected %s for centre '
                            '%d%s' % (n_jobs, backend, method, i, core._short(ev),
                                      core._short(want[i]), i,
                                      ' (that is the evaluation of centre %s)' % other[:3]
                                      if other else ''),
                            'evaluate:order' if other else 'evaluate:value')
        direct = eval_fixed(models, sl[i], method=method, **kw)
        require_close(ev, np.asarray(direct.evaluations)[0, :, 0],
                      'result %d vs direct eval_fixed on RDM %d' % (i, i), 'evaluate:vs-direct',
                      rtol=1e-12, atol=1e-13)
        if fn == 'probe':
            require(res[i]['voxel_index'] == [vi[i]] and res[i]['n_rdm'] == 1,
                    'call %d received voxel_index %s, expected [%d]' % (
                        i, res[i]['voxel_index'], vi[i]), 'evaluate:order')
            require(res[i]['method'] == method and res[i]['theta_is_none'] == (not kw),
                    'method/theta not passed through', 'evaluate:arguments')
        else:
            require(res[i].method == method, 'result method %r' % res[i].method,
                    'evaluate:arguments')
    if backend == 'loky':
        pids = {r['pid'] for r in res}
        if os.getpid() in pids:
            raise Reject('loky ran in-process', 'harness:loky-sequential')
        want_src = os.path.join(core.REPO, 'src', 'rsatoolbox')
        if any(os.path.realpath(r['src']) != os.path.realpath(want_src) for r in res):
            raise Reject('worker imported another tree', 'harness:loky-other-tree')
        # same call with the default sequential path: identical list
        seq = S.evaluate_models_searchlight(sl, marg, f, method=method, n_jobs=1, **kw)
        for i in range(n):
            require(np.array_equal(_evals(seq[i], fn), _evals(res[i], fn)),
                    'n_jobs=%d and n_jobs=1 differ at result %d' % (n_jobs, i),
                    'evaluate:n_jobs-dependence')


def classify_evaluate(case):
    n = len(case['rdms'])
    labels = ['n_jobs=%r' % case['n_jobs'], 'backend:' + case['backend'], 'fn:' + case['fn'],
              'method:' + case['method'], 'centres>n_jobs' if n > abs(case['n_jobs']) else
              'centres<=n_jobs', 'single-model-arg' if case.get('single_model') else 'model-list',
              'theta:given' if case.get('theta') else 'theta:none']
    return labels, n >= 2 and case['n_jobs'] != 1


# ---------------------------------------------------------------------------
# evaluate_models_searchlight with undefined (all-NaN) searchlight RDMs and a user-side
# evaluation function that copes with them: still one result per centre, in centre order

def eval_tolerant(models, x, method='corr', theta=None):
    """what a user hands in when some searchlights lie in constant / zero-filled voxels:
    undefined RDMs score NaN, everything else is the library's eval_fixed"""
    rec = {'voxel_index': [int(v) for v in x.rdm_descriptors['voxel_index']],
           'n_rdm': int(x.n_rdm), 'method': method}
    try:
        rec['evaluations'] = np.asarray(
            eval_fixed(models, x, method=method, theta=theta).evaluations, dtype=float)[0, :, 0]
    except ValueError:
        rec['evaluations'] = None
    return rec


@st.composite
def undefined_case(draw):
    n_cond = draw(st.integers(3, 5))
    npair = ref.n_pairs(n_cond)
    n_centers = draw(st.integers(2, 12))
    via = draw(st.sampled_from(['nan-rows', 'nan-rows', 'pipeline']))
    # which centres are undefined: a non-empty proper subset, not only the tail
    undef = draw(st.lists(st.integers(0, n_centers - 2), min_size=1, max_size=n_centers - 1,
                          unique=True))
    case = dict(via=via, n_cond=n_cond, undef=sorted(undef),
                voxel_index=draw(st.lists(st.integers(0, 9999), min_size=n_centers,
                                          max_size=n_centers, unique=True)),
                models=[_fix_const(draw(gen.vector(npair, kind='pos')))
                        for _ in range(draw(st.integers(1, 2)))],
                method=draw(st.sampled_from(EVAL_METHODS)),
                n_jobs=draw(st.sampled_from([1, 1, 2, 4, -1])))
    if via == 'nan-rows':
        case['rdms'] = [_fix_const(draw(gen.vector(npair, kind='pos'))) for _ in range(n_centers)]
    else:
        # searchlights lying wholly in zero-filled voxels (outside the field of view) under
        # method='correlation': the library itself produces the undefined RDMs
        reps = draw(st.integers(1, 2))
        n_live, n_dead = draw(st.integers(4, 8)), draw(st.integers(3, 5))
        case['events'] = list(range(n_cond)) * reps
        case['data'] = draw(gen.matrix(n_cond * reps, n_live, kind='float'))
        case['n_dead'] = n_dead
        case['neighbors'] = [
            draw(st.lists(st.integers(n_live, n_live + n_dead - 1) if i in undef
                          else st.integers(0, n_live - 1), min_size=3, max_size=3, unique=True))
            for i in range(n_centers)]
    return case


def check_undefined(case):
    vi = [int(v) for v in case['voxel_index']]
    n = len(vi)
    method, n_jobs = case['method'], case['n_jobs']
    if case['via'] == 'nan-rows':
        vecs = np.array(case['rdms'], dtype=float)
        vecs[case['undef']] = np.nan
        sl = RDMs(vecs.copy(), rdm_descriptors={'voxel_index': np.array(vi)},
                  dissimilarity_measure='correlation')
    else:
        live = np.array(case['data'], dtype=float)
        data = np.hstack([live, np.zeros((live.shape[0], case['n_dead']))])
        sl = lib(S.get_searchlight_RDMs, data, np.array(vi), case['neighbors'],
                 np.array(case['events']), method='correlation', verbose=False)
        vecs = np.array(sl.dissimilarities, dtype=float)
    dead = np.all(np.isnan(vecs), axis=1)
    if not dead.any() or dead.all() or not np.all(np.isfinite(vecs[~dead])):
        raise Reject('no mixture of undefined and fully defined searchlights',
                     'degenerate:no-undefined-searchlight')
    models = [ModelFixed('m%d' % k, np.array(m, dtype=float)) for k, m in enumerate(case['models'])]
    with joblib.parallel_backend('threading'):
        res = lib(S.evaluate_models_searchlight, sl, models, eval_tolerant, method=method,
                  n_jobs=n_jobs, on_error='violation', sig='raises:evaluate_models_searchlight')
    require(isinstance(res, list), 'return type %s' % type(res).__name__, 'evaluate:format')
    require(len(res) == n, '%d results for %d centres of which %d have an undefined (all-NaN) RDM '
            '(n_jobs=%r)' % (len(res), n, int(dead.sum()), n_jobs), 'evaluate:undefined-length')
    for i in range(n):
        require(res[i]['voxel_index'] == [vi[i]] and res[i]['n_rdm'] == 1,
                'result %d comes from the searchlight with voxel_index %s, centre %d is voxel %d '
                '(undefined searchlights: %s)' % (i, res[i]['voxel_index'], i, vi[i],
                                                  np.flatnonzero(dead).tolist()),
                'evaluate:undefined-order')
        require(res[i]['method'] == method, 'method not passed through', 'evaluate:arguments')
        direct = eval_tolerant(models, sl[i], method=method)['evaluations']
        got = res[i]['evaluations']
        require((got is None) == (direct is None) and
                (got is None or core.close(got, direct, rtol=1e-12, atol=1e-13)),
                'result %d = %s, the evaluation function called directly on RDM %d gives %s' % (
                    i, got, i, direct), 'evaluate:undefined-vs-direct')
        if not dead[i]:
            want = [ref.sim(method, np.array(m, dtype=float), vecs[i]) for m in case['models']]
            require_close(got, np.array(want), 'result %d vs reference similarity' % i,
                          'evaluate:value', rtol=1e-9, atol=1e-10)


def classify_undefined(case):
    n = len(case['voxel_index'])
    labels = ['via:' + case['via'], 'n_jobs=%r' % case['n_jobs'], 'method:' + case['method'],
              'undefined-first' if 0 in case['undef'] else 'defined-first',
              'undefined=%s' % ('1' if len(case['undef']) == 1 else '>1')]
    return labels, n >= 2


SUBCHECKS = [
    SubCheck('geometry', geometry_case(), check_geometry, classify_geometry, quick=600,
             thorough=6400,
             doc='every voxel as centre: searchlight == brute-force set; get_volume_searchlight: '
                 'accepted centres, linear indices, centre <-> neighbour list'),
    SubCheck('rdms', rdm_case(), check_rdms, classify_rdms, quick=400,
             doc='<= 6 explicit centres: row i == direct calc_rdm on data[:, neighbours[i]] == '
                 'reference by event label; voxel_index, n_cond, measure'),
    SubCheck('rdms_chunked', chunked_case(), check_chunked, classify_chunked, quick=24,
             thorough=320,
             doc='999-2001 synthetic centres: the >1000 (100 chunks) branch, row <-> centre'),
    SubCheck('evaluate', evaluate_case('threading'), check_evaluate, classify_evaluate, quick=120,
             thorough=1600,
             doc='one result per centre in centre order == reference and direct eval_fixed; '
                 'n_jobs 1..8/-1 with worker threads'),
    SubCheck('evaluate_loky', evaluate_case('loky'), check_evaluate, classify_evaluate, quick=3,
             thorough=24, max_reject_frac=0.5,
             doc='same with the default process backend (n_jobs 2/4, real worker processes), '
                 'and equality with n_jobs=1'),
    SubCheck('evaluate_undefined', undefined_case(), check_undefined, classify_undefined, quick=60,
             thorough=600,
             doc='stacks with all-NaN (undefined) searchlight RDMs between defined ones, given as '
                 'NaN rows or produced by correlation over zero-filled voxels, and an evaluation '
                 'function that tolerates them: one result per centre, in centre order'),
] + [
    Enumeration('geometry_exh_%02d' % k, _exh_enum(k), check_geometry, classify_geometry,
                doc='masks m = %d mod %d of all 2^18 masks of a 2x3x3 volume' % (k, N_EXH),
                tiers=('thorough',))
    for k in range(N_EXH)
]
