"""Hypothesis strategies for C10 cases: a family spec + a list of abstract op records.
Everything is a plain JSON value; see vf/props/c10.py for the interpretation."""
from hypothesis import strategies as st

from vf import gen

STR_POOL = gen.STR_POOL      # contains 'b', 'b9', 'b10', 'a', 'aa', 'a1': sort order != numeric,
INT_POOL = gen.INT_POOL      # substrings of each other
NAN = float('nan')

# float-valued labels: time stamps in ms / s with a large origin, frequencies, fractions, tiny steps
FLOAT_POOL = [250001.0, 250002.0, 0.5, 2.5, -1.25, 1700000000.5, 1700000001.5, 1e-9, 2e-9, 100.0,
              7.0, 250003.0]
small = st.integers(0, 7)
seed_list = st.lists(st.integers(0, 7), min_size=0, max_size=8)
vform = st.sampled_from(['scalar', 'scalar', 'list', 'array', 'tuple', 'list'])


@st.composite
def descriptor_values(draw, n, kind=None):
    """n labels of one type; with duplicates in about half of the draws"""
    kind = kind or draw(st.sampled_from(['str', 'int', 'str', 'int', 'float']))
    pool = STR_POOL if kind == 'str' else FLOAT_POOL if kind == 'float' else INT_POOL
    if draw(st.booleans()) or n == 1:
        idx = draw(st.lists(st.integers(0, len(pool) - 1), min_size=n, max_size=n, unique=True))
    else:
        k = draw(st.integers(1, max(1, n - 1)))
        base = draw(st.lists(st.integers(0, len(pool) - 1), min_size=k, max_size=k, unique=True))
        idx = [base[draw(st.integers(0, k - 1))] for _ in range(n)]
    return kind, [pool[i] for i in idx]


@st.composite
def member(draw, k, n_cond, n_rkeys, rkinds, has_study):
    n_rdm = draw(st.integers(1, 4))
    n_p = n_cond * (n_cond - 1) // 2
    order = draw(gen.permutation(n_cond))
    mode = draw(st.sampled_from(['encode', 'encode', 'grid', 'smallint']))
    if mode == 'encode':
        # every (member, rdm, pair) gets its own value: any mis-association is visible
        vals = [[float(1 + ((k * 4 + r) * 16 + p)) / 4.0 for p in range(n_p)] for r in range(n_rdm)]
    elif mode == 'grid':
        vals = [draw(gen.vector(n_p, kind='grid')) for _ in range(n_rdm)]
    else:
        vals = [draw(gen.vector(n_p, kind='smallint')) for _ in range(n_rdm)]
    if n_p and draw(st.integers(0, 3)) == 0:
        for pos in draw(st.lists(st.integers(0, n_rdm * n_p - 1), min_size=1, max_size=3)):
            vals[pos // n_p][pos % n_p] = NAN
    rdesc = []
    for j in range(n_rkeys):
        _, v = draw(descriptor_values(n_rdm, rkinds[j]))
        rdesc.append(dict(name=['subj', 'sess'][j], kind=rkinds[j], values=v))
    form = draw(st.sampled_from(['vec2d', 'mat3d', 'vec1d'] if n_rdm == 1 else ['vec2d', 'mat3d']))
    return dict(order=order, vals=vals, rdesc=rdesc,
                pcont=draw(gen.container), rcont=draw(gen.container), form=form,
                study=draw(st.sampled_from(['x', 'x', 'y'])) if has_study else None)


@st.composite
def family(draw):
    n_cond = draw(st.sampled_from([1, 2, 3, 3, 4, 4, 5, 6]))
    pdesc = []
    for j in range(draw(st.integers(0, 2))):
        kind, v = draw(descriptor_values(n_cond))
        pdesc.append(dict(name=['cond', 'cat'][j], kind=kind, values=v))
    n_rkeys = draw(st.integers(0, 2))
    rkinds = [draw(st.sampled_from(['str', 'int', 'str', 'int', 'float'])) for _ in range(n_rkeys)]
    has_study = draw(st.booleans())
    n_mem = draw(st.sampled_from([1, 2, 2, 3]))
    members = [draw(member(k, n_cond, n_rkeys, rkinds, has_study)) for k in range(n_mem)]
    return dict(n_cond=n_cond, pdesc=pdesc, cid_first=draw(st.booleans()),
                measure=draw(st.sampled_from([None, 'euclidean'])), has_study=has_study,
                members=members)


# ---- op records ------------------------------------------------------------------

def _rec(name, **fields):
    return st.fixed_dictionaries(dict(op=st.just(name), src=st.integers(0, 5), **fields))


idx_list = st.lists(small, min_size=1, max_size=4)

OPS = {
    'getitem': _rec('getitem', form=st.sampled_from(['int', 'list', 'array', 'tuple', 'npint']),
                    idx=idx_list, neg=st.booleans()),
    'iter': _rec('iter', pick=small, rev=st.booleans()),
    'subset': _rec('subset', by=small, mask=st.integers(0, 62), vform=vform),
    'subsample': _rec('subsample', by=small, picks=idx_list, vform=vform),
    'subset_pattern': _rec('subset_pattern', by=small, mask=st.integers(0, 62), vform=vform),
    'subsample_pattern': _rec('subsample_pattern', by=small, picks=idx_list, vform=vform),
    'reorder': _rec('reorder', perm=seed_list, form=st.sampled_from(['list', 'array'])),
    'sort_by': _rec('sort_by', by=small, method=st.sampled_from(['alpha', 'alpha', 'list', 'array']),
                    perm=seed_list, reindex=st.booleans(),
                    then=st.one_of(st.none(), st.none(), small)),
    'append': _rec('append', other=small),
    'concat': _rec('concat', others=st.lists(small, min_size=0, max_size=3),
                   form=st.sampled_from(['varargs', 'list', 'tuple']),
                   target=st.sampled_from([0, 0, 0, 1, 2])),
    'from_partials': _rec('from_partials', others=st.lists(small, min_size=0, max_size=2),
                          by=small,
                          all=st.one_of(st.none(), st.fixed_dictionaries(
                              dict(perm=seed_list, extra=st.integers(0, 7))))),
    'permute': _rec('permute', perm=seed_list, mode=st.sampled_from(['given', 'given', 'none']),
                    inverse=st.booleans()),
    'copy': _rec('copy'),
    'dict': _rec('dict'),
    'matrices': _rec('matrices'),
    'df': _rec('df'),
}

# weight profiles: structural and re-ordering ops are drawn more often than plain conversions
PROFILES = {
    'balanced': dict(getitem=2, iter=1, subset=2, subsample=2, subset_pattern=3,
                     subsample_pattern=3, reorder=3, sort_by=3, append=2, concat=4,
                     from_partials=2, permute=2, copy=1, dict=1, matrices=1, df=1, partials=2),
    'ordering': dict(getitem=1, iter=1, subset=1, subsample=1, subset_pattern=2,
                     subsample_pattern=2, reorder=5, sort_by=6, append=1, concat=5,
                     from_partials=1, permute=4, copy=2, dict=1, matrices=1, df=2, partials=1),
    'combining': dict(getitem=2, iter=1, subset=1, subsample=1, subset_pattern=3,
                      subsample_pattern=1, reorder=3, sort_by=2, append=4, concat=6,
                      from_partials=4, permute=1, copy=2, dict=1, matrices=1, df=1, partials=4),
    'selecting': dict(getitem=4, iter=2, subset=4, subsample=4, subset_pattern=5,
                      subsample_pattern=5, reorder=2, sort_by=2, append=1, concat=2,
                      from_partials=1, permute=1, copy=1, dict=1, matrices=1, df=2, partials=1),
}


@st.composite
def partials_macro(draw):
    """two condition subsets of one object followed by from_partials of them
    (three ordinary records; `src` counts from the newest object, the pool grows by one
    per record)"""
    k = draw(st.integers(0, 3))
    m1, m2 = draw(st.integers(0, 62)), draw(st.integers(0, 62))
    fp = draw(OPS['from_partials'])
    fp['src'] = draw(st.sampled_from([0, 0, 1]))
    fp['others'] = [0] + fp['others'][:1]
    return [dict(op='subset_pattern', src=k, by=1, mask=m1, vform='list'),
            dict(op='subset_pattern', src=k + 1, by=1, mask=m2, vform='array'),
            fp]


def op_records(profile):
    """strategy for a *list* of 1 or 3 records"""
    w = PROFILES[profile]
    names = [n for n, k in w.items() for _ in range(k)]

    def pick(n):
        if n == 'partials':
            return partials_macro()
        return OPS[n].map(lambda r: [r])
    return st.sampled_from(names).flatmap(pick)


@st.composite
def history_case(draw, max_ops, min_ops=1, profile='balanced'):
    fam = draw(family())
    # Hypothesis' list lengths lean towards min_size: draw the lower bound too
    lo = max(min_ops, draw(st.sampled_from([1, 3, 6, 10, 14])))
    chunks = draw(st.lists(op_records(profile), min_size=min(lo, max_ops), max_size=max_ops))
    ops = [r for c in chunks for r in c][:max_ops]
    return dict(fam=fam, ops=ops)
