"""C14 - noise covariance is the pooled residual covariance; precision its inverse."""
import numpy as np
from hypothesis import strategies as st

from vf import core, gen
from vf.core import SubCheck, Violation, Reject, lib, require, require_close

from rsatoolbox.data import noise as N
from rsatoolbox.data.dataset import Dataset

METHODS = ['full', 'diag', 'shrinkage_eye', 'shrinkage_diag']

RULE = ("Hypothesis-generated residual matrices (n 2-24 x p 1-7, incl. p>n; dyadic-grid, "
        "small-integer and float values), 3-D residual stacks / lists with dof None, scalar or "
        "list, and datasets with 2-5 conditions x 1-4 repetitions (balanced or not, rows "
        "permuted, int/str labels, list/array descriptors); oracle = column/condition-demeaned "
        "R'R/dof written with explicit loops, convex-combination structure with one recovered "
        "lambda, eigenvalues, prec@cov=I. Non-trivial: p>=2 and (unbalanced or n_cond!=n_rep or "
        "p>n or list input with distinct dofs or explicit dof); distinct by SHA1 of the case.")
ASSUMPTIONS = [
    "channels with zero residual variance are outside the domain (no precision exists)",
    "numpy.linalg.eigvalsh / inv are trusted",
    "shrinkage intensity formulas (Ledoit-Wolf, Schaefer-Strimmer) are not asserted beyond "
    "'one convex weight in [0,1]' - the property does not state them",
]


# ---- reference -------------------------------------------------------------

def dof_value(top):
    """degrees of freedom as passed in: whole numbers, or the effective (fractional) residual dof a
    GLM package reports"""
    return st.one_of(st.integers(1, top), st.integers(1, top), st.sampled_from([2.5, 7.25, 11.75, 19.5]))


def ref_cov(res, dof):
    """sum of outer products of column-demeaned rows / dof (explicit loops)"""
    res = np.asarray(res, dtype=float)
    n, p = res.shape
    mean = [sum(res[i, j] for i in range(n)) / n for j in range(p)]
    s = np.zeros((p, p))
    for i in range(n):
        d = [res[i, j] - mean[j] for j in range(p)]
        for j in range(p):
            for k in range(p):
                s[j, k] += d[j] * d[k]
    return s / dof


def ref_cov_by_condition(meas, obs, dof=None):
    meas = np.asarray(meas, dtype=float)
    n, p = meas.shape
    labels = []
    for o in obs:
        if o not in labels:
            labels.append(o)
    resid = np.zeros_like(meas)
    for lab in labels:
        rows = [i for i in range(n) if obs[i] == lab]
        m = np.zeros(p)
        for i in rows:
            m += meas[i]
        m /= len(rows)
        for i in rows:
            resid[i] = meas[i] - m
    if dof is None:
        dof = n - len(labels)
    s = np.zeros((p, p))
    for i in range(n):
        s += np.outer(resid[i], resid[i])
    return s / dof, dof


def check_estimate(est, s, method, what, tol_scale):
    """est: library estimate; s: oracle 'full' covariance with the right dof"""
    p = s.shape[0]
    est = np.asarray(est, dtype=float)
    require(est.shape == (p, p), '%s: shape %s, expected %s' % (what, est.shape, (p, p)),
            'shape:' + method)
    atol = 64 * np.finfo(float).eps * max(tol_scale, 1e-300) + 1e-300
    require(not np.isnan(est).any(), '%s: NaN in %s estimate' % (what, method), 'nan:' + method)
    if method == 'full':
        require_close(est, s, what + ' full', 'value:full', rtol=1e-9, atol=atol)
        return None
    if method == 'diag':
        require_close(est, np.diag(np.diag(s)), what + ' diag', 'value:diag', rtol=1e-9, atol=atol)
        return None
    # shrinkage: symmetric, convex combination with one lambda, PSD / PD
    require(core.close(est, est.T, rtol=1e-12, atol=atol), '%s: %s not symmetric' % (what, method),
            'symmetric:' + method)
    if method == 'shrinkage_eye':
        target = np.eye(p) * (np.trace(s) / p)
    else:
        target = np.diag(np.diag(s))
    # est = lam*target + (1-lam)*s  ->  est - s = lam*(target - s)
    diff = target - s
    num = float(np.sum((est - s) * diff))
    den = float(np.sum(diff * diff))
    scale = max(float(np.max(np.abs(s))), 1e-300)
    if den <= (1e-10 * scale) ** 2 * max(p * p, 1):
        lam = None   # target == s: every lambda gives s
        require_close(est, s, what + ' %s (target equals covariance)' % method,
                      'convex:' + method, rtol=1e-8, atol=1e-9 * scale)
    else:
        lam = num / den
        require(-1e-8 <= lam <= 1 + 1e-8, '%s: %s shrinkage intensity %.6g not in [0,1]' % (
            what, method, lam), 'lambda-range:' + method)
        recon = lam * target + (1 - lam) * s
        require_close(est, recon, what + ' %s convex combination (lambda=%.4g)' % (method, lam),
                      'convex:' + method, rtol=1e-7, atol=1e-9 * scale)
    ev = np.linalg.eigvalsh((est + est.T) / 2)
    require(ev.min() >= -1e-9 * scale, '%s: %s not PSD (min eig %.3g)' % (what, method, ev.min()),
            'psd:' + method)
    if lam is not None and lam > 1e-6 and np.min(np.diag(target)) > 1e-9 * scale:
        require(ev.min() > 0, '%s: %s not PD although shrinkage active (lambda=%.3g, min eig %.3g)'
                % (what, method, lam, ev.min()), 'pd:' + method)
    return lam


def check_prec(prec, cov, what, method):
    cov = np.asarray(cov, dtype=float)
    prec = np.asarray(prec, dtype=float)
    require(prec.shape == cov.shape, '%s: precision shape %s' % (what, prec.shape), 'prec-shape')
    if method == 'diag' and np.all(np.diag(cov) > 0):
        # the inverse of a diagonal matrix is the matrix of reciprocals, however different the
        # channel variances are (no conditioning argument applies)
        want = np.diag(1.0 / np.diag(cov))
        require(core.close(prec, want, rtol=1e-10, atol=0),
                '%s: precision of the diagonal estimate is not its reciprocal: diag %s vs 1/var %s'
                % (what, core._short(np.diag(prec)), core._short(np.diag(want))), 'prec-inverse:diag')
        return True
    if np.linalg.cond(cov) > 1e6:
        return False
    p = cov.shape[0]
    if core.close(prec @ cov, np.eye(p), rtol=0, atol=1e-6):
        return True
    # channels in very different units: the residual of *any* floating-point inverse can exceed
    # 1e-6 entry-wise although cond < 1e6 (measured: numpy's own inverse gives 1.1e-6 at cond 2e5
    # with variances from 1e-12 to 4e3); what is asked is the matrix inverse, so agreement with an
    # independently computed inverse, relative to its largest entry, is accepted as well
    ref_inv = np.linalg.inv(cov)
    require(core.close(prec, ref_inv, rtol=1e-6, atol=1e-9 * float(np.max(np.abs(ref_inv)))),
            '%s: precision @ covariance != I (max dev %.3g) and the precision differs from the '
            'inverse of the covariance' % (what, core.maxdiff(prec @ cov, np.eye(p))),
            'prec-inverse:' + method)
    return True


def nonconst_columns(m):
    m = np.asarray(m, dtype=float)
    return bool(np.all(m.max(axis=0) - m.min(axis=0) > 0))


def fix_constant_columns(mat, rows=None):
    """construction instead of rejection: a channel that is constant over `rows`
    gets +1 in the first of those rows (a pure function of the drawn matrix)"""
    rows = list(range(len(mat))) if rows is None else rows
    mat = [list(r) for r in mat]
    for j in range(len(mat[0])):
        col = [mat[i][j] for i in rows]
        if max(col) == min(col):
            mat[rows[0]][j] += 1.0
    return mat


def fix_zero_residual(mat, obs):
    """same idea for datasets: make the within-condition residual of every channel
    non-zero by bumping the first row of the first repeated condition"""
    mat = [list(r) for r in mat]
    groups = {}
    for i, o in enumerate(obs):
        groups.setdefault(o, []).append(i)
    rep = [g for g in groups.values() if len(g) >= 2]
    for j in range(len(mat[0])):
        if all(max(mat[i][j] for i in g) == min(mat[i][j] for i in g) for g in groups.values()):
            mat[rep[0][0]][j] += 1.0
    return mat


# 'all values': data in very small or large units (MEG in tesla ~1e-12, ...) - an exact
# power-of-two rescaling, so the reference and every tolerance scale along
unit_exp = st.sampled_from([0, 0, 0, -40, -25, 30])


def rescale(mat, e):
    f = 2.0 ** e
    return [[v * f for v in row] for row in mat]


# ---- sub-check 1: single residual matrix -----------------------------------

@st.composite
def residual_case(draw):
    p = draw(st.integers(1, 7))
    n = draw(st.integers(2, 24)) if draw(st.booleans()) else draw(st.integers(2, max(2, p)))
    res = fix_constant_columns(draw(gen.matrix(n, p)))
    method = draw(st.sampled_from(METHODS))
    dof = draw(st.one_of(st.none(), dof_value(40)))
    res = rescale(res, draw(unit_exp))
    if p >= 2 and draw(st.integers(0, 3)) == 0:
        # channels recorded in different units (e.g. EEG in microvolt next to MEG in tesla)
        ce = draw(st.lists(st.sampled_from([0, 0, -40, 25]), min_size=p, max_size=p))
        res = [[v * 2.0 ** ce[j] for j, v in enumerate(row)] for row in res]
    return dict(res=res, method=method, dof=dof)


def check_residual(case):
    res = np.array(case['res'], dtype=float)
    if not nonconst_columns(res):
        raise Reject('constant channel', 'degenerate:constant-channel')
    method, dof = case['method'], case['dof']
    res = gen.relayout(res)     # C / Fortran / strided / transposed memory, by shape
    before = res.copy()
    est = lib(N.cov_from_residuals, res, dof=dof, method=method, on_error='violation',
              sig='raises:cov_from_residuals')
    require(np.array_equal(before, res), 'cov_from_residuals modified its input', 'input-mutated')
    n = res.shape[0]
    s = ref_cov(res, dof if dof is not None else n - 1)
    scale = float(np.max(np.abs(res - res.mean(0))) ** 2) * n / (dof if dof else n - 1)
    check_estimate(est, s, method, 'cov_from_residuals', scale)
    # precision = inverse of that covariance
    if method == 'diag' or np.linalg.cond(np.asarray(est)) < 1e6:
        prec = lib(N.prec_from_residuals, res, dof=dof, method=method, on_error='violation',
                   sig='raises:prec_from_residuals')
        check_prec(prec, est, 'prec_from_residuals', method)
    require(np.array_equal(before, res), 'prec_from_residuals modified its input', 'input-mutated')


def classify_residual(case):
    res = case['res']
    n, p = len(res), len(res[0])
    labels = ['method:' + case['method'], 'dof:' + ('none' if case['dof'] is None else 'given'),
              'p>n' if p > n else 'p<=n', 'p=1' if p == 1 else 'p>1']
    return labels, p >= 2 and (p > n or case['dof'] is not None)


# ---- sub-check 2: lists / 3-D stacks of residuals --------------------------

@st.composite
def residual_list_case(draw):
    p = draw(st.integers(1, 5))
    k = draw(st.integers(1, 3))
    form = draw(st.sampled_from(['list', 'array3d']))
    if form == 'array3d':
        n = draw(st.integers(2, 10))
        ns = [n] * k
    else:
        ns = draw(st.lists(st.integers(2, 10), min_size=k, max_size=k))
    kind = draw(gen.value_kind())
    e = draw(unit_exp)
    mats = [rescale(fix_constant_columns(draw(gen.matrix(n, p, kind=kind))), e) for n in ns]
    method = draw(st.sampled_from(METHODS))
    dof_kind = draw(st.sampled_from(['none', 'scalar', 'list', 'list']))
    if dof_kind == 'none':
        dof = None
    elif dof_kind == 'scalar':
        dof = draw(dof_value(30))
    else:
        dof = draw(st.lists(dof_value(30), min_size=k, max_size=k))
    return dict(mats=mats, form=form, method=method, dof=dof)


def check_residual_list(case):
    mats = [np.array(m, dtype=float) for m in case['mats']]
    for m in mats:
        if not nonconst_columns(m):
            raise Reject('constant channel', 'degenerate:constant-channel')
    method, dof = case['method'], case['dof']
    arg = np.array(mats) if case['form'] == 'array3d' else [m.copy() for m in mats]
    before = [m.copy() for m in mats]
    est = lib(N.cov_from_residuals, arg, dof=dof, method=method, on_error='violation',
              sig='raises:cov_from_residuals:list')
    for b, m in zip(before, arg):
        require(np.array_equal(b, m), 'cov_from_residuals modified a list element', 'input-mutated')
    require(len(est) == len(mats), 'list input: %d estimates for %d elements' % (len(est), len(mats)),
            'list-length')
    for i, m in enumerate(mats):
        d = dof[i] if isinstance(dof, list) else dof
        s = ref_cov(m, d if d is not None else m.shape[0] - 1)
        e = np.asarray(est[i], dtype=float)
        require(e.ndim == 2, 'list input with dof=%r: element %d has shape %s, expected (p,p)' % (
            dof, i, e.shape), 'list-dof-nesting')
        scale = float(np.max(np.abs(m - m.mean(0))) ** 2) * m.shape[0] / (d if d else m.shape[0] - 1)
        check_estimate(e, s, method, 'element %d of list (dof=%r)' % (i, d), scale)
        # must equal the single-input estimate with that element's dof
        single = N.cov_from_residuals(m.copy(), dof=d, method=method)
        require_close(e, single, 'list element %d vs single call' % i, 'list-vs-single',
                      rtol=1e-12, atol=0)
    if all(np.linalg.cond(np.asarray(e)) < 1e6 for e in est):
        prec = lib(N.prec_from_residuals, arg, dof=dof, method=method, on_error='violation',
                   sig='raises:prec_from_residuals:list')
        require(len(prec) == len(mats), 'precision list length', 'list-length')
        for i in range(len(mats)):
            check_prec(prec[i], est[i], 'precision element %d' % i, method)


def classify_residual_list(case):
    dof = case['dof']
    labels = ['method:' + case['method'], 'form:' + case['form'],
              'dof:' + ('none' if dof is None else 'list' if isinstance(dof, list) else 'scalar'),
              'k=%d' % len(case['mats'])]
    p = len(case['mats'][0][0])
    nt = p >= 2 and len(case['mats']) >= 2 and (
        (isinstance(dof, list) and len(set(dof)) > 1) or dof is not None)
    return labels, nt


# ---- sub-check 3: datasets -------------------------------------------------

@st.composite
def dataset_case(draw):
    des = draw(gen.design(n_cond_range=(2, 5), reps_range=(1, 4)))
    if len(des['obs']) - len(des['labels']) < 1:
        # need at least one residual degree of freedom: add a repetition of the first label
        des['obs'] = des['obs'] + [des['labels'][0]]
        des['reps'][0] += 1
        des['balanced'] = len(set(des['reps'])) == 1
    p = draw(st.integers(1, 6))
    meas = rescale(fix_zero_residual(draw(gen.matrix(len(des['obs']), p)), des['obs']), draw(unit_exp))
    method = draw(st.sampled_from(METHODS))
    dof = draw(st.one_of(st.none(), st.none(), dof_value(30)))
    cont = draw(gen.container)
    return dict(design=des, meas=meas, method=method, dof=dof, container=cont)


def _mk_dataset(case):
    des = case['design']
    meas = np.array(case['meas'], dtype=float)
    obs = gen.as_desc(des['obs'], case['container'])
    return Dataset(gen.relayout(meas.copy()), obs_descriptors={'cond': obs}), meas


def check_dataset(case):
    des = case['design']
    ds, meas = _mk_dataset(case)
    method, dof = case['method'], case['dof']
    s, d_used = ref_cov_by_condition(meas, des['obs'], dof)
    resid_scale = float(np.max(np.abs(meas - meas.mean(0))) ** 2) * meas.shape[0] / d_used
    # residual variance per channel must be non-zero
    if np.any(np.diag(s) <= 0):
        raise Reject('zero residual variance', 'degenerate:constant-channel')
    est = lib(N.cov_from_unbalanced, ds, 'cond', dof=dof, method=method, on_error='violation',
              sig='raises:cov_from_unbalanced')
    require(np.array_equal(ds.measurements, meas), 'cov_from_unbalanced modified the dataset',
            'input-mutated')
    check_estimate(est, s, method, 'cov_from_unbalanced', resid_scale)
    if np.linalg.cond(np.asarray(est)) < 1e6:
        prec = lib(N.prec_from_unbalanced, ds, 'cond', dof=dof, method=method,
                   on_error='violation', sig='raises:prec_from_unbalanced')
        check_prec(prec, est, 'prec_from_unbalanced', method)
    if des['balanced']:
        est_m = lib(N.cov_from_measurements, ds, 'cond', dof=dof, method=method,
                    on_error='violation', sig='raises:cov_from_measurements')
        require(np.array_equal(ds.measurements, meas),
                'cov_from_measurements modified the dataset', 'input-mutated')
        require_close(est_m, est, 'balanced design (C=%d,R=%d,dof=%r,%s): cov_from_measurements '
                      'vs cov_from_unbalanced' % (len(des['labels']), des['reps'][0], dof, method),
                      'measurements-vs-unbalanced', rtol=1e-8, atol=1e-9 * max(resid_scale, 1e-300))
        if np.linalg.cond(np.asarray(est_m)) < 1e6:
            prec_m = lib(N.prec_from_measurements, ds, 'cond', dof=dof, method=method,
                         on_error='violation', sig='raises:prec_from_measurements')
            check_prec(prec_m, est_m, 'prec_from_measurements', method)


    else:
        # the measurement-based estimator on an unbalanced design: a clean refusal (what the tensor
        # construction does today) or the covariance the statement defines -- never another number
        try:
            est_m = N.cov_from_measurements(ds, 'cond', dof=dof, method=method)
        except Exception:  # noqa: BLE001
            est_m = None
        if est_m is not None:
            require_close(est_m, est, 'unbalanced design (reps %s, dof=%r, %s): cov_from_measurements '
                          'returned a value that is not the residual covariance' % (
                              des['reps'], dof, method), 'measurements-on-unbalanced-design',
                          rtol=1e-8, atol=1e-9 * max(resid_scale, 1e-300))


def classify_dataset(case):
    des = case['design']
    p = len(case['meas'][0])
    c, r = len(des['labels']), des['reps'][0]
    labels = ['method:' + case['method'], 'balanced' if des['balanced'] else 'unbalanced',
              'labels:' + des['kind'], 'desc:' + case['container'],
              'dof:' + ('none' if case['dof'] is None else 'given')]
    if des['balanced']:
        labels.append('C==R' if c == r else 'C!=R')
    nt = p >= 2 and ((not des['balanced']) or c != r)
    return labels, nt


# ---- sub-check 4: lists of datasets ----------------------------------------

@st.composite
def dataset_list_case(draw):
    k = draw(st.integers(1, 3))
    p = draw(st.integers(1, 4))
    method = draw(st.sampled_from(METHODS))
    balanced = draw(st.booleans())
    sets = []
    # the parts of one recording split by region carry different numbers of channels
    ps = [p] * k if draw(st.booleans()) else [draw(st.integers(1, 4)) for _ in range(k)]
    for j in range(k):
        des = draw(gen.design(n_cond_range=(2, 4), reps_range=(2, 3), balanced=balanced))
        meas = fix_zero_residual(draw(gen.matrix(len(des['obs']), ps[j], kind='grid')), des['obs'])
        sets.append(dict(design=des, meas=meas))
    e = draw(unit_exp)
    for s_ in sets:
        s_['meas'] = rescale(s_['meas'], e)
    dof_kind = draw(st.sampled_from(['none', 'scalar', 'list']))
    dof = None if dof_kind == 'none' else (
        draw(dof_value(20)) if dof_kind == 'scalar'
        else draw(st.lists(dof_value(20), min_size=k, max_size=k)))
    fn = draw(st.sampled_from(['unbalanced', 'measurements'] if balanced else ['unbalanced']))
    return dict(sets=sets, method=method, dof=dof, fn=fn)


def check_dataset_list(case):
    dss, refs = [], []
    method, dof = case['method'], case['dof']
    for i, s_ in enumerate(case['sets']):
        meas = np.array(s_['meas'], dtype=float)
        d = dof[i] if isinstance(dof, list) else dof
        s, d_used = ref_cov_by_condition(meas, s_['design']['obs'], d)
        if np.any(np.diag(s) <= 0):
            raise Reject('zero residual variance', 'degenerate:constant-channel')
        dss.append(Dataset(meas.copy(), obs_descriptors={'cond': list(s_['design']['obs'])}))
        refs.append((s, float(np.max(np.abs(meas - meas.mean(0))) ** 2) * meas.shape[0] / d_used))
    f = N.cov_from_unbalanced if case['fn'] == 'unbalanced' else N.cov_from_measurements
    est = lib(f, dss, 'cond', dof=dof, method=method, on_error='violation',
              sig='raises:%s:list' % f.__name__)
    require(isinstance(est, list) and len(est) == len(dss), 'list of datasets: %d estimates' % len(est),
            'list-length')
    for i, (s, sc) in enumerate(refs):
        check_estimate(est[i], s, method, 'dataset %d of list (dof=%r)' % (i, dof), sc)
    # each returned precision is the inverse of the corresponding covariance (also for lists)
    if all(np.linalg.cond(np.asarray(e)) < 1e6 for e in est):
        fp = N.prec_from_unbalanced if case['fn'] == 'unbalanced' else N.prec_from_measurements
        prec = lib(fp, dss, 'cond', dof=dof, method=method, on_error='violation',
                   sig='raises:%s:list' % fp.__name__)
        require(isinstance(prec, list) and len(prec) == len(dss), 'list of datasets: %d precisions'
                % len(prec), 'list-length')
        for i in range(len(dss)):
            check_prec(prec[i], est[i], '%s, dataset %d of list (dof=%r)' % (fp.__name__, i, dof),
                       method)


def classify_dataset_list(case):
    dof = case['dof']
    labels = ['method:' + case['method'], 'fn:' + case['fn'], 'k=%d' % len(case['sets']),
              'dof:' + ('none' if dof is None else 'list' if isinstance(dof, list) else 'scalar')]
    ps = [len(s_['meas'][0]) for s_ in case['sets']]
    labels.append('channels:' + ('equal' if len(set(ps)) == 1 else 'differ'))
    return labels, max(ps) >= 2 and len(case['sets']) >= 2


SUBCHECKS = [
    SubCheck('residuals', residual_case(), check_residual, classify_residual, quick=800,
             doc='single residual matrix: value, convex structure, PSD/PD, precision, no mutation'),
    SubCheck('residual_lists', residual_list_case(), check_residual_list, classify_residual_list,
             quick=400, doc='lists / 3-D stacks with dof None/scalar/list: per-element estimates'),
    SubCheck('datasets', dataset_case(), check_dataset, classify_dataset, quick=800,
             doc='datasets: residuals around condition means, dof n_obs-n_cond; '
                 'measurement-based == unbalanced on balanced designs'),
    SubCheck('dataset_lists', dataset_list_case(), check_dataset_list, classify_dataset_list,
             quick=300, doc='lists of datasets with dof None/scalar/list'),
]
