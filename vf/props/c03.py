"""C03 - RDM comparison measures equal their definitions for every pair of RDM stacks."""
import itertools
import math

import numpy as np
from hypothesis import strategies as st

from vf import core, gen, ref
from vf.core import SubCheck, Enumeration, Violation, Reject, lib, require, require_close
from vf.props import c03_util as U

import rsatoolbox
from rsatoolbox.rdm.transform import rank_transform
from rsatoolbox.rdm import RDMs
import importlib
C = importlib.import_module('rsatoolbox.rdm.compare')

PLAIN = ['cosine', 'corr']
RANK = ['spearman', 'kendall', 'tau-b', 'tau-a', 'rho-a']
WHITE = ['cosine_cov', 'corr_cov']
BURES = ['bures', 'bures_metric']

DIRECT = {
    'cosine': C.compare_cosine, 'corr': C.compare_correlation,
    'spearman': C.compare_spearman, 'kendall': C.compare_kendall_tau,
    'tau-b': C.compare_kendall_tau, 'tau-a': C.compare_kendall_tau_a,
    'rho-a': C.compare_rho_a, 'cosine_cov': C.compare_cosine_cov_weighted,
    'corr_cov': C.compare_correlation_cov_weighted,
    'bures': C.compare_bures_similarity, 'bures_metric': C.compare_bures_metric,
}

RULE = ("Hypothesis-generated pairs of RDM stacks over 3-7 conditions, n1,n2 in 1-3 RDMs with "
        "n1 != n2 in ~75 % of the draws; vectors on a dyadic grid, as decimals, as small integers "
        "(-4..4, ties and negative entries) or from {0,1,2} (heavy ties); Bures inputs are squared "
        "Euclidean distances of generated point clouds (1..n dimensions, coincident points "
        "allowed); sigma_k None / positive vector / SPD matrix; inputs as RDMs objects, 2-D or 1-D "
        "arrays, through compare() or the compare_* function; a generated condition permutation. "
        "Oracles: loop-based definitions in vf/ref.py (brute-force concordance counts, O(n^2) "
        "mid-ranks, enumeration of all joint tie-breakings for rho-a where <=400, dense V built "
        "element-wise and inverted, Bures fidelity as nuclear norm of Xc'Yc from the points and of the factorised kernels -HDH/2) plus the "
        "laws symmetry, self-similarity, range, permutation invariance, array == RDMs input. "
        "Sub-check 'very_many_conditions': tie-free or 2/7/50-level RDMs over 400-500 conditions "
        "(pair counts beyond 2^31.5, products of them beyond 2^63), tau-b / tau-a vs scipy. "
        "Sub-check 'degenerate': stacks of 2-4 RDMs with zero/constant RDMs at generated positions. "
        "Exhaustive: all 729 pairs of 3-pair RDM vectors over {0,1,2} (every pair of weak orders "
        "of 3 dissimilarities) for the five rank measures. Non-trivial: n1 != n2, or ties "
        "present (rank measures), or sigma_k given (whitened measures), or coincident points / "
        "rank-deficient embedding (Bures); distinct by SHA1 of the case.")
ASSUMPTIONS = [
    "constant RDM vectors (zero variance / zero norm) are outside the domain of the correlation-"
    "type and cosine measures and of Kendall tau-b; the value sub-checks construct around them; "
    "sub-check 'degenerate' puts them into stacks and asserts only the entries between the "
    "other, regular RDMs (entries involving the degenerate RDM are 0 or NaN and not asserted)",
    "self-similarity 1 for tau-a and rho-a is asserted only for tie-free RDMs (both are < 1 by "
    "definition when an RDM has ties)",
    "sigma_k matrices have condition number <= ~60; values through the library's conjugate-"
    "gradient solver (rtol 1e-5) are compared with atol max(1e-4, 3e-5*sqrt(cond V)), the "
    "proven bound for that stopping rule",
    "Bures measures are asserted for Euclidean-embeddable RDMs only (PSD kernels); tolerance "
    "4*n*sqrt(eps)*scale because the library takes square roots of eigenvalues that are zero up "
    "to round-off",
    "numpy.linalg.inv / svd / eigh are trusted in the oracles (scipy.linalg.sqrtm fails on the "
    "singular centred kernels and is not used)",
    "NaN entries are property C13's domain and are not generated here; neg_riem_dist is not "
    "named by the property",
]


# ---- building inputs ------------------------------------------------------------

def mk_input(vecs, form):
    a = np.array(vecs, dtype=float)
    if a.size and np.all(a == np.round(a)) and int(np.abs(a).sum()) % 2 == 0:
        # integer-valued RDMs (counts, Hamming distances, categorical models) are commonly held
        # in integer arrays: every other integral case is passed with an integer dtype
        # (a deterministic function of the case; RDMs objects keep the dtype they are given)
        a = a.astype(np.int64)
        if a.min() >= 0 and a.max() <= 1 and int(a.sum()) % 4 == 0:
            a = a.astype(bool)          # binary (categorical) RDMs held as booleans
        elif a.min() >= 0 and a.max() <= 255 and int(a.sum()) % 4 == 2:
            a = a.astype(np.uint8)      # small counts in a narrow unsigned type
    if form == 'rdms':
        # the measure label says what the user thinks the numbers are; comparisons use the numbers
        label = [None, 'euclidean', 'squared euclidean', 'mahalanobis', 'correlation'][
            (a.shape[0] + a.shape[1]) % 5]
        return RDMs(gen.relayout(a.copy()), dissimilarity_measure=label)
    if form == 'array1d' and a.shape[0] == 1:
        return a[0].copy()
    return gen.relayout(a.copy())   # C / Fortran / strided / transposed memory, by shape


def call(method, v1, v2, sigma, form1='array2d', form2='array2d', api='compare',
         on_error='violation'):
    a, b = mk_input(v1, form1), mk_input(v2, form2)
    sk = None if sigma is None else np.array(sigma, dtype=float)
    sig = 'raises:' + method
    if method in WHITE:
        if api == 'direct':
            out = lib(DIRECT[method], a, b, sigma_k=sk, on_error=on_error, sig=sig)
        else:
            out = lib(C.compare, a, b, method=method, sigma_k=sk, on_error=on_error, sig=sig)
    elif api == 'direct':
        out = lib(DIRECT[method], a, b, on_error=on_error, sig=sig)
    else:
        out = lib(C.compare, a, b, method=method, on_error=on_error, sig=sig)
    out = np.asarray(out, dtype=float)
    require(out.shape == (len(v1), len(v2)),
            '%s: result shape %s for stacks of %d and %d RDMs' % (method, out.shape, len(v1), len(v2)),
            'shape:' + method)
    return out


def sigma_kind(sigma):
    if sigma is None:
        return 'none'
    return 'vector' if not isinstance(sigma[0], (list, tuple)) else 'matrix'


def forms_for(draw, n_rdm):
    opts = ['rdms', 'array2d'] + (['array1d'] if n_rdm == 1 else [])
    return draw(st.sampled_from(opts))


def laws(case, method, main, tol, self_tol=None, lo=-1.0, hi=1.0, is_metric=False):
    """universal laws of the statement, checked on every case"""
    v1, v2, sigma, n = case['v1'], case['v2'], case.get('sigma'), case['n_cond']
    rtol, atol = tol
    sk = sigma_kind(sigma)
    tag = method if method not in WHITE else '%s:%s' % (method, sk)
    # symmetry in the two arguments
    swapped = call(method, v2, v1, sigma, case['form2'], case['form1'])
    require_close(swapped.T, main, '%s symmetry compare(b,a).T vs compare(a,b)' % method,
                  'law:symmetry:' + tag, rtol=rtol, atol=atol)
    # range
    if is_metric:
        require(np.all(main >= -atol), '%s negative: %s' % (method, main.min()),
                'law:range:' + tag)
    else:
        require(np.all(main >= lo - atol) and np.all(main <= hi + atol),
                '%s outside [%g,%g]: min %.12g max %.12g' % (method, lo, hi, main.min(), main.max()),
                'law:range:' + tag)
    # self-similarity
    st_rt, st_at = self_tol or tol
    for which, v, form in (('first', v1, case['form1']), ('second', v2, case['form2'])):
        s = call(method, v, v, sigma, form, form)
        for i, vec in enumerate(v):
            if method in ('tau-a', 'rho-a') and U.has_ties(vec):
                continue
            want = 0.0 if is_metric else 1.0
            require_close(s[i, i], want, '%s of RDM %d of the %s stack with itself' % (method, i, which),
                          'law:self:' + tag, rtol=st_rt, atol=st_at)
    # simultaneous permutation of the conditions
    perm = case['perm']
    p1 = [U.permute_vector(v, n, perm) for v in v1]
    p2 = [U.permute_vector(v, n, perm) for v in v2]
    permuted = call(method, p1, p2, U.permute_sigma(sigma, perm), case['form1'], case['form2'])
    require_close(permuted, main, '%s after permuting the conditions of both stacks by %s' % (method, perm),
                  'law:permutation:' + tag, rtol=rtol, atol=max(atol, 1e-9) * (2 if sigma is not None else 1))
    # ... the same permutation carried out by the library on an RDMs object (reorder leaves the
    # object's 'index' descriptor permuted); the caller permutes sigma_k along with the conditions
    if method not in ('bures', 'bures_metric'):
        robj = RDMs(np.array(v1, dtype=float))
        lib(robj.reorder, np.array(perm), on_error='reject')
        held = np.array(robj.get_vectors(), dtype=float)
        if core.close(held, np.array(p1, dtype=float), 0, 0):
            psig = U.permute_sigma(sigma, perm)
            skw = {} if method not in WHITE or psig is None else {'sigma_k': np.array(psig, dtype=float)}
            via_obj = np.asarray(lib(C.compare, robj, np.array(p2, dtype=float), method=method,
                                     on_error='violation', sig='raises:' + method, **skw), dtype=float)
            require_close(via_obj, permuted, '%s on an RDMs object reordered in place by %s (sigma_k '
                          'permuted alike) vs the same permutation applied to plain arrays' % (method, perm),
                          'law:permutation:reordered-object:' + tag, rtol=1e-9, atol=max(atol, 1e-9))
    # RDMs objects and arrays give the same answer
    as_obj = call(method, v1, v2, sigma, 'rdms', 'rdms')
    as_arr = call(method, v1, v2, sigma, 'array2d', 'array2d')
    mixed = call(method, v1, v2, sigma, 'rdms', 'array1d')
    for nm, o in (('array', as_arr), ('mixed', mixed)):
        require_close(o, as_obj, '%s with %s input vs RDMs input' % (method, nm),
                      'law:input-form:' + method, rtol=1e-12, atol=1e-13)
    require_close(main, as_obj, '%s generated forms (%s,%s) vs RDMs input' % (
        method, case['form1'], case['form2']), 'law:input-form:' + method, rtol=1e-12, atol=1e-13)
    # ... also for an RDMs object that earlier library calls produced: a larger RDM, rank-transformed
    # (which tags its measure), restricted to the first n conditions -- the values it now holds are
    # what is compared, whatever its history
    if n >= 3 and method != 'bures' and method != 'bures_metric':
        ext = []
        for v in v1:
            sq = np.zeros((n + 1, n + 1))
            sq[:n, :n] = ref.to_square(np.array(v, dtype=float), n)
            for j in range(n):
                sq[j, n] = sq[n, j] = 0.5 * float(v[j % len(v)]) + 0.25 * (j + 1)
            ext.append(ref.to_vector(sq))
        obj = lib(lambda: rank_transform(RDMs(np.array(ext))).subset_pattern('index', list(range(n))))
        held = np.array(obj.get_vectors(), dtype=float)
        b = np.array(v2, dtype=float)
        skw = {} if method not in WHITE or sigma is None else {'sigma_k': np.array(sigma, dtype=float)}
        from_obj = np.asarray(lib(C.compare, obj, b.copy(), method=method, on_error='violation',
                                  sig='raises:' + method, **skw), dtype=float)
        from_arr = np.asarray(lib(C.compare, held.copy(), b.copy(), method=method, on_error='violation',
                                  sig='raises:' + method, **skw), dtype=float)
        require_close(from_obj, from_arr, '%s on an RDMs object produced by rank_transform + '
                      'subset_pattern (measure %r) vs the plain array of the values it holds' % (
                          method, obj.dissimilarity_measure), 'law:input-form:library-object:' + method,
                      rtol=1e-12, atol=1e-13)


def base_labels(case):
    n1, n2 = len(case['v1']), len(case['v2'])
    return ['method:' + case['method'], 'n_cond=%d' % case['n_cond'],
            'n1!=n2' if n1 != n2 else 'n1==n2', 'form:%s/%s' % (case['form1'], case['form2']),
            'api:' + case.get('api', 'compare'), 'kind:' + case.get('kind', '?'),
            'perm:identity' if case['perm'] == sorted(case['perm']) else 'perm:non-identity']


# ---- sub-check: cosine, Pearson -----------------------------------------------------

@st.composite
def plain_case(draw):
    method = draw(st.sampled_from(PLAIN))
    n = draw(st.integers(3, 7))
    n1, n2 = draw(U.stack_sizes())
    kind = draw(st.sampled_from(['grid', 'float', 'smallint', 'pos', 'few']))
    length = ref.n_pairs(n)
    v1, v2 = draw(U.vectors(n1, length, kind)), draw(U.vectors(n2, length, kind))
    if method == 'corr' and draw(st.integers(0, 3)) == 0:
        # dissimilarities on a large common baseline (2^17, exactly representable): Pearson's r is
        # that of the centred values
        v1 = [[x + 131072.0 for x in v] for v in v1]
        v2 = [[x + 131072.0 for x in v] for v in v2]
        kind = kind + '+baseline'
    return dict(method=method, n_cond=n, kind=kind, v1=v1, v2=v2,
                form1=forms_for(draw, n1), form2=forms_for(draw, n2),
                api=draw(st.sampled_from(['compare', 'direct'])), perm=draw(gen.permutation(n)))


def check_plain(case):
    m = case['method']
    main = call(m, case['v1'], case['v2'], None, case['form1'], case['form2'], case['api'])
    want = ref.compare(m, case['v1'], case['v2'], n=case['n_cond'])
    require_close(main, want, '%s (i,j) entries' % m, 'value:' + m, rtol=1e-9, atol=1e-10)
    laws(case, m, main, (1e-9, 1e-10))


def classify_plain(case):
    labels = base_labels(case)
    neg = any(x < 0 for v in case['v1'] + case['v2'] for x in v)
    labels.append('negative-entries' if neg else 'non-negative')
    return labels, len(case['v1']) != len(case['v2']) or neg


# ---- sub-check: many conditions (more than 2^15 distinct dissimilarities) ------------------

@st.composite
def large_case(draw):
    n = draw(st.sampled_from([258, 260, 263]))
    return dict(n=n, a=draw(st.integers(3, 10 ** 6)), b=draw(st.integers(3, 10 ** 6)),
                method=draw(st.sampled_from(['tau-a', 'kendall', 'spearman', 'rho-a'])))


def check_large(case):
    """tie-free vectors over > 32767 pairs (a multiplicative shuffle of 1..P): without ties tau-a =
    tau-b = Kendall's tau and rho-a = Spearman's rho, as computed by scipy.stats (trusted)"""
    import scipy.stats as ss
    n = case['n']
    P = ref.n_pairs(n)
    prime = 1000003
    v1 = (np.arange(1, P + 1) * (case['a'] % prime or 7) % prime).astype(float)
    v2 = 0.5 * v1 + (np.arange(1, P + 1) * (case['b'] % prime or 11) % prime).astype(float)
    if len(np.unique(v1)) < P or len(np.unique(v2)) < P:
        raise Reject('ties', 'degenerate:ties')
    m = case['method']
    got = float(np.asarray(lib(C.compare, v1[None, :], v2[None, :], method=m, on_error='violation',
                               sig='raises:' + m))[0, 0])
    want = float(ss.kendalltau(v1, v2)[0]) if m in ('tau-a', 'kendall') else float(ss.spearmanr(v1, v2)[0])
    require_close(got, want, '%s of two tie-free RDMs over %d conditions (%d pairs)' % (m, n, P),
                  'value:large:' + m, rtol=1e-9, atol=1e-10)


def classify_large(case):
    return ['method:' + case['method'], 'n_cond=%d' % case['n']], True


# ---- sub-check: very many conditions (pair counts of pairs beyond 2^31.5) -----------------------

@st.composite
def huge_case(draw):
    n = draw(st.sampled_from([400, 412, 431, 450, 500]))
    levels = draw(st.sampled_from([0, 0, 50, 50, 7, 2]))      # 0: tie-free
    return dict(n=n, levels=levels, a=draw(st.integers(3, 10 ** 6)), b=draw(st.integers(3, 10 ** 6)),
                form=draw(st.sampled_from(['array2d', 'rdms'])))


def check_huge(case):
    """RDMs over 400-500 conditions (79 800 - 124 750 dissimilarities, so 3e9 - 8e9 pairs of
    dissimilarities: counts of pairs and their products leave the int32 / int64 range), tie-free or on
    2 / 7 / 50 levels.  tau-b vs scipy.stats.kendalltau (trusted); tau-a = tau-b * sqrt((T - Tx)(T - Ty))
    / T with the tie counts Tx, Ty taken from np.unique; tau-b of every RDM with itself = 1."""
    import scipy.stats as ss
    n, k = case['n'], case['levels']
    P = ref.n_pairs(n)
    prime = 1000003
    idx = np.arange(1, P + 1)
    s1 = idx * (case['a'] % prime or 7) % prime
    s2 = idx * (case['b'] % prime or 11) % prime
    s3 = idx * ((case['a'] + case['b']) % prime or 13) % prime
    if k:
        r1, r2, r3 = s1 % k, (s1 % k) * 2 + s2 % k, s3 % k + s2 % k
    else:
        r1, r2, r3 = s1, s1 + 2 * s2, s3 + 2 * s2
    v1 = np.array([r1, r3], dtype=float)
    v2 = np.array([r2], dtype=float)
    if any(len(np.unique(v)) < 2 for v in (r1, r2, r3)):
        raise Reject('constant RDM', 'degenerate:constant')
    if not k and any(len(np.unique(v)) < P for v in (r1, r2, r3)):
        raise Reject('ties', 'degenerate:ties')

    def inp(a):
        return RDMs(a.copy()) if case['form'] == 'rdms' else a.copy()

    def tied_pairs(v):
        c = np.unique(v, return_counts=True)[1].astype(object)
        return int(sum(int(x) * (int(x) - 1) // 2 for x in c))

    tot = P * (P - 1) // 2
    tau_b = np.array([[float(ss.kendalltau(x, y)[0]) for y in v2] for x in v1])
    tau_a = np.array([[tau_b[i, j] * math.sqrt(tot - tied_pairs(x)) * math.sqrt(tot - tied_pairs(y)) / tot
                       for j, y in enumerate(v2)] for i, x in enumerate(v1)])
    what = '%s RDMs over %d conditions (%d dissimilarities, %d pairs of them)' % (
        'tie-free' if not k else '%d-level' % k, n, P, tot)
    for m, want in (('kendall', tau_b), ('tau-b', tau_b), ('tau-a', tau_a)):
        got = np.asarray(lib(C.compare, inp(v1), inp(v2), method=m, on_error='violation',
                             sig='raises:' + m), dtype=float)
        require(got.shape == (2, 1), '%s: result shape %s for stacks of 2 and 1 RDMs' % (m, got.shape),
                'shape:' + m)
        require_close(got, want, '%s of %s' % (m, what), 'value:huge:' + m, rtol=1e-9, atol=1e-10)
    own = np.asarray(lib(C.compare, inp(v1), inp(v1), method='tau-b', on_error='violation',
                         sig='raises:tau-b'), dtype=float)
    require_close(np.diag(own), np.ones(2), 'tau-b of each RDM with itself, %s' % what,
                  'law:self:huge:tau-b', rtol=1e-9, atol=1e-10)


def classify_huge(case):
    return ['n_cond=%d' % case['n'], 'levels=%d' % case['levels'], 'form:' + case['form']], True

# ---- sub-check: rank measures ---------------------------------------------------------

@st.composite
def rank_case(draw):
    method = draw(st.sampled_from(RANK))
    n = draw(st.integers(3, 7))
    n1, n2 = draw(U.stack_sizes())
    kind = draw(st.sampled_from(['smallint', 'smallint', 'few', 'few', 'grid', 'float']))
    length = ref.n_pairs(n)
    v1, v2 = draw(U.vectors(n1, length, kind)), draw(U.vectors(n2, length, kind))
    if method == 'corr' and draw(st.integers(0, 3)) == 0:
        # dissimilarities on a large common baseline (2^17, exactly representable): Pearson's r is
        # that of the centred values
        v1 = [[x + 131072.0 for x in v] for v in v1]
        v2 = [[x + 131072.0 for x in v] for v in v2]
        kind = kind + '+baseline'
    return dict(method=method, n_cond=n, kind=kind, v1=v1, v2=v2,
                form1=forms_for(draw, n1), form2=forms_for(draw, n2),
                api=draw(st.sampled_from(['compare', 'direct'])), perm=draw(gen.permutation(n)))


def rank_values(m, v1, v2, main):
    want = ref.compare(m, v1, v2)
    require_close(main, want, '%s (i,j) entries' % m, 'value:' + m, rtol=1e-9, atol=1e-10)
    n_enum = 0
    if m == 'rho-a':
        # the statement's meaning: expected Spearman under random tie-breaking
        for i, a in enumerate(v1):
            for j, b in enumerate(v2):
                e = ref.s_rho_a_enumerated(a, b, limit=400)
                if e is None:
                    continue
                n_enum += 1
                require_close(main[i, j], e, 'rho-a vs mean Spearman over all joint tie-breakings '
                              '(RDM %d, %d)' % (i, j), 'value:rho-a:enumerated', rtol=1e-9, atol=1e-10)
    return n_enum


def check_rank(case):
    m = case['method']
    main = call(m, case['v1'], case['v2'], None, case['form1'], case['form2'], case['api'])
    rank_values(m, case['v1'], case['v2'], main)
    laws(case, m, main, (1e-9, 1e-10))


def classify_rank(case):
    labels = base_labels(case)
    ties = any(U.has_ties(v) for v in case['v1'] + case['v2'])
    labels.append('ties' if ties else 'tie-free')
    if case['method'] == 'rho-a':
        feasible = any(ref.tie_breakings(a, 400) is not None and ref.tie_breakings(b, 400) is not None
                       and len(ref.tie_breakings(a, 400)) * len(ref.tie_breakings(b, 400)) <= 400
                       for a in case['v1'] for b in case['v2'])
        labels.append('rho-a:enumerated' if feasible else 'rho-a:closed-form-only')
    return labels, ties or len(case['v1']) != len(case['v2'])


# ---- exhaustive: all pairs of 3-pair vectors over {0,1,2} --------------------------------

def enum_rank3(tier, seed):
    vals = [0.0, 1.0, 2.0]
    vecs = [list(v) for v in itertools.product(vals, repeat=3)]
    for a in vecs:
        for b in vecs:
            yield dict(a=a, b=b)


def check_rank3(case):
    a, b = case['a'], case['b']
    const = max(a) == min(a) or max(b) == min(b)
    for m in RANK:
        if const and m in ('spearman', 'kendall', 'tau-b'):
            continue   # zero variance: outside the domain of the tie-corrected measures
        main = call(m, [a], [b], None, 'array1d', 'rdms')
        rank_values(m, [a], [b], main)
        back = call(m, [b], [a], None, 'rdms', 'array2d')
        require_close(back, main, '%s symmetry' % m, 'law:symmetry:' + m, rtol=1e-12, atol=1e-12)


def classify_rank3(case):
    a, b = case['a'], case['b']
    ties = U.has_ties(a) or U.has_ties(b)
    const = max(a) == min(a) or max(b) == min(b)
    return ['exhaustive3:' + ('constant' if const else 'ties' if ties else 'tie-free')], not const


# ---- sub-check: whitened measures ----------------------------------------------------------

@st.composite
def white_case(draw):
    method = draw(st.sampled_from(WHITE))
    n = draw(st.integers(3, 7))
    n1, n2 = draw(U.stack_sizes())
    kind = draw(st.sampled_from(['grid', 'float', 'smallint', 'pos']))
    length = ref.n_pairs(n)
    sk = draw(st.sampled_from(['none', 'vector', 'vector', 'matrix', 'matrix']))
    sigma = None if sk == 'none' else draw(U.sigma_vector(n) if sk == 'vector' else U.sigma_matrix(n))
    if sigma is not None:
        # 'all SPD matrices' includes covariances in small or large units (e.g. volt^2): an exact
        # power-of-two rescaling of sigma_k, which the whitened measures are invariant to
        expo = draw(st.sampled_from([0, 0, 0, -30, -60, 20]))
        sigma = (np.array(sigma, dtype=float) * 2.0 ** expo).tolist()
    return dict(method=method, n_cond=n, kind=kind, sigma=sigma,
                v1=draw(U.vectors(n1, length, kind)), v2=draw(U.vectors(n2, length, kind)),
                form1=forms_for(draw, n1), form2=forms_for(draw, n2),
                api=draw(st.sampled_from(['compare', 'direct'])), perm=draw(gen.permutation(n)))


def white_tol(sigma, n):
    """direct formulas: 1e-9/1e-10.  With a covariance the library solves V x = r by conjugate
    gradients stopped at |residual| <= 1e-5 |r|: the error of r1'V^-1 r2 relative to the
    normalisation is bounded by 1e-5*sqrt(cond V) (same bound for the two norms)."""
    if sigma is None:
        return (1e-9, 1e-10)
    v = ref.dense_v(n, sigma)
    return (0.0, max(1e-4, 3e-5 * math.sqrt(np.linalg.cond(v))))


def check_white(case):
    m, sigma, n = case['method'], case['sigma'], case['n_cond']
    sk = sigma_kind(sigma)
    main = call(m, case['v1'], case['v2'], sigma, case['form1'], case['form2'], case['api'])
    want = ref.compare(m, case['v1'], case['v2'], sigma_k=sigma, n=n)
    rtol, atol = white_tol(sigma, n)
    require_close(main, want, '%s with sigma_k %s: r1\'V^-1 r2/sqrt(..) with dense V' % (m, sk),
                  'value:%s:%s' % (m, sk), rtol=rtol, atol=atol)
    if sk == 'vector':
        # a variance vector means the diagonal covariance matrix
        as_mat = call(m, case['v1'], case['v2'], np.diag(np.array(sigma, dtype=float)).tolist())
        require_close(main, as_mat, '%s: sigma_k vector vs the same diagonal matrix' % m,
                      'value:%s:vector' % m, rtol=0, atol=2 * atol)
    laws(case, m, main, (rtol, atol))
    if sigma is not None:
        # the result is a function of the values of sigma_k, not of the array object: update
        # one array in place between two calls (as a fitting loop re-using its buffer would)
        skobj = np.array(sigma, dtype=float)
        a, b = np.array(case['v1'], dtype=float), np.array(case['v2'], dtype=float)
        lib(C.compare, a, b, method=m, sigma_k=skobj, on_error='violation',
            sig='raises:compare:' + m)
        other = np.array(U.permute_sigma(sigma, case['perm']), dtype=float)
        if sk == 'matrix':
            other = other + np.eye(n) * float(np.max(np.abs(other)))
        else:
            other = other * np.arange(1, n + 1)
        skobj[...] = other
        again = lib(C.compare, a, b, method=m, sigma_k=skobj, on_error='violation',
                    sig='raises:compare:' + m)
        fresh = call(m, case['v1'], case['v2'], other.tolist())
        rt2, at2 = white_tol(other.tolist(), n)
        require_close(again, fresh, '%s after updating the sigma_k array in place vs a fresh array '
                      'with the same values' % m, 'value:%s:sigma-object-reused' % m,
                      rtol=rt2, atol=2 * at2)


def classify_white(case):
    labels = base_labels(case)
    sk = sigma_kind(case['sigma'])
    labels.append('sigma:' + sk)
    if sk != 'none':
        mx = float(np.max(np.abs(np.array(case['sigma'], dtype=float))))
        labels.append('sigma-scale:' + ('tiny' if mx < 1e-6 else 'huge' if mx > 1e4 else 'unit'))
    ident = sk == 'none' or (sk == 'vector' and len(set(case['sigma'])) == 1)
    labels.append('sigma-identity-like' if ident else 'sigma-non-identity')
    return labels, (not ident) or len(case['v1']) != len(case['v2'])


# ---- sub-check: Bures ----------------------------------------------------------------------

@st.composite
def bures_case(draw):
    method = draw(st.sampled_from(BURES))
    n = draw(st.integers(3, 7))
    n1, n2 = draw(U.stack_sizes())
    p1 = [draw(U.point_cloud(n)) for _ in range(n1)]
    p2 = [draw(U.point_cloud(n)) for _ in range(n2)]
    # point clouds measured in small or large units (exact power-of-two factor per stack):
    # squared distances of 1e-12 and below are ordinary in SI units
    f1 = 2.0 ** draw(st.sampled_from([0, 0, 0, -25, -40, 15]))
    f2 = 2.0 ** draw(st.sampled_from([0, 0, 0, -25, -40, 15]))
    p1 = [[[x * f1 for x in pt] for pt in cloud] for cloud in p1]
    p2 = [[[x * f2 for x in pt] for pt in cloud] for cloud in p2]
    return dict(method=method, n_cond=n, kind='points', pts1=p1, pts2=p2,
                v1=[U.sq_euclid_vector(p) for p in p1], v2=[U.sq_euclid_vector(p) for p in p2],
                form1=forms_for(draw, n1), form2=forms_for(draw, n2),
                api=draw(st.sampled_from(['compare', 'direct'])), perm=draw(gen.permutation(n)))


def check_bures(case):
    m, n = case['method'], case['n_cond']
    v1 = [U.sq_euclid_vector(p) for p in case['pts1']]
    v2 = [U.sq_euclid_vector(p) for p in case['pts2']]
    if not (core.close(v1, case['v1'], 0, 0) and core.close(v2, case['v2'], 0, 0)):
        raise Reject('case vectors are not the distances of the case points', 'harness:inconsistent-case')
    metric = m == 'bures_metric'
    main = call(m, v1, v2, None, case['form1'], case['form2'], case['api'])
    base = 4 * n * math.sqrt(U.EPS)
    worst_scale = 1.0
    for i, pa in enumerate(case['pts1']):
        for j, pb in enumerate(case['pts2']):
            sim, met, ta, tb = U.bures_from_points(pa, pb)
            scale = math.sqrt(ta * tb) if metric else 1.0
            worst_scale = max(worst_scale, scale)
            require_close(main[i, j], met if metric else sim,
                          '%s of RDM %d and %d vs nuclear norm of Xc\'Yc' % (m, i, j),
                          'value:' + m, rtol=1e-9, atol=base * scale)
            fid = U.fidelity_from_kernels(ref.centered_kernel(v1[i], n), ref.centered_kernel(v2[j], n))
            via_k = (ta + tb - 2 * fid) if metric else fid / math.sqrt(ta * tb)
            require_close(main[i, j], via_k, '%s of RDM %d and %d vs factorised kernels -HDH/2' % (m, i, j),
                          'value:%s:kernel' % m, rtol=1e-9, atol=2 * base * scale)
    tol = (1e-9, base * worst_scale)
    c2 = dict(case, v1=v1, v2=v2)
    if metric:
        tr = [U.bures_from_points(p, p)[2] for p in case['pts1'] + case['pts2']]
        laws(c2, m, main, tol, self_tol=(0.0, base * max(tr)), is_metric=True)
    else:
        laws(c2, m, main, tol, lo=0.0, hi=1.0)


def classify_bures(case):
    labels = base_labels(case)
    n = case['n_cond']
    deficient = any(len(p[0]) < n - 1 for p in case['pts1'] + case['pts2'])
    coincident = any(0.0 in v for v in case['v1'] + case['v2'])
    labels.append('embedding:low-dim' if deficient else 'embedding:full')
    if coincident:
        labels.append('coincident-points')
    return labels, deficient or coincident or len(case['v1']) != len(case['v2'])


# ---- sub-check: a degenerate RDM inside a stack must not disturb its neighbours ---------------

COSINE_FAMILY = ['cosine', 'corr', 'spearman', 'cosine_cov', 'corr_cov']


@st.composite
def degenerate_case(draw):
    method = draw(st.sampled_from(COSINE_FAMILY * 2 + ['kendall', 'tau-a', 'rho-a']))
    n = draw(st.integers(3, 5))
    n1 = draw(st.integers(2, 4))
    n2 = draw(st.integers(1, 4))
    kind = draw(st.sampled_from(['grid', 'smallint', 'pos']))
    length = ref.n_pairs(n)
    v1 = draw(U.vectors(n1, length, kind))
    v2 = draw(U.vectors(n2, length, kind))
    # which RDMs are degenerate: bit masks, at least one in the first stack
    m1 = draw(st.integers(1, 2 ** n1 - 2)) if n1 > 1 else 1
    m2 = draw(st.integers(0, 2 ** n2 - 1)) if draw(st.booleans()) else 0
    const = 0.0 if method in ('cosine', 'cosine_cov') else float(draw(st.integers(-2, 3)))
    for i in range(n1):
        if m1 >> i & 1:
            v1[i] = [const] * length
    for j in range(n2):
        if m2 >> j & 1:
            v2[j] = [const] * length
    sigma = None
    if method in WHITE:
        sk = draw(st.sampled_from(['none', 'none', 'vector', 'matrix']))
        sigma = None if sk == 'none' else draw(U.sigma_vector(n) if sk == 'vector' else U.sigma_matrix(n))
    return dict(method=method, n_cond=n, kind=kind, v1=v1, v2=v2, sigma=sigma,
                form1=forms_for(draw, n1), form2=forms_for(draw, n2), swap=draw(st.booleans()))


def _is_degenerate(method, vec):
    if method in ('cosine', 'cosine_cov'):
        return max(vec) == 0.0 and min(vec) == 0.0
    return max(vec) == min(vec)


def check_degenerate(case):
    m, n, sigma = case['method'], case['n_cond'], case['sigma']
    v1, v2, f1, f2 = case['v1'], case['v2'], case['form1'], case['form2']
    if case['swap']:
        v1, v2, f1, f2 = v2, v1, f2, f1
    main = call(m, v1, v2, sigma, f1, f2)
    ok1 = [i for i, v in enumerate(v1) if not _is_degenerate(m, v)]
    ok2 = [j for j, v in enumerate(v2) if not _is_degenerate(m, v)]
    rtol, atol = white_tol(sigma, n) if m in WHITE else (1e-9, 1e-10)
    vmat = ref.dense_v(n, sigma) if m in WHITE else None
    sig = 'degenerate:other-rows:' + ('cosine-family' if m in COSINE_FAMILY else m)
    for i in ok1:
        for j in ok2:
            want = ref.sim(m, v1[i], v2[j], sigma_k=sigma, n=n, v=vmat)
            require_close(main[i, j], want, '%s entry (%d,%d) between two regular RDMs of stacks that '
                          'also contain a zero/constant RDM' % (m, i, j), sig, rtol=rtol, atol=atol)
    # entries involving the degenerate RDM itself are undefined (0 or NaN): not asserted


def classify_degenerate(case):
    m = case['method']
    d1 = [_is_degenerate(m, v) for v in case['v1']]
    d2 = [_is_degenerate(m, v) for v in case['v2']]
    labels = ['method:' + m, 'degenerate:first-stack-only' if not any(d2) else 'degenerate:both-stacks',
              'sigma:' + sigma_kind(case['sigma'])]
    # a degenerate RDM that precedes a regular one shifts the positions of the regular results
    before = any(d and not all(ds[k + 1:]) for ds in (d1, d2) for k, d in enumerate(ds))
    labels.append('degenerate-before-regular' if before else 'degenerate-last')
    return labels, before


SUBCHECKS = [
    SubCheck('plain', plain_case(), check_plain, classify_plain, quick=600, thorough=8000,
             doc='cosine / Pearson: (i,j) entries equal the definition; symmetry, self = 1, range, '
                 'condition-permutation invariance, array == RDMs input'),
    SubCheck('many_conditions', large_case(), check_large, classify_large, quick=6, thorough=40,
             doc='tau-a / Kendall / Spearman / rho-a of tie-free RDMs over 258-263 conditions (> 2^15 '
                 'pairs) vs scipy.stats'),
    SubCheck('rank', rank_case(), check_rank, classify_rank, quick=1200, thorough=16000,
             doc='Spearman, Kendall tau-b, tau-a, rho-a with ties: brute-force concordance counts, '
                 'mid-ranks, enumerated tie-breakings; same laws'),
    Enumeration('rank_exhaustive3', enum_rank3, check_rank3, classify_rank3,
                doc='all 729 ordered pairs of 3-entry RDM vectors over {0,1,2}: five rank measures '
                    'vs brute force, rho-a vs all tie-breakings'),
    SubCheck('whitened', white_case(), check_white, classify_white, quick=1000, thorough=10000,
             doc='cosine_cov / corr_cov with sigma_k None, variance vector, SPD matrix vs dense '
                 'element-wise V; vector == diagonal matrix; same laws'),
    SubCheck('bures', bures_case(), check_bures, classify_bures, quick=600, thorough=8000,
             doc='Bures similarity / squared metric of embeddable RDMs vs nuclear-norm fidelity '
                 'from the points and from the kernels; same laws (similarity in [0,1], metric >= 0, self 1 / 0)'),
    SubCheck('degenerate', degenerate_case(), check_degenerate, classify_degenerate, quick=400, thorough=5000,
             doc='stacks of 2-4 RDMs containing all-zero (cosine) / constant (centred, ranked) RDMs: '
                 'every entry between two regular RDMs still equals the definition'),
    SubCheck('very_many_conditions', huge_case(), check_huge, classify_huge, quick=8, thorough=40,
             doc='Kendall tau-b / tau-a of tie-free and 2/7/50-level RDMs over 400-500 conditions (3e9-8e9 '
                 'pairs of dissimilarities) vs scipy.stats.kendalltau and the tie counts; tau-b self = 1'),
]
