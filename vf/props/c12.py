"""C12 - value-returning operations neither modify nor alias their inputs.

The set of callables is discovered by introspection; one sub-check per callable.
"""
import contextlib
import importlib
import inspect
import io
import os
import pkgutil
from collections import OrderedDict

import numpy as np
from hypothesis import strategies as st

from vf import core, gen
from vf.core import SubCheck, Violation, Reject
from vf.props import c12_world as W
from vf.props import c12_registry as REG

PACKAGES = ['rsatoolbox.rdm', 'rsatoolbox.data', 'rsatoolbox.model', 'rsatoolbox.inference',
            'rsatoolbox.util']
DUNDERS = ('__init__', '__getitem__', '__eq__', '__len__', '__iter__', '__call__', '__str__',
           '__repr__')

RULE = ("Callables are discovered by introspection of rsatoolbox.rdm/.data/.model/.inference/.util "
        "(module-level functions and the methods defined by their classes); a registry maps "
        "parameter names (plus per-callable overrides) to Hypothesis argument strategies: RDM "
        "stacks (2-4 RDMs x 3-6 conditions, 8-10 for cross-validation; list/array descriptors, "
        "vector/matrix form, negative values for transforms), (Temporal)Datasets (conditions x "
        "runs, rows permuted; for the Dataset/TemporalDataset subset_*/split_* methods additional "
        "'@blocked' sub-checks on run- or cond-blocked rows and roi-blocked channels, blocks in "
        "non-sorted order, so that every selection by value is a contiguous range), the four model classes built from RDMs or arrays, Results, SPD "
        "matrices, arrays, dicts, files. A case = {callable, argument recipe, seed for the "
        "library's own numpy draws, follow-ups}. (A) fingerprint (array bytes + descriptor values "
        "without the library-managed 'index') of every argument before == after the call; (B) "
        "each follow-up of the menu {result,source} x {reorder, sort_by (Dataset.sort_by), append, "
        "write into the data array, write into an array-valued descriptor}, applied to an "
        "RDMs/Dataset/ndarray reachable from the result (resp. the arguments), must leave the "
        "fingerprint of the other side unchanged; ~55-70 % of the cases run the whole menu in a "
        "generated order, the others a single entry (the shrunk form). Non-trivial: an "
        "argument with >=2 RDMs/rows/elements whose descriptor order is not sorted (so sorting "
        "acts) and at least one follow-up; distinct by SHA1 of the case.")
ASSUMPTIONS = [
    "the library-managed 'index' descriptor entries are not user content (excluded from fingerprints)",
    "an object handed back as a whole (return value `is` an argument, or the caller's Model objects "
    "inside a returned Result/list) is not a new object; aliasing is asserted for everything else "
    "reachable from the return value",
    "in-place mutators (reorder, sort_by, append, append_descriptor, Dataset.sort_by), the accessor "
    "get_vectors, raw container constructors and abstract stubs are excluded (listed in evidence)",
    "follow-ups are the documented in-place operations and array writes (dissimilarities / "
    "measurements / returned ndarrays / array-valued user descriptors); adding or replacing "
    "entries of descriptor dicts is not part of the property's follow-up set",
    "a clean refusal (exception) by the library is out of domain, never a C12 violation; "
    "non-converging iterative routines are aborted by a watchdog and counted as inconclusive",
    "library draws from numpy's global RNG are seeded from the case",
]

EXCLUDED = OrderedDict([
    ('rdm.rdms.RDMs.reorder', 'documented in-place mutator'),
    ('rdm.rdms.RDMs.sort_by', 'documented in-place mutator'),
    ('rdm.rdms.RDMs.append', 'documented in-place mutator'),
    ('data.dataset.Dataset.sort_by', 'documented in-place mutator'),
    ('data.dataset.TemporalDataset.sort_by', 'documented in-place mutator'),
    ('util.descriptor_utils.append_descriptor', 'documented in-place mutator (helper of append)'),
    ('rdm.rdms.RDMs.__init__', 'raw container constructor (stores what it is given)'),
    ('data.base.DatasetBase.__init__', 'raw container constructor (stores what it is given)'),
    ('data.dataset.TemporalDataset.__init__', 'raw container constructor (stores what it is given)'),
    ('inference.result.Result.__init__', 'raw container constructor (stores what it is given)'),
    ('data.base.DatasetBase.__eq__', 'abstract stub (raises NotImplementedError)'),
    ('data.base.DatasetBase.copy', 'abstract stub (raises NotImplementedError)'),
    ('data.base.DatasetBase.split_obs', 'abstract stub (raises NotImplementedError)'),
    ('data.base.DatasetBase.split_channel', 'abstract stub (raises NotImplementedError)'),
    ('data.base.DatasetBase.subset_obs', 'abstract stub (raises NotImplementedError)'),
    ('data.base.DatasetBase.subset_channel', 'abstract stub (raises NotImplementedError)'),
    ('model.model.Model.predict', 'abstract stub (raises NotImplementedError)'),
    ('model.model.Model.predict_rdm', 'abstract stub (raises NotImplementedError)'),
])

# (A) is asserted, (B) is not: the return value is by design a view of the object / of the
# dictionary it is given (accessors, the serialisation view used by save(), and its inverse,
# which like the raw constructors stores what it is handed)
MUTATION_ONLY = OrderedDict([
    ('rdm.rdms.RDMs.get_vectors', 'pure accessor exposing the internal array'),
    ('inference.result.Result.get_noise_ceil', 'pure accessor exposing the internal array'),
    ('inference.result.Result.get_model_var', 'pure accessor exposing the internal array'),
    ('rdm.rdms.RDMs.to_dict', 'serialisation view of the object (used by save)'),
    ('data.base.DatasetBase.to_dict', 'serialisation view of the object (used by save)'),
    ('data.dataset.TemporalDataset.to_dict', 'serialisation view of the object (used by save)'),
    ('model.model.Model.to_dict', 'serialisation view of the object (used by save)'),
    ('inference.result.Result.to_dict', 'serialisation view of the object (used by save)'),
    ('rdm.rdms.rdms_from_dict', 'raw constructor from a dictionary (stores what it is given)'),
    ('data.dataset.dataset_from_dict', 'raw constructor from a dictionary (stores what it is given)'),
    ('model.model.model_from_dict', 'raw constructor from a dictionary (stores what it is given)'),
    ('inference.result.result_from_dict', 'raw constructor from a dictionary (stores what it is given)'),
])

# no RDMs / dataset / model / array parameter: outside the quantifier (still executed, cheap)
SCALAR_ONLY = {
    'util.matrix.centering', 'util.matrix.row_col_indicator_rdm', 'util.matrix.row_col_indicator_g',
    'util.matrix.run', 'util.inference_util.default_k_pattern', 'util.inference_util.default_k_rdm',
    'model.model.Model.__init__', 'model.fitter.Fitter.__init__',
    'util.matrix.square_category_binary_mask', 'util.matrix.square_between_category_binary_mask',
}


# ---------------------------------------------------------------------------
# discovery

class Entry:
    def __init__(self, key, func, cls=None, static=False):
        self.key = key                    # 'rdm.rdms.RDMs.subset'
        self.func = func
        self.cls = cls
        self.static = static
        self.name = func.__name__ if cls is None else '%s.%s' % (cls.__name__, func.__name__)
        self.short = self.name            # made unique below
        self.params = []                  # [(param name as in case, call style)]
        self.providers = {}
        self.reason = None                # why uncovered
        self.spec = {}

    @property
    def is_init(self):
        return self.cls is not None and self.func.__name__ == '__init__'


def discover():
    entries = OrderedDict()
    for pkg_name in PACKAGES:
        pkg = importlib.import_module(pkg_name)
        mods = [pkg]
        for m in sorted(pkgutil.iter_modules(pkg.__path__, pkg_name + '.'), key=lambda m: m.name):
            try:
                mods.append(importlib.import_module(m.name))
            except Exception:  # noqa: BLE001
                continue
        for mod in mods:
            for name, obj in sorted(vars(mod).items()):
                if name.startswith('_'):
                    continue
                if getattr(obj, '__module__', None) != mod.__name__:
                    continue
                base = mod.__name__[len('rsatoolbox.'):]
                if inspect.isfunction(obj):
                    entries.setdefault('%s.%s' % (base, name), Entry('%s.%s' % (base, name), obj))
                elif inspect.isclass(obj):
                    for mname, mobj in sorted(vars(obj).items()):
                        if mname.startswith('_') and mname not in DUNDERS:
                            continue
                        static = isinstance(mobj, (staticmethod, classmethod))
                        f = mobj.__func__ if static else mobj
                        if not inspect.isfunction(f):
                            continue
                        key = '%s.%s.%s' % (base, obj.__name__, mname)
                        entries.setdefault(key, Entry(key, f, cls=obj, static=static))
    # unique short names
    count = {}
    for e in entries.values():
        count[e.name] = count.get(e.name, 0) + 1
    for e in entries.values():
        if count[e.name] > 1:
            e.short = '%s.%s' % (e.key.split('.')[-2] if e.cls is None else e.key.split('.')[-3],
                                 e.name)
    return entries


def _self_provider(cls):
    n = cls.__name__
    if n == 'RDMs':
        return REG.R
    if n in ('Dataset', 'DatasetBase'):
        return REG.D
    if n == 'TemporalDataset':
        return REG.T
    if n == 'Model':
        return REG.model()
    if n in W.MODEL_CLASSES:
        return REG.model(n)
    if n == 'Result':
        return REG.result()
    if n == 'ModelFamily':
        return REG.family()
    return None


def resolve(entry):
    """fill entry.params / entry.providers from signature + registry; set reason if uncovered"""
    sp = REG.S.get(entry.key, {})
    entry.spec = sp
    if entry.key in REG.FORCED_UNCOVERED:
        entry.reason = REG.FORCED_UNCOVERED[entry.key]
        return
    try:
        sig = inspect.signature(entry.func)
    except (TypeError, ValueError):
        entry.reason = 'no introspectable signature'
        return
    for i, (pname, par) in enumerate(sig.parameters.items()):
        if i == 0 and entry.cls is not None and not entry.static:
            if entry.is_init:
                continue
            prov = sp.get('self') or _self_provider(entry.cls)
            if prov is None:
                entry.reason = 'no strategy for instances of %s' % entry.cls.__name__
                return
            entry.params.append(('self', 'self'))
            entry.providers['self'] = prov
            continue
        if par.kind == par.VAR_POSITIONAL:
            if '*' + pname in sp:
                entry.params.append(('*' + pname, 'var'))
                entry.providers['*' + pname] = sp['*' + pname]
            continue
        if par.kind == par.VAR_KEYWORD:
            if '**' + pname in sp:
                entry.params.append(('**' + pname, 'kw'))
                entry.providers['**' + pname] = sp['**' + pname]
            continue
        if pname in sp:
            if sp[pname] is not None:
                entry.params.append((pname, 'named'))
                entry.providers[pname] = sp[pname]
            continue
        if par.default is not par.empty:
            if pname in REG.OPTIONAL_DEFAULT:
                entry.params.append((pname, 'named'))
                entry.providers[pname] = REG.OPTIONAL_DEFAULT[pname]
            continue
        if pname in REG.DEFAULT:
            entry.params.append((pname, 'named'))
            entry.providers[pname] = REG.DEFAULT[pname]
            continue
        entry.reason = 'no strategy for required parameter %r' % pname
        return


ENTRIES = discover()
for _e in ENTRIES.values():
    if _e.key not in EXCLUDED:
        resolve(_e)
BY_SHORT = {e.short: e for e in ENTRIES.values()}


# ---------------------------------------------------------------------------
# blocked designs: (Temporal)Datasets whose observations are grouped by an obs descriptor and
# whose channels are grouped by 'roi' (session-/run-blocked recordings, or data that went through
# sort_by before). REG.D / REG.T permute the rows, so a selection by descriptor value is
# (almost) never a contiguous range there; here every such selection is one.

def _regroup(values, order_sorted_ok=False):
    """stable grouping of positions by value, groups in first-occurrence order (rotated when
    that order happens to be the sorted one, so that sorting still acts)"""
    firsts = []
    for v in values:
        if v not in firsts:
            firsts.append(v)
    if len(firsts) >= 2 and firsts == sorted(firsts) and not order_sorted_ok:
        firsts = firsts[1:] + firsts[:1]
    return [i for f in firsts for i, v in enumerate(values) if v == f]


def blocked(prov):
    def wrapped(draw, dims):
        r = dict(prov(draw, dims))
        by = draw(st.sampled_from(['run', 'cond']))
        rows = _regroup(r['odesc'][by])
        r['meas'] = [r['meas'][i] for i in rows]
        r['odesc'] = {k: [v[i] for i in rows] for k, v in r['odesc'].items()}
        if r['kind'] == 'dataset':
            cols = _regroup(r['cdesc']['roi'], order_sorted_ok=True)
            r['meas'] = [[row[j] for j in cols] for row in r['meas']]
            r['cdesc'] = {k: [v[j] for j in cols] for k, v in r['cdesc'].items()}
        r['blocked'] = by
        return r
    return wrapped


def blocked_variants():
    out = []
    for e in ENTRIES.values():
        if e.key in EXCLUDED or e.reason is not None or e.cls is None:
            continue
        if e.cls.__name__ not in ('Dataset', 'TemporalDataset'):
            continue
        if category(e) != 'subset/indexing' or 'self' not in e.providers:
            continue
        if e.providers['self'] not in (REG.D, REG.T):
            continue
        v = Entry(e.key, e.func, cls=e.cls, static=e.static)
        v.short = e.short + '@blocked'
        v.params = list(e.params)
        v.providers = dict(e.providers)
        v.providers['self'] = blocked(e.providers['self'])
        v.spec = e.spec
        out.append(v)
    return out


def category(entry):
    k, n = entry.key, entry.func.__name__
    if any(s in n for s in ('save', 'to_dict', 'from_dict', 'load_', 'to_df', 'from_df', 'remove_file')):
        return 'saving'
    if k.startswith('rdm.transform'):
        return 'transform'
    if any(n.startswith(s) for s in ('subset', 'subsample', 'split_', '__getitem__')):
        return 'subset/indexing'
    if k.startswith('rdm.compare'):
        return 'comparison'
    if k.startswith('rdm.calc') or k.startswith('util.build_rdm'):
        return 'rdm calculation'
    if k.startswith('data.noise'):
        return 'noise estimation'
    if 'pool' in n:
        return 'pooling'
    if k.startswith('model.'):
        return 'model construction/fitting'
    if k.startswith('inference.'):
        return 'evaluation'
    if k.startswith('rdm.combine') or n in ('concat', 'merge_datasets', 'merge_subsets', 'mean'):
        return 'combination/rescaling'
    return 'other'


# ---------------------------------------------------------------------------
# cases

MENU = [(t, a) for t in ('result', 'source') for a in W.ACTIONS]


@st.composite
def followups(draw):
    # mostly the full menu in a generated order; a single entry is the simpler (shrunk) form
    only = draw(st.sampled_from(list(range(len(MENU))) + [None] * 24))
    order = draw(gen.permutation(len(MENU)))
    recs = []
    for k in order:
        if only is not None and k != only:
            continue
        t, a = MENU[k]
        recs.append({'target': t, 'action': a, 'pick': draw(st.integers(0, 5)),
                     'perm': draw(gen.permutation(8)) if a == 'reorder' else [],
                     'pos': draw(st.integers(0, 40))})
    return recs


def case_strategy(entry):
    @st.composite
    def strat(draw):
        dims = draw(REG.draw_dims(entry.spec.get('_dims')))
        args = OrderedDict()
        for pname, style in entry.params:
            prov = entry.providers[pname]
            if style == 'kw':
                args[pname] = {'kind': 'dict', 'items': {k: p(draw, dims) for k, p in prov.items()}}
            else:
                args[pname] = prov(draw, dims)
        seed = draw(st.integers(0, 2 ** 16))
        fus = draw(followups())
        return {'callable': entry.key, 'args': dict(args), 'order': [p for p, _ in entry.params],
                'seed': seed, 'followups': fus}
    return strat()


def _handed_back(result, tokens, depth=0, path='result'):
    """user RDMs / datasets / arrays reached from the result through plain containers only"""
    out = []
    if depth > 4 or tokens is None:
        return out
    if id(result) in tokens and isinstance(result, (W.RDMs, W.DatasetBase, np.ndarray)):
        return ['%s:%s' % (path, type(result).__name__)]
    if isinstance(result, dict):
        for k, v in result.items():
            out += _handed_back(v, tokens, depth + 1, '%s[%r]' % (path, k))
    elif isinstance(result, (list, tuple)):
        for i, v in enumerate(result):
            out += _handed_back(v, tokens, depth + 1, '%s[%d]' % (path, i))
    return out


# callables whose documented role is to pass the caller's objects through
HANDBACK_OK = {
    # format normalisers: input already in the requested form is passed through (DESIGN C12:
    # 'batch_to_vectors/_matrices on already-vector input' - documented accessor behaviour)
    'util.rdm_utils.batch_to_matrices', 'util.rdm_utils.batch_to_vectors',
    'util.vis_utils.weight_to_matrices',
    # validator: returns the dictionary it was asked to validate
    'util.descriptor_utils.parse_input_descriptor',
}


def _describe(paths):
    return ', '.join(paths)


def check_case(case):
    entry = ENTRIES.get(case['callable'])
    if entry is None:
        raise Reject('callable %s no longer exists' % case['callable'], 'rejected:gone')
    env = W.Env(case)
    for pname in case['order']:
        env.args[pname] = core.lib(W.build, case['args'][pname], env)
    before = {p: W.fp(v) for p, v in env.args.items()}

    pos, kw = [], {}
    self_obj = None
    for pname in case['order']:
        v = env.args[pname]
        if pname == 'self':
            self_obj = v
        elif pname.startswith('**'):
            kw.update(v)
        elif pname.startswith('*'):
            pos.extend(v)
        else:
            kw[pname] = v
    if entry.is_init:
        fn = entry.cls
    elif self_obj is not None:
        fn = getattr(self_obj, entry.func.__name__)
    elif entry.cls is not None:
        fn = getattr(entry.cls, entry.func.__name__)
    else:
        fn = entry.func
    np.random.seed(case['seed'])
    # iterative routines (rescale, non-negative least squares, optimisers) may legitimately fail
    # to converge: abort -> inconclusive, never a verdict
    wd = entry.spec.get('_watchdog', 60)
    with contextlib.redirect_stdout(io.StringIO()):      # some routines print progress
        with core.watchdog(wd):
            result = core.lib(fn, *pos, **kw)

    # (A) arguments unchanged bit for bit
    for p, v in env.args.items():
        d = W.first_diff(before[p], W.fp(v))
        if d is not None:
            raise Violation('%s modified its argument %r at %s' % (entry.short, p, d or '<value>'),
                            'mutates-arg:%s' % entry.short)

    # (B) no aliasing between result and arguments
    if entry.key in MUTATION_ONLY:
        return
    tokens = env.tokens
    # (B0) a value-returning operation must not hand the caller's own RDMs / dataset / array
    # back as (part of) its result - then every later in-place operation on the 'result' is
    # an operation on the source. Only the callables whose contract is to pass objects through
    # are exempt (explicit list, printed in the evidence).
    hb = _handed_back(result, tokens)
    if hb and os.environ.get('VERIF_C12_DISCOVER'):
        with open(os.environ['VERIF_C12_DISCOVER'], 'a') as fh:
            fh.write('%s %s\n' % (entry.key, hb))
    elif hb and entry.key not in HANDBACK_OK:
        raise Violation('%s returned the caller\'s own object(s) %s as its result' % (
            entry.short, hb), 'alias:%s:returns-argument' % entry.short)
    arg_list = [env.args[p] for p in case['order']]
    res_car = W.carriers(result, tokens, skip_user_top=True)
    src_car = W.carriers(arg_list, None, skip_user_top=False)
    for fu in case['followups']:
        cands = [(pth, c) for pth, c in (res_car if fu['target'] == 'result' else src_car)
                 if W.applicable(fu['action'], c)]
        if not cands:
            continue
        pth, obj = cands[fu['pick'] % len(cands)]
        if fu['target'] == 'result':
            snap = W.fp(arg_list)
        else:
            snap = W.fp(result, tokens)
        try:
            what = W.apply_action(fu['action'], obj, fu)
        except (Violation, Reject, core.Inconclusive):
            raise
        except Exception:  # noqa: BLE001  the in-place operation itself refused: stop here
            break
        if fu['target'] == 'result':
            d = W.first_diff(snap, W.fp(arg_list))
            if d is not None:
                raise Violation(
                    '%s: %s on the result%s changed the arguments at %s' % (
                        entry.short, what, pth, d), 'alias:%s:%s' % (entry.short, W.diff_kind(d)))
        else:
            d = W.first_diff(snap, W.fp(result, tokens))
            if d is not None:
                raise Violation(
                    '%s: %s on the argument%s changed the result at %s' % (
                        entry.short, what, pth, d), 'alias:%s:%s' % (entry.short, W.diff_kind(d)))


def _pieces(p, out):
    if isinstance(p, dict):
        if 'kind' in p:
            out.append(p)
        for v in p.values():
            _pieces(v, out)
    elif isinstance(p, list):
        for v in p:
            _pieces(v, out)
    return out


def _size(v):
    if isinstance(v, list):
        return sum(_size(x) for x in v)
    return 1


def classify(case):
    entry = ENTRIES.get(case['callable'])
    labels = ['category:' + (category(entry) if entry else '?')]
    pieces = _pieces(case['args'], [])
    kinds = sorted({p['kind'] for p in pieces})
    labels += ['arg:' + k for k in kinds if k not in ('lit',)]
    for fu in case['followups']:
        labels.append('fu:%s:%s' % (fu['target'], fu['action']))
    labels.append('followups:%s' % ('all' if len(case['followups']) == len(MENU) else 'single'))
    labels += ['arg:blocked-by-' + p['blocked'] for p in pieces if p.get('blocked')]
    big = False
    for p in pieces:
        if p['kind'] in ('rdms', 'dataset', 'tds'):
            big = True
        elif p['kind'] == 'array' and _size(p['v']) >= 2:
            big = True
    return labels, bool(big and case['followups'])


# ---------------------------------------------------------------------------

SUBCHECKS = []
for _e in ENTRIES.values():
    if _e.key in EXCLUDED or _e.reason is not None:
        continue
    _q = _e.spec.get('_quick', 20)
    SUBCHECKS.append(SubCheck(_e.short, case_strategy(_e), check_case, classify, quick=_q,
                              thorough=_e.spec.get('_thorough', _q * 15),
                              max_reject_frac=_e.spec.get('_max_reject', 0.3),
                              doc='%s [%s]' % (_e.key, category(_e))))
for _e in blocked_variants():
    SUBCHECKS.append(SubCheck(_e.short, case_strategy(_e), check_case, classify, quick=12,
                              thorough=120, max_reject_frac=_e.spec.get('_max_reject', 0.3),
                              doc='%s [%s] on run-/cond-blocked datasets with roi-blocked '
                                  'channels' % (_e.key, category(_e))))


def evidence_extra():
    W.cleanup_tmp()
    covered, uncovered, out_of_scope = [], [], []
    for e in ENTRIES.values():
        if e.key in EXCLUDED:
            continue
        if e.reason is not None:
            uncovered.append({'callable': e.key, 'reason': e.reason})
        elif e.key in SCALAR_ONLY:
            out_of_scope.append(e.key)
        else:
            covered.append(e.key)
    return {'discovered': len(ENTRIES), 'covered': covered, 'uncovered': uncovered,
            'excluded': [{'callable': k, 'reason': v} for k, v in EXCLUDED.items()],
            'mutation_only': [{'callable': k, 'reason': v} for k, v in MUTATION_ONLY.items()],
            'executed_but_no_array_or_object_parameter': out_of_scope,
            'pass_through_allowed': sorted(HANDBACK_OK),
            'follow_up_menu': ['%s:%s' % m for m in MENU]}
