"""C05 part A: partition predicates for the fold generators (helpers for c05.py)."""
import numpy as np
from hypothesis import strategies as st

from vf import core, gen, rng
from vf.core import Violation, Reject, lib, require
from vf.props import c09_stack as S

from rsatoolbox.rdm import RDMs
from rsatoolbox.inference import crossvalsets as CV

# generator -> (function, dimensions it cross-validates over, exhaustive?)
GENS = {
    'loo_pattern': (CV.sets_leave_one_out_pattern, ('pat',), True),
    'loo_rdm': (CV.sets_leave_one_out_rdm, ('rdm',), True),
    'k_fold': (CV.sets_k_fold, ('rdm', 'pat'), True),
    'k_fold_rdm': (CV.sets_k_fold_rdm, ('rdm',), True),
    'k_fold_pattern': (CV.sets_k_fold_pattern, ('pat',), True),
    'of_k_rdm': (CV.sets_of_k_rdm, ('rdm',), True),
    'of_k_pattern': (CV.sets_of_k_pattern, ('pat',), True),
    'random': (CV.sets_random, ('rdm', 'pat'), False),
}
MIN_GROUPS = {'loo_pattern': (1, 2), 'of_k_rdm': (2, 1), 'of_k_pattern': (1, 2)}


def _v(msg, sig):
    raise Violation(msg, sig)


# ---- case generation -------------------------------------------------------------

def sets_case(gen_name):
    @st.composite
    def strat(draw):
        min_r, min_p = MIN_GROUPS.get(gen_name, (1, 1))
        if draw(st.integers(0, 3 if gen_name in ('loo_rdm', 'k_fold_rdm', 'of_k_rdm') else 9)) == 0:
            # many RDMs (e.g. 20 subjects x 2 sessions) over few conditions: 'all numbers of RDMs'
            spec = draw(S.stack(n_rdm=(20, 44), n_cond=(3, 4), min_rdm_groups=min_r,
                                min_pat_groups=min_p, allow_nan=False))
            if draw(st.booleans()):
                # the typical layout: many subjects with two or three sessions each
                r = spec['n_rdm']
                per = draw(st.sampled_from([2, 2, 3]))
                kind = draw(st.sampled_from(['str', 'str', 'int']))
                base = [i // per for i in range(r)]
                order = draw(gen.permutation(r))
                vals = [base[i] for i in order]
                spec['rdm'] = dict(by='grp', kind=kind, container=draw(gen.container),
                                   values=[('sub-%02d' % v) if kind == 'str' else 1000 * v + 7
                                           for v in vals])
        else:
            spec = draw(S.stack(n_rdm=(max(1, min_r), 8), n_cond=(3, 10), min_rdm_groups=min_r,
                                min_pat_groups=min_p, allow_nan=False))
        if draw(st.booleans()):
            # input that is itself a bootstrap sample: copies of a condition -> NaN between them
            spec['copies'] = True
        params = dict(a_rdm=draw(st.integers(0, 9)), a_pat=draw(st.integers(0, 9)),
                      none_rdm=draw(st.integers(0, 5)) == 5, none_pat=draw(st.integers(0, 5)) == 5,
                      one_rdm=draw(st.integers(0, 6)) == 6, one_pat=draw(st.integers(0, 6)) == 6,
                      random=draw(st.booleans()), n_cv=draw(st.integers(1, 3)),
                      explicit_names=draw(st.booleans()))
        draws = draw(st.lists(st.integers(0, 63), min_size=0, max_size=60))
        return dict(gen=gen_name, stack=spec, params=params, draws=draws,
                    fallback_seed=draw(st.integers(0, 999)))
    return strat()


def apply_copies(spec, side):
    """within-group condition pairs are NaN, as in a bootstrap sample (pure function of spec)"""
    if not spec.get('copies'):
        return side['vecs']
    v = side['vecs'].copy()
    from vf import ref
    pg = side['pgroup']
    for k, (i, j) in enumerate(ref.pairs(side['n_cond'])):
        if S.same(pg[i], pg[j]):
            v[:, k] = np.nan
    return v


def build_source(spec):
    side = S.side_table(spec)
    side['vecs'] = apply_copies(spec, side)
    rd = {k: list(v) for k, v in side['rdm_desc'].items() if k != 'index'}
    pd = {k: list(v) for k, v in side['pat_desc'].items() if k != 'index'}
    from vf import gen
    for dim, d in (('rdm', rd), ('pat', pd)):
        g = spec[dim]
        if g['by'] != 'default':
            d[S.desc_name(spec, dim)] = gen.as_desc(list(g['values']), g['container'])
    obj = RDMs(side['vecs'].copy(), dissimilarity_measure='test', descriptors={'subj': 'a'},
               rdm_descriptors=rd, pattern_descriptors=pd)
    return obj, side


def resolve(case, side):
    """abstract arguments -> concrete call (args, kwargs) and what was requested.
    returns (kwargs, req) with req = dict(k_rdm, k_pat, n_rdm, n_pat, n_cv, size_rdm, size_pat)"""
    name, spec, p = case['gen'], case['stack'], case['params']
    fn, dims, _ = GENS[name]
    g_r = len(S.distinct_sorted(side['rgroup']))
    g_p = len(S.distinct_sorted(side['pgroup']))
    kw = {}
    req = dict(g_r=g_r, g_p=g_p)
    # descriptor names: omitted when the library default applies (or given explicitly as 'index')
    for dim, key in (('rdm', 'rdm_descriptor'), ('pat', 'pattern_descriptor')):
        if dim not in dims:
            continue
        if spec[dim]['by'] != 'default' or p['explicit_names'] or \
                (name == 'loo_pattern' and dim == 'pat'):
            kw[key] = S.desc_name(spec, dim)
    from rsatoolbox.util.inference_util import default_k_pattern, default_k_rdm
    if name in ('k_fold', 'k_fold_rdm'):
        if p['none_rdm'] and g_r >= 2:
            req['k_rdm'] = default_k_rdm(g_r)
        else:
            req['k_rdm'] = _pick(p['a_rdm'], p.get('one_rdm'), g_r, 1)
            kw['k_rdm'] = req['k_rdm']
    if name in ('k_fold', 'k_fold_pattern'):
        key = 'k_pattern' if name == 'k_fold' else 'k'
        if p['none_pat'] and g_p >= 2:
            req['k_pat'] = default_k_pattern(g_p)
        else:
            req['k_pat'] = _pick(p['a_pat'], p.get('one_pat'), g_p, 1)
            kw[key] = req['k_pat']
    if name == 'of_k_rdm':
        req['size_rdm'] = 1 + p['a_rdm'] % (g_r // 2)
        kw['k'] = req['size_rdm']
    if name == 'of_k_pattern':
        req['size_pat'] = 1 + p['a_pat'] % (g_p // 2)
        kw['k'] = req['size_pat']
    if name in ('k_fold', 'k_fold_rdm', 'k_fold_pattern', 'of_k_rdm', 'of_k_pattern'):
        # k_fold_pattern / of_k default to ordered, the others to random assignment
        kw['random'] = bool(p['random'])
    if name == 'random':
        if p['none_rdm']:
            req['n_rdm'] = g_r // default_k_rdm(g_r)
        else:
            req['n_rdm'] = _pick(p['a_rdm'], p.get('one_rdm'), g_r, 0)
            kw['n_rdm'] = req['n_rdm']
        if p['none_pat']:
            req['n_pat'] = g_p // default_k_pattern(g_p)
        else:
            req['n_pat'] = _pick(p['a_pat'], p.get('one_pat'), g_p, 0)
            kw['n_pattern'] = req['n_pat']
        req['n_cv'] = p['n_cv']
        kw['n_cv'] = p['n_cv']
    return kw, req


def _pick(a, trivial, g, base):
    """k in base..g-1+base: the trivial value `base` (k=1 / n=0: dimension not cross-validated)
    only when flagged or when there is a single group"""
    if trivial or g <= 1:
        return base
    return base + 1 + a % (g - 1)


def call_generator(case, source, side):
    fn, dims, _ = GENS[case['gen']]
    kw, req = resolve(case, side)
    with rng.Injected(case['draws'], case['fallback_seed']) as rec:
        out = lib(fn, source, on_error='violation', sig='raises:sets_' + case['gen'], **kw)
    return out, kw, req, rec


# ---- oracle ------------------------------------------------------------------------

def _groups(labels, positions):
    out = []
    for i in positions:
        if not any(S.same(labels[i], g) for g in out):
            out.append(labels[i])
    return out


def _key(v):
    v = S._plain(v)
    return (type(v).__name__ == 'str', v)


def _gset(values):
    return frozenset(_key(v) for v in values)


def inspect_object(obj, side, what, gen):
    """trace an object handed out and return its RDM groups / condition groups.
    every member (and copy) of a present group must be present exactly once."""
    try:
        rid, cid = S.trace(obj, side, what)
    except S.Trace as t:
        _v(t.msg, '%s:%s' % (t.region, gen))
    info = {}
    for dim, ids, labels in (('rdm', rid, side['rgroup']), ('pat', cid, side['pgroup'])):
        groups = _groups(labels, ids)
        expect = sorted(S.members(labels, groups))
        if sorted(ids) != expect:
            _v('%s: contains %s %s (positions in the source) but the groups %s present in it have '
               'members %s: a group is split or an item duplicated' % (
                   what, 'RDMs' if dim == 'rdm' else 'conditions', sorted(ids), groups, expect),
               'group-split:%s:%s' % (dim, gen))
        info[dim] = _gset(groups)
        info[dim + '_ids'] = ids
    return info


def check_idx(idx, info, side, what, gen, dims, spec):
    """the advertised pattern index list names exactly the condition groups of the object"""
    try:
        vals = list(idx)
    except TypeError:
        _v('%s: pattern index %r is not a sequence' % (what, idx), 'idx-type:' + gen)
    if 'pat' in dims:
        if len(vals) != len(_gset(vals)) or _gset(vals) != info['pat']:
            _v('%s: advertised pattern groups %s but the object contains groups %s' % (
                what, [S._plain(v) for v in vals], sorted(v for _, v in info['pat'])),
               'idx-mismatch:' + gen)
    else:
        # generators over RDMs only advertise positions 0..n_cond-1 (= default 'index' values)
        if spec['pat']['by'] != 'index':
            if [S._plain(v) for v in vals] != list(range(side['n_cond'])):
                _v('%s: pattern index %s, expected all conditions 0..%d' % (
                    what, [S._plain(v) for v in vals], side['n_cond'] - 1), 'idx-mismatch:' + gen)


def check_sets(case, out, req, side):
    gen = case['gen']
    fn, dims, exhaustive = GENS[gen]
    spec = case['stack']
    require(isinstance(out, tuple) and len(out) == 3, '%s returned %r' % (fn.__name__, type(out)),
            'return-shape:' + gen)
    train_set, test_set, ceil_set = out
    require(len(train_set) == len(test_set) and len(test_set) >= 1,
            '%s: %d training sets, %d test sets' % (fn.__name__, len(train_set), len(test_set)),
            'n-folds:' + gen)
    if ceil_set is not None:
        require(len(ceil_set) == len(test_set), '%s: %d ceiling sets for %d test sets' % (
            fn.__name__, len(ceil_set), len(test_set)), 'n-folds:' + gen)
    all_r = _gset(side['rgroup'])
    all_p = _gset(side['pgroup'])
    everything = {'rdm': all_r, 'pat': all_p}
    # which dimensions are really cross-validated in this call
    cv = {'rdm': 'rdm' in dims, 'pat': 'pat' in dims}
    if gen in ('k_fold', 'k_fold_rdm') and req['k_rdm'] <= 1:
        cv['rdm'] = False
    if gen in ('k_fold', 'k_fold_pattern') and req['k_pat'] <= 1:
        cv['pat'] = False
    if gen == 'random':
        cv['rdm'] = req['n_rdm'] > 0
        cv['pat'] = req['n_pat'] > 0
    if gen == 'loo_rdm' and req['g_r'] == 1:
        cv['rdm'] = False           # documented: a single group is returned as train = test
    if gen == 'of_k_rdm' and req['g_r'] // req['size_rdm'] <= 1:
        cv['rdm'] = False
    if gen == 'of_k_pattern' and req['g_p'] // req['size_pat'] <= 1:
        cv['pat'] = False
    folds = []
    for f in range(len(test_set)):
        for s_, nm in ((train_set, 'train'), (test_set, 'test')):
            require(len(s_[f]) == 2, '%s: %s_set[%d] has %d elements' % (fn.__name__, nm, f, len(s_[f])),
                    'return-shape:' + gen)
        tr = inspect_object(train_set[f][0], side, 'train_set[%d]' % f, gen)
        te = inspect_object(test_set[f][0], side, 'test_set[%d]' % f, gen)
        check_idx(train_set[f][1], tr, side, 'train_set[%d]' % f, gen, dims, spec)
        check_idx(test_set[f][1], te, side, 'test_set[%d]' % f, gen, dims, spec)
        for dim in ('rdm', 'pat'):
            nm = 'RDM' if dim == 'rdm' else 'condition'
            if cv[dim]:
                both = tr[dim] & te[dim]
                if both:
                    _v('fold %d: %s groups %s are in the training and in the test set' % (
                        f, nm, sorted(v for _, v in both)), 'overlap:%s:%s' % (dim, gen))
                if (tr[dim] | te[dim]) != everything[dim]:
                    _v('fold %d: %s groups %s are neither in the training nor in the test set' % (
                        f, nm, sorted(v for _, v in everything[dim] - tr[dim] - te[dim])),
                       'train-not-complement:%s:%s' % (dim, gen))
                require(len(te[dim]) >= 1 and len(tr[dim]) >= 1,
                        'fold %d: empty %s side' % (f, nm), 'empty-side:%s:%s' % (dim, gen))
                if gen.startswith('loo'):
                    require(len(te[dim]) == 1, 'leave-one-out fold %d tests %d %s groups' % (
                        f, len(te[dim]), nm), 'fold-sizes:%s:%s' % (dim, gen))
            else:
                # "not cross-validated" = both sides hold everything; documented for sets_k_fold,
                # sets_k_fold_pattern (k=1), sets_random (n=0) and the single-group leave-one-out.
                # sets_k_fold_rdm(k_rdm=1) / of_k hand out an empty training set instead, which
                # crossval skips: nothing is promised there, only the test side is checked
                tr_all = tr[dim] if (gen in ('k_fold', 'k_fold_pattern', 'random', 'loo_rdm')
                                     or dim not in dims) else everything[dim]
                if te[dim] != everything[dim] or tr_all != everything[dim]:
                    _v('fold %d: %s dimension is not cross-validated but training has groups %s and '
                       'test has %s of %s' % (f, nm, sorted(v for _, v in tr[dim]),
                                              sorted(v for _, v in te[dim]),
                                              sorted(v for _, v in everything[dim])),
                       'not-cv-incomplete:%s:%s' % (dim, gen))
        if ceil_set is not None:
            require(len(ceil_set[f]) == 2, 'ceil_set[%d] has %d elements' % (f, len(ceil_set[f])),
                    'return-shape:' + gen)
            ce = inspect_object(ceil_set[f][0], side, 'ceil_set[%d]' % f, gen)
            if sorted(ce['rdm_ids']) != sorted(tr['rdm_ids']):
                _v('ceil_set[%d] holds RDMs %s, the training RDMs are %s' % (
                    f, sorted(ce['rdm_ids']), sorted(tr['rdm_ids'])), 'ceil-rdms:' + gen)
            if sorted(ce['pat_ids']) != sorted(te['pat_ids']):
                _v('ceil_set[%d] holds conditions %s, the test conditions are %s' % (
                    f, sorted(ce['pat_ids']), sorted(te['pat_ids'])), 'ceil-conditions:' + gen)
            if 'pat' in dims:
                if [_key(v) for v in ceil_set[f][1]] != [_key(v) for v in test_set[f][1]]:
                    _v('ceil_set[%d] advertises %s, test_set advertises %s' % (
                        f, list(ceil_set[f][1]), list(test_set[f][1])), 'ceil-idx:' + gen)
            else:
                check_idx(ceil_set[f][1], ce, side, 'ceil_set[%d]' % f, gen, dims, spec)
        folds.append((tr, te))
    # --- across folds
    n = len(folds)
    if gen == 'random':
        require(n == req['n_cv'], 'sets_random: %d folds for n_cv=%d' % (n, req['n_cv']),
                'n-folds:random')
        for f, (tr, te) in enumerate(folds):
            if cv['rdm']:
                require(len(te['rdm']) == req['n_rdm'], 'fold %d: %d test RDM groups, n_rdm=%d' % (
                    f, len(te['rdm']), req['n_rdm']), 'test-size:rdm:random')
            if cv['pat']:
                require(len(te['pat']) == req['n_pat'], 'fold %d: %d test condition groups, '
                        'n_pattern=%d' % (f, len(te['pat']), req['n_pat']), 'test-size:pat:random')
        return folds
    # exhaustive schemes: requested number of folds
    if gen.startswith('k_fold'):
        want = req.get('k_rdm', 1) * req.get('k_pat', 1)
        require(n == want, '%s: %d folds, requested %d' % (fn.__name__, n, want), 'n-folds:' + gen)
    # every (RDM group, condition group) cell in exactly one test fold
    cells = {}
    for f, (tr, te) in enumerate(folds):
        for a in te['rdm']:
            for b in te['pat']:
                cells.setdefault((a, b), []).append(f)
    for a in all_r:
        for b in all_p:
            fs = cells.get((a, b), [])
            if len(fs) != 1:
                what = []
                if 'rdm' in dims:
                    what.append('RDM group %r' % (a[1],))
                if 'pat' in dims:
                    what.append('condition group %r' % (b[1],))
                _v('%s is in the test sets of folds %s (must be exactly one)' % (
                    ' x '.join(what), fs), 'coverage:' + gen)
    # fold sizes (in groups) differ by at most one, per dimension
    if cv['rdm']:
        blocks = {}
        for tr, te in folds:
            blocks.setdefault(te['rdm'], []).append(te['pat'])
        sizes = [len(b) for b in blocks]
        require(max(sizes) - min(sizes) <= 1, 'test folds hold %s RDM groups' % sorted(sizes),
                'fold-sizes:rdm:' + gen)
        if gen == 'of_k_rdm':
            require(min(sizes) >= req['size_rdm'], 'groups of k=%d requested, test folds hold %s RDM '
                    'groups' % (req['size_rdm'], sorted(sizes)), 'fold-sizes:rdm:' + gen)
        pat_lists = list(blocks.values())
    else:
        pat_lists = [[te['pat'] for tr, te in folds]]
    if cv['pat']:
        for pl in pat_lists:
            sizes = [len(b) for b in pl]
            require(max(sizes) - min(sizes) <= 1, 'test folds hold %s condition groups' % sorted(sizes),
                    'fold-sizes:pat:' + gen)
            if gen == 'of_k_pattern':
                require(min(sizes) >= req['size_pat'], 'groups of k=%d requested, test folds hold %s '
                        'condition groups' % (req['size_pat'], sorted(sizes)), 'fold-sizes:pat:' + gen)
    return folds


def check_sets_case(case):
    source, side = build_source(case['stack'])
    out, kw, req, rec = call_generator(case, source, side)
    check_sets(case, out, req, side)
    if not np.array_equal(np.asarray(source.dissimilarities), side['vecs'], equal_nan=True):
        _v('%s changed the dissimilarities of its input' % GENS[case['gen']][0].__name__,
           'source-mutated:' + case['gen'])


def classify_sets(case):
    spec = case['stack']
    side = S.side_table(spec)
    kw, req = resolve(case, side)
    gen = case['gen']
    dims = GENS[gen][1]
    labels = ['gen:' + gen]
    repeats = False
    for dim in dims:
        g = spec[dim]
        vals = g['values']
        rep = len(set(vals)) < len(vals)
        repeats = repeats or rep
        labels.append('%s:by=%s' % (dim, g['by']))
        labels.append('%s:%s' % (dim, 'repeated' if rep else 'unique'))
        if g['by'] != 'default':
            labels.append('%s:%s/%s' % (dim, g['kind'], g['container']))
    if spec.get('copies'):
        labels.append('bootstrap-copies')
    ks = [req.get(k) for k in ('k_rdm', 'k_pat') if req.get(k) is not None]
    for k in ('k_rdm', 'k_pat', 'n_rdm', 'n_pat', 'size_rdm', 'size_pat'):
        if k in req:
            labels.append('%s=%s' % (k, min(req[k], 4) if req[k] < 4 else '4+'))
    if 'random' in kw:
        labels.append('random' if kw['random'] else 'ordered')
    if case['params']['none_rdm'] or case['params']['none_pat']:
        labels.append('default-k')
    if not any(k.endswith('descriptor') for k in kw):
        labels.append('default-descriptor-args')
    multi = True
    if gen.startswith('k_fold'):
        multi = max(ks) >= 2
    if gen == 'random':
        multi = req['n_rdm'] > 0 or req['n_pat'] > 0
    if gen == 'loo_rdm':
        multi = req['g_r'] >= 2
    return labels, bool(multi and repeats)
