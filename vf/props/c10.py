"""C10 - RDM container operations never change which value belongs to which pair.

A case is a *family* of RDMs objects over the same conditions (hidden ids `_rid`, `_cid`,
see vf/ident_rdm.py) plus a history: a list of op records with abstract arguments
(pool positions counted from the newest object, indices modulo the current size, bit masks
over the distinct descriptor values, permutation seeds).  `check(case)` interprets the
history against a pool of live rsatoolbox RDMs objects and a reference model that knows
only ids; the identity invariant is asserted after every step and every pool member that
was not the target of an in-place operation must keep its fingerprint.
"""
import contextlib
from copy import deepcopy
import io
import itertools
from collections import Counter
from unittest import mock

import numpy as np
from hypothesis import strategies as st

from vf import core
from vf import ident_rdm as idr
from vf.core import SubCheck, Enumeration, Violation, lib, require
from vf.ident_rdm import RID, CID, norm, same_value
from vf.props import c10_ops as ops_gen

from rsatoolbox.rdm import rdms as R
from rsatoolbox.rdm.rdms import RDMs
from rsatoolbox.rdm.combine import from_partials

MAX_RDM = 12
MAX_COND = 9

RULE = ("Hypothesis draws a family of 1-3 RDMs objects over the same 1-6 conditions (n_rdm 1-4; "
        "values identity-encoding / dyadic grid / small ints, NaN entries in a quarter of the "
        "members; 0-2 user pattern and rdm descriptors of type str/int, with and without duplicate "
        "values, held in lists or arrays; an object-level descriptor equal or differing between "
        "members; members list the conditions in different orders; constructor fed with vectors, "
        "matrices or a 1-D vector) and a history of 1-25 (history_long: 20-50) op records with "
        "abstract arguments (pool position counted from the newest object, indices modulo the "
        "current size, bit masks over the distinct descriptor values, permutation seeds) over 16 "
        "operation kinds under four op-weight profiles; check(case) interprets the history against "
        "the live objects and an id-only reference model and asserts the hidden-identity invariant "
        "after every step. Non-trivial: the history executed >=2 structural ops of different kinds "
        "including one effective re-ordering (reorder, sort_by, permute_rdms with a non-identity "
        "permutation, concat of objects in differing order) in a family with >=3 conditions; "
        "distinct by SHA1 of the case. Exhaustive: all op sequences of length <=2 (quick) / <=3 "
        "(thorough) from a fixed menu of 36 op instances on a 2x3 object with a 1-RDM sibling in "
        "another condition order; n_cond recovery through the constructor for every n in 1..2000 "
        "(full vector<->matrix comparison up to n=120 and at 8 larger sizes).")

ASSUMPTIONS = [
    "the library-managed 'index' descriptors and the 'p_inv' gimmick entry are not asserted "
    "(only used as selection keys with their current values)",
    "order is asserted only where documented: reorder/permute (given order), sort_by (sorted, "
    "stable), subset/subset_pattern/__getitem__/iteration (source order), append/concat "
    "(argument order, conditions of the first object), from_partials with explicit all_patterns; "
    "subsample, subsample_pattern and from_partials' default pattern list are compared as multisets",
    "concat / from_partials / append are exercised on objects with the same descriptor keys and "
    "the same measure (what all in-tree callers pass); concat of objects in differing condition "
    "order needs a unique-valued pattern descriptor; append partners list the conditions in the "
    "same order (the doc says their pattern descriptors are ignored)",
    "from_partials: only the expansion descriptor and the rdm descriptors must survive; partials "
    "have unique values in the expansion descriptor",
    "sort_by with an explicit list is generated only for unique-valued descriptors (an explicit "
    "order over duplicate labels is ambiguous); slices, boolean masks and empty selections are "
    "outside the generated domain",
    "the dissimilarity_measure is not part of the property and is not asserted",
    "to_dict hands out the object's internals for saving; the dictionary round trip is made "
    "through a deep copy (serialisation boundary) - in-memory sharing of that dict is not asserted",
    "a library exception on generated (in-domain) arguments is a violation "
    "(signature raises:<op>:<type>); nothing is rejected",
]


# ---------------------------------------------------------------------------
# interpreter

class Entry:
    def __init__(self, eid, obj, model, op, parents):
        self.eid = eid
        self.obj = obj
        self.model = model
        self.op = op
        self.parents = tuple(parents)
        self.fp = idr.fingerprint(obj)


class Skip(Exception):
    """op not applicable to the current pool (counted, never an alarm)"""


def perm_from_seed(seed, n):
    """abstract permutation: rank of the (cyclically repeated) seed values, ties by position"""
    seed = list(seed) or [0]
    keys = [(seed[i % len(seed)], i) for i in range(n)]
    return [i for _, i in sorted(keys)]


def distinct(values):
    out = []
    for v in values:
        v = norm(v)
        if not any(same_value(v, w) for w in out):
            out.append(v)
    return out


def by_mask(values, mask):
    """non-empty sub-list of `values` selected by the bits of mask"""
    k = len(values)
    m = mask % (2 ** k - 1) + 1 if k > 0 else 0
    return [v for b, v in enumerate(values) if (m >> b) & 1]


def pick_values(dvals, rec):
    """values to select: one value for the scalar call form, else a non-empty sub-list"""
    if rec['vform'] == 'scalar':
        return [dvals[rec['mask'] % len(dvals)]]
    return by_mask(dvals, rec['mask'])


def positions(desc, value):
    return [p for p, d in enumerate(desc) if same_value(d, value)]


def as_value(vals, vform):
    vals = [norm(v) for v in vals]
    if vform == 'scalar' and len(vals) == 1:
        return vals[0]
    if vform == 'array':
        return np.array(vals)
    if vform == 'tuple':
        return tuple(vals)
    return list(vals)


def absent_value(known):
    """a value of the same kind that is not among `known` and sorts below the largest one"""
    if not known:
        return None
    if all(isinstance(v, str) for v in known):
        cand = min(known) + '!'
        return cand if cand not in known and cand < max(known) else None
    if all(isinstance(v, (int, float)) and not isinstance(v, bool) for v in known):
        lo, hi = min(known), max(known)
        cand = lo - 1 if len(set(known)) == 1 else None
        for a in sorted(set(known)):
            c = a + 1
            if c not in known and c < hi:
                return type(a)(c)
        return cand if cand is not None and cand not in known else None
    return None


def sort_key(v):
    v = norm(v)
    return v


def same_odesc(a, b):
    if set(a) != set(b):
        return False
    return all(same_value(a[k], b[k]) for k in a)


class Run:
    def __init__(self, case):
        self.case = case
        self.fam = case['fam']
        self.side = idr.Side()
        self.pool = []
        self.labels = Counter()
        self.kinds = []          # executed op kinds
        self.reordering = False
        self.next_eid = 0

    # -- pool -------------------------------------------------------------
    def add(self, obj, model, op, parents=(), ordered_rows=True, ordered_conds=True):
        model.origin = (op, tuple(parents))
        idr.check_object(obj, model, self.side, op, ordered_rows, ordered_conds)
        e = Entry(self.next_eid, obj, model, op, parents)
        self.next_eid += 1
        self.pool.append(e)
        # the export forms are part of the invariant: the memory layout an operation leaves
        # behind (views, column-major slices) must not change what the export says
        if model.conds and len(model.conds) >= 2 and model.rows:
            self.check_df(e)
        return e

    def src(self, k):
        return self.pool[-1 - (k % len(self.pool))]

    def ancestors(self, e):
        """eid -> op label of the child of that ancestor on the path down to e"""
        byid = {x.eid: x for x in self.pool}
        out = {}
        stack = [(e, e.op)]
        while stack:
            x, _ = stack.pop()
            for p in x.parents:
                if p not in out and p in byid:
                    out[p] = x.op
                    stack.append((byid[p], x.op))
        return out

    def verify_bystanders(self, op, target=None, sources=()):
        """every pool member except the target of an in-place op keeps its fingerprint"""
        for e in self.pool:
            if e is target:
                continue
            fp = idr.fingerprint(e.obj)
            if fp == e.fp:
                continue
            what = idr.fingerprint_diff(e.fp, fp)
            if target is not None:
                up = self.ancestors(target)
                down = self.ancestors(e)
                if e.eid in up:
                    rel = up[e.eid]
                elif target.eid in down:
                    rel = down[target.eid]
                else:
                    rel = 'other'
                raise Violation(
                    'in-place %s on object #%d (made by %s) changed object #%d (made by %s): %s' % (
                        op, target.eid, target.op, e.eid, e.op, what),
                    'shared-descriptors:' + rel)
            if any(e is s for s in sources):
                raise Violation('%s changed its argument #%d: %s' % (op, e.eid, what),
                                'mutates-args:' + op)
            raise Violation('%s changed unrelated object #%d: %s' % (op, e.eid, what),
                            'bystander:' + op)

    # -- run ----------------------------------------------------------------
    def run(self):
        fam = self.fam
        for k in range(len(fam['members'])):
            obj, model = idr.build_member(fam, k, self.side)
            if self.case.get('stored_dtype'):
                obj = self.restore(obj, self.case['stored_dtype'])
            self.add(obj, model, 'constructor')
        for rec in self.case['ops']:
            name = rec['op']
            try:
                getattr(self, 'op_' + name)(rec)
            except Skip as s:
                self.labels['skipped:%s:%s' % (name, s)] += 1
                continue
            self.kinds.append(name)
        return self

    def restore(self, obj, dtype):
        """the same object with its vectors stored in another dtype (the constructor keeps the
        dtype of 2-D vector input: bool / small-int model RDMs, float32 data); the values of
        such a family are exactly representable in that dtype"""
        vecs = np.asarray(obj.dissimilarities)
        cast = vecs.astype(dtype)
        assert np.array_equal(cast.astype(float), vecs.astype(float), equal_nan=True)
        d, r, p = idr.deep_descriptors(obj)
        return self.call('constructor', RDMs, cast,
                         dissimilarity_measure=obj.dissimilarity_measure,
                         descriptors=d, rdm_descriptors=r, pattern_descriptors=p)

    # -- helpers --------------------------------------------------------------
    def rdm_keys(self, e):
        return [None, RID] + [k for k in e.model.rlevel if k not in idr.IGNORED_KEYS]

    def pat_keys(self, e):
        return [None, CID] + list(e.model.pkeys)

    def call(self, op, fn, *a, **kw):
        """library call with in-domain arguments: an exception is a violation
        (signature = call site + exception type)"""
        try:
            return fn(*a, **kw)
        except (Violation, core.Reject, core.Inconclusive):
            raise
        except Exception as e:  # noqa: BLE001
            raise Violation('%s raised %s: %s' % (op, type(e).__name__, e),
                            'raises:%s:%s' % (op, type(e).__name__))

    # -- indexing / iteration ---------------------------------------------------
    def op_getitem(self, rec):
        e = self.src(rec['src'])
        n = e.obj.n_rdm
        idx = [i % n for i in rec['idx']]
        if rec.get('neg'):
            idx = [i - n if b % 2 else i for b, i in enumerate(idx)]
        form = rec['form']
        if form == 'int':
            arg, idx = idx[0], idx[:1]
        elif form == 'npint':
            arg, idx = np.int64(idx[0]), idx[:1]
        elif form == 'array':
            arg = np.array(idx)
        elif form == 'tuple':
            arg = tuple(idx)
        else:
            arg = list(idx)
        op = 'getitem:' + ('int' if form in ('int', 'npint') else 'list')
        if e.obj.n_rdm and len(idx) > MAX_RDM:
            raise Skip('size-cap')
        res = self.call(op, e.obj.__getitem__, arg)
        model = e.model.clone(rows=[e.model.rows[i] for i in idx])
        self.add(res, model, op, [e.eid])
        self.verify_bystanders(op, sources=[e])

    def op_iter(self, rec):
        e = self.src(rec['src'])
        op = 'iter'
        if rec.get('rev'):
            items = self.call(op, lambda: list(reversed(e.obj)))
            rows = list(reversed(e.model.rows))
        else:
            items = self.call(op, lambda: list(e.obj))
            rows = list(e.model.rows)
        require(len(items) == len(rows), 'iteration yields %d items for %d RDMs' % (
            len(items), len(rows)), 'iter:count')
        for it, row in zip(items, rows):
            idr.check_object(it, e.model.clone(rows=[row]), self.side, op)
        k = rec['pick'] % len(items)
        self.add(items[k], e.model.clone(rows=[rows[k]]), op, [e.eid])
        self.verify_bystanders(op, sources=[e])

    # -- subset / subsample -------------------------------------------------------
    def _select(self, rec, level):
        e = self.src(rec['src'])
        keys = self.rdm_keys(e) if level == 'rdm' else self.pat_keys(e)
        key = keys[rec['by'] % len(keys)]
        dd = e.obj.rdm_descriptors if level == 'rdm' else e.obj.pattern_descriptors
        desc = [norm(v) for v in dd['index' if key is None else key]]
        return e, key, desc, distinct(desc)

    def op_subset(self, rec):
        e, key, desc, dvals = self._select(rec, 'rdm')
        vals = pick_values(dvals, rec)
        op = 'subset'
        pos = sorted(set(p for v in vals for p in positions(desc, v)))
        res = self.call(op, e.obj.subset, key, as_value(vals, rec['vform']))
        self.add(res, e.model.clone(rows=[e.model.rows[p] for p in pos]), op, [e.eid])
        self.verify_bystanders(op, sources=[e])

    def op_subsample(self, rec):
        e, key, desc, dvals = self._select(rec, 'rdm')
        picks = [dvals[i % len(dvals)] for i in rec['picks']]
        while len(picks) > 1 and sum(len(positions(desc, v)) for v in picks) > MAX_RDM:
            picks.pop()
        pos = [p for v in picks for p in positions(desc, v)]
        if len(pos) > MAX_RDM:
            raise Skip('size-cap')
        op = 'subsample'
        ask = list(picks)
        if len(picks) >= 1 and rec['vform'] in ('list', 'tuple') and len(rec['picks']) % 2 == 0:
            # the request may name a value that no RDM carries (e.g. an index that an earlier
            # subset removed): it selects nothing - here one that sorts between existing values
            known = [norm(v) for v in dvals]
            absent = absent_value(known)
            if absent is not None:
                ask.insert(len(ask) // 2, absent)
        res = self.call(op, e.obj.subsample, key, as_value(ask, rec['vform']))
        self.add(res, e.model.clone(rows=[e.model.rows[p] for p in pos]), op, [e.eid],
                 ordered_rows=False)
        self.verify_bystanders(op, sources=[e])

    def op_subset_pattern(self, rec):
        e, key, desc, dvals = self._select(rec, 'pattern')
        vals = pick_values(dvals, rec)
        op = 'subset_pattern'
        pos = sorted(set(p for v in vals for p in positions(desc, v)))
        val = as_value(vals, rec['vform'])
        if isinstance(val, str):
            self.labels['subset_pattern:scalar-str'] += 1
        res = self.call(op, e.obj.subset_pattern, key, val)
        self.add(res, e.model.clone(conds=[e.model.conds[p] for p in pos]), op, [e.eid])
        self.verify_bystanders(op, sources=[e])

    def op_subsample_pattern(self, rec):
        e, key, desc, dvals = self._select(rec, 'pattern')
        picks = [dvals[i % len(dvals)] for i in rec['picks']]
        while len(picks) > 1 and sum(len(positions(desc, v)) for v in picks) > MAX_COND:
            picks.pop()
        pos = sorted(p for v in picks for p in positions(desc, v))
        if len(pos) > MAX_COND:
            raise Skip('size-cap')
        op = 'subsample_pattern'
        if len(set(pos)) < len(pos):
            self.labels['subsample_pattern:repeats'] += 1
        res = self.call(op, e.obj.subsample_pattern, key, as_value(picks, rec['vform']))
        self.add(res, e.model.clone(conds=[e.model.conds[p] for p in pos]), op, [e.eid],
                 ordered_conds=False)
        self.verify_bystanders(op, sources=[e])

    # -- in-place: reorder, sort_by, append -----------------------------------------
    def op_reorder(self, rec):
        e = self.src(rec['src'])
        n = e.obj.n_cond
        p = perm_from_seed(rec['perm'], n)
        op = 'reorder'
        arg = np.array(p) if rec.get('form') == 'array' else list(p)
        self.call(op, e.obj.reorder, arg)
        e.model.conds = [e.model.conds[i] for i in p]
        idr.check_object(e.obj, e.model, self.side, op)
        if p != list(range(n)):
            self.reordering = True
        self.verify_bystanders(op, target=e)
        e.fp = idr.fingerprint(e.obj)

    def op_sort_by(self, rec):
        e = self.src(rec['src'])
        keys = self.pat_keys(e)
        key = keys[rec['by'] % len(keys)]
        name = 'index' if key is None else key
        desc = [norm(v) for v in e.obj.pattern_descriptors[name]]
        n = len(desc)
        method = rec['method']
        dups = len(distinct(desc)) < n
        if method != 'alpha' and dups and not rec.get('probe_duplicates'):
            # an explicit order over duplicate labels is ambiguous: excluded by construction
            self.labels['diverted:sort_by-list-on-duplicates'] += 1
            method = 'alpha'
        if method == 'alpha':
            op = 'sort_by:alpha'
            order = sorted(range(n), key=lambda i: (sort_key(desc[i]), i))   # sorted and stable
            arg = 'alpha'
            if dups:
                self.labels['sort_by:alpha-with-ties'] += 1
        else:
            op = 'sort_by:' + ('array' if method == 'array' else 'list')
            if dups:
                op = 'sort_by:list-duplicates'     # only reachable from the probe file
            order = perm_from_seed(rec['perm'], n)
            wanted = [desc[i] for i in order]
            arg = np.array(wanted) if method == 'array' else list(wanted)
        kwargs = {name: arg}
        # optional second key in the same call: applied one after the other (documented loop)
        if rec.get('then') is not None and not dups:
            key2 = keys[rec['then'] % len(keys)]
            name2 = 'index' if key2 is None else key2
            if name2 != name and name2 != 'index':
                desc2 = [norm(e.obj.pattern_descriptors[name2][i]) for i in order]
                second = sorted(range(n), key=lambda i: (sort_key(desc2[i]), i))
                order = [order[i] for i in second]
                kwargs[name2] = 'alpha'
                self.labels['sort_by:two-keys'] += 1
        self.call(op, e.obj.sort_by, reindex=bool(rec.get('reindex', True)), **kwargs)
        e.model.conds = [e.model.conds[i] for i in order]
        idr.check_object(e.obj, e.model, self.side, op)
        if order != list(range(n)):
            self.reordering = True
        if rec.get('reindex', True):
            require([norm(v) for v in e.obj.pattern_descriptors['index']] == list(range(n)),
                    'sort_by(reindex=True) left index %s' % (e.obj.pattern_descriptors['index'],),
                    'sort_by:reindex')
        self.verify_bystanders(op, target=e)
        e.fp = idr.fingerprint(e.obj)

    def _homogeneous(self, a, b):
        return (set(a.model.rlevel) == set(b.model.rlevel)
                and set(a.model.pkeys) == set(b.model.pkeys)
                and set(a.model.rkeys) == set(b.model.rkeys)
                and set(a.model.odesc) == set(b.model.odesc)
                and same_value(a.model.odesc.get('p_inv', 0), b.model.odesc.get('p_inv', 0))
                and a.model.measure == b.model.measure)

    def op_append(self, rec):
        e = self.src(rec['src'])
        cand = [x for x in self.pool if x.model.conds == e.model.conds
                and self._homogeneous(e, x) and same_odesc(e.model.odesc, x.model.odesc)]
        other = cand[rec['other'] % len(cand)]
        if e.obj.n_rdm + other.obj.n_rdm > MAX_RDM:
            raise Skip('size-cap')
        op = 'append'
        if other is e:
            self.labels['append:self'] += 1
        new_rows = list(e.model.rows) + list(other.model.rows)
        self.call(op, e.obj.append, other.obj)
        e.model.rows = new_rows
        idr.check_object(e.obj, e.model, self.side, op)
        e.parents = tuple(e.parents) + (other.eid,)
        self.verify_bystanders(op, target=e)
        e.fp = idr.fingerprint(e.obj)

    # -- concat / from_partials ---------------------------------------------------------
    def _merge_desc(self, entries):
        """object-level descriptors that agree stay, the others become rdm-level"""
        first = entries[0].model
        odesc, demoted = {}, []
        for k, v in first.odesc.items():
            if all(same_value(x.model.odesc[k], v) for x in entries[1:]):
                odesc[k] = v
            else:
                demoted.append(k)
        rlevel = list(first.rlevel) + [k for k in demoted if k not in first.rlevel]
        return odesc, rlevel

    def op_concat(self, rec):
        first = self.src(rec['src'])
        fm = first.model
        cand = [x for x in self.pool if self._homogeneous(first, x)
                and Counter(x.model.conds) == Counter(fm.conds)
                and (x.model.conds == fm.conds or fm.unique_conds())]
        # partners that list the conditions in another order come first (small indices)
        cand = ([x for x in cand if x.model.conds != fm.conds]
                + [x for x in cand if x.model.conds == fm.conds])
        others = [cand[i % len(cand)] for i in rec['others']]
        while others and first.obj.n_rdm + sum(o.obj.n_rdm for o in others) > MAX_RDM:
            others.pop()
        entries = [first] + others
        single = len(entries) == 1
        op = 'concat:single' if single else 'concat'
        kw = {}
        uniq = [k for k in [CID] + list(fm.pkeys)
                if len(distinct(first.obj.pattern_descriptors[k])) == first.obj.n_cond]
        if rec.get('target', 0) and uniq:
            kw['target_pdesc'] = uniq[(rec['target'] - 1) % len(uniq)]
            self.labels['concat:target_pdesc'] += 1
        differing = any(o.model.conds != fm.conds for o in others)
        if differing:
            self.labels['concat:differing-order'] += 1
            # which descriptor will the library align on, and how is it stored?
            names = [k for k in first.obj.pattern_descriptors if k != 'index'
                     and len(distinct(first.obj.pattern_descriptors[k])) == first.obj.n_cond]
            al = kw.get('target_pdesc', names[0] if names else None)
            if al is not None:
                self.labels['concat:align-on-%s' % type(
                    first.obj.pattern_descriptors[al]).__name__] += 1
        objs = [x.obj for x in entries]
        form = rec.get('form', 'varargs')
        if form == 'list':
            res = self.call(op, R.concat, list(objs), **kw)
        elif form == 'tuple':
            res = self.call(op, R.concat, tuple(objs), **kw)
        else:
            res = self.call(op, R.concat, *objs, **kw)
        odesc, rlevel = self._merge_desc(entries)
        model = fm.clone(rows=[r for x in entries for r in x.model.rows], odesc=odesc,
                         rlevel=rlevel)
        self.add(res, model, op, [x.eid for x in entries])
        if differing:
            self.reordering = True
        self.verify_bystanders(op, sources=entries)

    def op_from_partials(self, rec):
        first = self.src(rec['src'])
        fam_unique = [d['name'] for d in self.fam['pdesc']
                      if len(distinct(d['values'])) == len(d['values'])]
        bys = [CID] + [k for k in first.model.pkeys if k in fam_unique]
        by = bys[rec['by'] % len(bys)]
        cand = [x for x in self.pool if x.model.unique_conds() and self._homogeneous(first, x)]
        if first not in cand:
            raise Skip('duplicate-conditions')
        # partners covering another set of conditions come first (small indices)
        fset = set(first.model.conds)
        cand = ([x for x in cand if set(x.model.conds) != fset]
                + [x for x in cand if set(x.model.conds) == fset])
        others = [cand[i % len(cand)] for i in rec['others']]
        while others and first.obj.n_rdm + sum(o.obj.n_rdm for o in others) > MAX_RDM:
            others.pop()
        entries = [first] + others
        op = 'from_partials'
        union = []
        for x in entries:
            for c in x.model.conds:
                if c not in union:
                    union.append(c)
        kw = {}
        ordered = False
        conds = list(union)
        if rec.get('all') is not None:
            fc = idr.family_cids(self.fam)
            extra = [c for b, c in enumerate(c for c in fc if c not in union)
                     if (rec['all']['extra'] >> b) & 1]
            full = union + extra
            conds = [full[i] for i in perm_from_seed(rec['all']['perm'], len(full))]
            if by == CID:
                kw['all_patterns'] = list(conds)
            else:
                kw['all_patterns'] = [self.side.pdesc[c][by] for c in conds]
            ordered = True
            self.labels['from_partials:all_patterns' + ('+extra' if extra else '')] += 1
        if any(set(x.model.conds) != set(conds) for x in entries):
            self.labels['from_partials:really-partial'] += 1
        res = self.call(op, from_partials, [x.obj for x in entries], descriptor=by, **kw)
        require(isinstance(res, RDMs), 'from_partials returned %s' % type(res).__name__,
                'type:from_partials')
        if by != CID:
            # only the expansion descriptor survives (documented); re-attach the ids it stands for
            require(by in res.pattern_descriptors, 'from_partials lost its expansion descriptor',
                    'pdesc-dropped:from_partials')
            back = {}
            for c, dd in self.side.pdesc.items():
                back[dd[by]] = c
            try:
                res.pattern_descriptors[CID] = [back[norm(v)] for v in res.pattern_descriptors[by]]
            except KeyError as err:
                raise Violation('from_partials: unknown value %s in expansion descriptor %s' % (
                    err, res.pattern_descriptors[by]), 'pdesc:from_partials')
        rows = []
        for x in entries:
            sup_x = frozenset(x.model.conds)
            for rid, sup in x.model.rows:
                rows.append((rid, sup_x if sup is None else frozenset(sup & sup_x)))
        odesc, rlevel = self._merge_desc(entries)
        model = first.model.clone(rows=rows, conds=conds, pkeys=() if by == CID else (by,),
                                  odesc=odesc, rlevel=rlevel)
        self.add(res, model, op, [x.eid for x in entries], ordered_conds=ordered)
        self.verify_bystanders(op, sources=entries)

    # -- copies and conversions --------------------------------------------------------
    def op_copy(self, rec):
        e = self.src(rec['src'])
        res = self.call('copy', e.obj.copy)
        self.add(res, e.model.clone(), 'copy', [e.eid])
        self.verify_bystanders('copy', sources=[e])

    def op_dict(self, rec):
        e = self.src(rec['src'])
        op = 'dict'
        d = self.call(op, e.obj.to_dict)
        # to_dict hands out the internals "to be saved to disk"; the serialisation boundary
        # is simulated by a deep copy (in-memory sharing of that dict is not a finding)
        res = self.call(op, R.rdms_from_dict, deepcopy(d))
        self.add(res, e.model.clone(), op, [e.eid])
        self.verify_bystanders(op, sources=[e])

    def op_matrices(self, rec):
        """constructor from the square form vs from the vector form"""
        e = self.src(rec['src'])
        op = 'matrices'
        mats = self.call(op, e.obj.get_matrices)
        vecs = self.call(op, e.obj.get_vectors)
        d1, r1, p1 = idr.deep_descriptors(e.obj)
        d2, r2, p2 = idr.deep_descriptors(e.obj)
        a = self.call(op, RDMs, np.array(mats), dissimilarity_measure=e.obj.dissimilarity_measure,
                      descriptors=d1, rdm_descriptors=r1, pattern_descriptors=p1)
        # b is built on the very array get_vectors() handed out (the constructor's documented
        # role is to store the caller's array): two live objects on one buffer. An in-place
        # operation on either must still change only the object it is called on.
        b = self.call(op, RDMs, vecs, dissimilarity_measure=e.obj.dissimilarity_measure,
                      descriptors=d2, rdm_descriptors=r2, pattern_descriptors=p2)
        idr.check_object(b, e.model.clone(), self.side, op)
        self.add(a, e.model.clone(), op, [e.eid])
        self.add(b, e.model.clone(), op, [e.eid])
        require(idr.fingerprint(a) == idr.fingerprint(b),
                'constructor from matrices and from vectors disagree: %s' % idr.fingerprint_diff(
                    idr.fingerprint(a), idr.fingerprint(b)), 'forms:constructor')
        self.verify_bystanders(op, sources=[e])

    def op_df(self, rec):
        e = self.src(rec['src'])
        self.check_df(e)
        self.verify_bystanders('to_df', sources=[e])

    def check_df(self, e):
        """DataFrame export of one pool member describes the same (RDM, pair) -> value table"""
        op = 'to_df'
        df = self.call(op, e.obj.to_df)
        m = e.model
        n = len(m.conds)
        pairs = idr.pair_index(n)
        require(len(df) == len(m.rows) * len(pairs), 'to_df: %d rows for %d RDMs x %d pairs' % (
            len(df), len(m.rows), len(pairs)), 'df:rows')
        want = Counter()
        for rid, sup in m.rows:
            vec = self.side.expected_vector(rid, sup, m.conds)
            for k, (i, j) in enumerate(pairs):
                want[(rid, tuple(sorted((m.conds[i], m.conds[j]))), _vkey(vec[k]))] += 1
        if len(df) == 0:
            return
        for col in ['dissimilarity', RID, CID + '_1', CID + '_2']:
            require(col in df.columns, 'to_df: column %r missing (%s)' % (col, list(df.columns)),
                    'df:columns')
        got = Counter()
        recs = df.to_dict('records')
        for row in recs:
            rid, c1, c2 = norm(row[RID]), norm(row[CID + '_1']), norm(row[CID + '_2'])
            got[(rid, tuple(sorted((c1, c2))), _vkey(row['dissimilarity']))] += 1
            for key in m.rlevel:
                if key in idr.IGNORED_KEYS:
                    continue
                require(key in row and same_value(row[key], self.side.rdesc[rid][key]),
                        'to_df: row of RDM %r has %s=%r, the RDM had %r' % (
                            rid, key, row.get(key), self.side.rdesc.get(rid, {}).get(key)),
                        'df:rdesc')
            for key in m.pkeys:
                for c, suf in ((c1, '_1'), (c2, '_2')):
                    require(key + suf in row and same_value(row[key + suf], self.side.pdesc[c][key]),
                            'to_df: condition %r has %s%s=%r, it had %r' % (
                                c, key, suf, row.get(key + suf),
                                self.side.pdesc.get(c, {}).get(key)), 'df:pdesc')
        if got != want:
            miss = list((want - got).items())[:3]
            extra = list((got - want).items())[:3]
            raise Violation('to_df rows (rid, pair, value) differ from the object: missing %s, '
                            'unexpected %s' % (miss, extra), 'df:value')

    def op_permute(self, rec):
        e = self.src(rec['src'])
        n = e.obj.n_cond
        p = perm_from_seed(rec['perm'], n)
        op = 'permute_rdms'
        if rec.get('mode') == 'none':
            self.labels['permute:p=None'] += 1
            with mock.patch('numpy.random.permutation', side_effect=lambda k: np.array(p)), \
                    contextlib.redirect_stdout(io.StringIO()):
                res = self.call(op, R.permute_rdms, e.obj)
        else:
            res = self.call(op, R.permute_rdms, e.obj, np.array(p, dtype=int))
        # 'a permuted matrix and pattern descriptors': the 'index' entries move with their conditions
        # like every other pattern descriptor (compared as text: the function stores them as strings)
        src_index = [str(norm(v)) for v in e.obj.pattern_descriptors['index']]
        got_index = [str(norm(v)) for v in res.pattern_descriptors['index']]
        require(got_index == [src_index[i] for i in p],
                "permute_rdms(%s): 'index' of the result is %s, the source's index %s permuted alike is %s"
                % (p, got_index, src_index, [src_index[i] for i in p]), 'pdesc:permute_rdms:index')
        odesc = dict(e.model.odesc)
        odesc['p_inv'] = [int(i) for i in np.argsort(p)]
        model = e.model.clone(conds=[e.model.conds[i] for i in p], odesc=odesc)
        new = self.add(res, model, op, [e.eid])
        if p != list(range(n)):
            self.reordering = True
        if rec.get('inverse'):
            op2 = 'inverse_permute_rdms'
            back = self.call(op2, R.inverse_permute_rdms, res)
            idr.check_object(back, e.model.clone(odesc=odesc), self.side, op2)
        self.verify_bystanders(op, sources=[e, new])


def _vkey(x):
    x = float(x)
    return 'nan' if x != x else repr(x + 0.0)


STRUCTURAL = ('getitem', 'iter', 'subset', 'subsample', 'subset_pattern', 'subsample_pattern',
              'reorder', 'sort_by', 'append', 'concat', 'from_partials', 'permute', 'copy',
              'dict', 'matrices', 'df')

# one-slot memo so that classify (dynamic labels) and check share one interpretation
_memo = {'key': None, 'labels': None, 'nt': None, 'exc': None}


def _interpret(case):
    run = Run(case)
    exc = None
    try:
        run.run()
    except (Violation, core.Reject, core.Inconclusive) as e:
        exc = e
    fam = case['fam']
    labels = ['n_cond=%d' % fam['n_cond'], 'members=%d' % len(fam['members']),
              'pcont:' + '/'.join(sorted({m['pcont'] for m in fam['members']})),
              'rcont:' + '/'.join(sorted({m['rcont'] for m in fam['members']}))]
    for d in fam['pdesc']:
        labels.append('pdesc:%s:%s' % (d.get('kind', '?'),
                                       'dups' if len(set(d['values'])) < len(d['values']) else 'unique'))
    if any(v != v for m in fam['members'] for row in m['vals'] for v in row):
        labels.append('values:nan')
    labels += ['form:' + m.get('form', 'vec2d') for m in fam['members']]
    if case.get('stored_dtype'):
        labels.append('stored:' + case['stored_dtype'])
    kinds = set(run.kinds)
    labels += ['op:' + k for k in sorted(kinds)]
    labels.append('len:%s' % ('1-3' if len(run.kinds) <= 3 else '4-10' if len(run.kinds) <= 10
                              else '11-25' if len(run.kinds) <= 25 else '26+'))
    for k, v in run.labels.items():
        labels += [k] * v
    nt = (fam['n_cond'] >= 3 and len(kinds & set(STRUCTURAL)) >= 2 and run.reordering)
    if run.reordering:
        labels.append('reordering')
    return labels, nt, exc


def _get(case):
    key = core.case_json(case)
    if _memo['key'] != key:
        labels, nt, exc = _interpret(case)
        _memo.update(key=key, labels=labels, nt=nt, exc=exc)
    return _memo


def classify_history(case):
    m = _get(case)
    return m['labels'], m['nt']


def check_history(case):
    m = _get(case)
    # consume the memo: a second check() of the same case (replay, shrink) re-executes
    exc = m['exc']
    _memo['key'] = None
    if exc is not None:
        raise exc


# ---------------------------------------------------------------------------
# histories over objects whose vectors are stored in a dtype other than float64 / int64

STORED_DTYPES = ('bool', 'bool', 'float32', 'int32', 'uint8')


def _fit(v, dtype):
    """a value exactly representable in dtype, derived from the drawn one"""
    if dtype == 'float32':
        return float(np.float32(v))
    if v != v:
        return 1.0
    k = int(round(abs(v) * 4))
    if k % 4 == 0:
        k //= 4
    return float(k % 2) if dtype == 'bool' else float(k % 251)


@st.composite
def dtype_case(draw, max_ops):
    """a history case whose members store their vectors as bool / float32 / int32 / uint8;
    the history starts with a subsample_pattern that repeats a condition (the one operation
    that has to write NaN - pairs of two copies - into an object that did not hold floats)"""
    case = draw(ops_gen.history_case(max_ops, profile='selecting'))
    dtype = draw(st.sampled_from(STORED_DTYPES))
    for m in case['fam']['members']:
        m['vals'] = [[_fit(v, dtype) for v in row] for row in m['vals']]
    picks = draw(ops_gen.idx_list)
    first = dict(op='subsample_pattern', src=draw(st.integers(0, 2)), by=draw(st.integers(0, 3)),
                 picks=picks + picks[:1], vform=draw(st.sampled_from(['list', 'array', 'tuple'])))
    at = draw(st.sampled_from([0, 0, 1, 2]))
    ops = case['ops']
    case['ops'] = ops[:at] + [first] + ops[at:]
    case['stored_dtype'] = dtype
    return case


# ---------------------------------------------------------------------------
# exhaustive: short histories over a fixed menu on one small object

MENU_FAMILY = dict(
    n_cond=3, cid_first=False, measure='euclidean', has_study=True,
    pdesc=[dict(name='cond', kind='str', values=['b10', 'a', 'b']),
           dict(name='cat', kind='int', values=[7, 3, 7])],
    members=[
        dict(order=[0, 1, 2], vals=[[1.0, 2.0, 3.0], [5.0, float('nan'), 7.0]],
             rdesc=[dict(name='subj', kind='str', values=['s2', 's1'])],
             pcont='list', rcont='array', form='vec2d', study='x'),
        dict(order=[2, 0, 1], vals=[[9.0, 10.0, 11.0]],
             rdesc=[dict(name='subj', kind='str', values=['s1'])],
             pcont='array', rcont='list', form='mat3d', study='y'),
    ])

MENU = [
    dict(op='getitem', src=0, form='int', idx=[0]),
    dict(op='getitem', src=0, form='int', idx=[1], neg=False),
    dict(op='getitem', src=0, form='list', idx=[1, 0]),
    dict(op='getitem', src=0, form='array', idx=[0, 0]),
    dict(op='iter', src=0, pick=1, rev=False),
    dict(op='subset', src=0, by=2, mask=0, vform='scalar'),
    dict(op='subset', src=0, by=1, mask=2, vform='list'),
    dict(op='subset', src=0, by=0, mask=0, vform='list'),
    dict(op='subsample', src=0, by=2, picks=[1, 0, 1], vform='list'),
    dict(op='subsample', src=0, by=0, picks=[0, 0], vform='array'),
    dict(op='subset_pattern', src=0, by=2, mask=2, vform='list'),
    dict(op='subset_pattern', src=0, by=3, mask=0, vform='scalar'),
    dict(op='subset_pattern', src=0, by=0, mask=4, vform='list'),
    dict(op='subset_pattern', src=0, by=2, mask=2, vform='scalar'),
    dict(op='subsample_pattern', src=0, by=2, picks=[2, 0, 2], vform='list'),
    dict(op='subsample_pattern', src=0, by=3, picks=[0], vform='scalar'),
    dict(op='reorder', src=0, perm=[2, 0, 1], form='list'),
    dict(op='reorder', src=1, perm=[1, 0, 2], form='array'),
    dict(op='sort_by', src=0, by=2, method='alpha', perm=[], reindex=True),
    dict(op='sort_by', src=0, by=3, method='alpha', perm=[], reindex=False),
    dict(op='sort_by', src=0, by=1, method='list', perm=[1, 2, 0], reindex=True),
    dict(op='sort_by', src=0, by=2, method='array', perm=[2, 0, 1], reindex=True, then=3),
    dict(op='append', src=0, other=0),
    dict(op='append', src=0, other=1),
    dict(op='concat', src=0, others=[], form='varargs', target=0),
    dict(op='concat', src=0, others=[1], form='varargs', target=0),
    dict(op='concat', src=0, others=[0, 2], form='list', target=0),
    dict(op='concat', src=1, others=[0], form='tuple', target=1),
    dict(op='copy', src=0),
    dict(op='dict', src=0),
    dict(op='df', src=0),
    dict(op='matrices', src=0),
    dict(op='from_partials', src=0, others=[1], by=0, all=None),
    dict(op='from_partials', src=0, others=[], by=1, all=dict(perm=[1, 0], extra=1)),
    dict(op='permute', src=0, perm=[1, 2, 0], mode='given', inverse=True),
    dict(op='permute', src=1, perm=[0, 2, 1], mode='none', inverse=False),
]


def _menu_cases(max_len, part, parts):
    for length in range(1, max_len + 1):
        for seq in itertools.product(range(len(MENU)), repeat=length):
            if seq[0] % parts != part:
                continue
            yield dict(fam=MENU_FAMILY, ops=[MENU[i] for i in seq], seq=list(seq))


def _enum_short(part, parts):
    def fn(tier, seed):
        return _menu_cases(3 if tier == 'thorough' else 2, part, parts)
    return fn


# ---------------------------------------------------------------------------
# exhaustive: n_cond recovery from the vector length, every n in 1..2000

def enum_sizes(tier, seed):
    for n in range(1, 2001):
        yield dict(n=n)


FULL_MATRIX_UP_TO = 120
SPOT_SIZES = (250, 499, 500, 1000, 1414, 1415, 1999, 2000)


def check_size(case):
    n = case['n']
    length = n * (n - 1) // 2
    v = np.zeros((1, length))
    if length:
        v[0, 0], v[0, -1] = 1.0, 2.0
        v[0, length // 2] = 3.0
    obj = lib(RDMs, v, on_error='violation', sig='raises:constructor')
    require(obj.n_cond == n and obj.n_rdm == 1,
            'vector of length %d (n=%d): n_cond recovered as %r' % (length, n, obj.n_cond),
            'forms:n_cond')
    require(len(obj.pattern_descriptors['index']) == n, 'index descriptor length', 'forms:n_cond')
    if n <= FULL_MATRIX_UP_TO:
        vv = np.arange(1.0, length + 1.0)
        o1 = lib(RDMs, vv.copy(), on_error='violation', sig='raises:constructor')  # 1-D input
        require(o1.n_cond == n, '1-D vector of length %d: n_cond %r' % (length, o1.n_cond),
                'forms:n_cond')
        idr.check_forms(o1, 'constructor')
        m = o1.get_matrices()
        o2 = lib(RDMs, np.array(m), on_error='violation', sig='raises:constructor')
        require(o2.n_cond == n and np.array_equal(o2.dissimilarities, o1.dissimilarities),
                'matrix -> vector -> matrix round trip differs for n=%d' % n, 'forms:constructor')
    elif n in SPOT_SIZES:
        m = obj.get_matrices()
        require(m.shape == (1, n, n), 'get_matrices shape %r for n=%d' % (m.shape, n),
                'forms:matrix-shape:constructor')
        iu = np.triu_indices(n, 1)
        require(np.array_equal(m[0][iu], v[0]) and np.array_equal(m[0], m[0].T)
                and not np.diag(m[0]).any(),
                'square form for n=%d is not the symmetric zero-diagonal matrix of the vector' % n,
                'forms:matrix-vs-vector:constructor')


def classify_size(case):
    n = case['n']
    return (['n<=%d:full-matrix-check' % FULL_MATRIX_UP_TO if n <= FULL_MATRIX_UP_TO
             else 'n:spot-matrix-check' if n in SPOT_SIZES else 'n:size-only'], n >= 3)


# ---------------------------------------------------------------------------

_PARTS = 4

SUBCHECKS = [
    SubCheck('history_%s' % prof, ops_gen.history_case(25, profile=prof), check_history,
             classify_history, quick=500, thorough=4000, max_reject_frac=0.05,
             doc='random histories (<=25 ops, op weights "%s") over a family of RDMs objects; '
                 'identity invariant after every step, bystanders unchanged' % prof)
    for prof in ('balanced', 'ordering', 'combining', 'selecting')
] + [
    SubCheck('history_long', ops_gen.history_case(50, min_ops=20), check_history, classify_history,
             quick=80, thorough=1600, max_reject_frac=0.05,
             doc='long histories (20-50 ops)'),
    Enumeration('sizes', enum_sizes, check_size, classify_size,
                doc='n_cond recovered from the vector length for every n in 1..2000'),
    SubCheck('history_stored_dtype', dtype_case(8), check_history, classify_history,
             quick=200, thorough=2000, max_reject_frac=0.05,
             doc='histories (<=9 ops, one subsample_pattern with a repeated condition among the '
                 'first three) over families whose vectors are stored as bool / float32 / int32 / '
                 'uint8 (values exactly representable); same identity invariant'),
] + [
    Enumeration('short_histories_%d' % p, _enum_short(p, _PARTS), check_history, classify_history,
                doc='all op sequences of length <=2 (quick) / <=3 (thorough) from the fixed menu '
                    '(part %d of %d by first op)' % (p + 1, _PARTS))
    for p in range(_PARTS)
]


def evidence_extra():
    return dict(menu_size=len(MENU),
                exhaustive_note='short_histories_* enumerate every sequence over the menu '
                                '(sum_{l<=L} %d^l, L=2 quick / 3 thorough); sizes enumerates '
                                'n=1..2000' % len(MENU))
