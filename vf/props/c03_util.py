"""Helpers shared by the C03 and C17 checks (generators for RDM vectors, small
reference routines that are not in vf/ref.py).  Imports nothing from rsatoolbox."""
import math

import numpy as np
from hypothesis import strategies as st

from vf import gen, ref

EPS = float(np.finfo(float).eps)


# ---- value strategies ---------------------------------------------------------

def milli_float(lo=-100, hi=100):
    """k/1000: non-dyadic decimals; the smallest possible spread (1e-3) at the largest
    magnitude (100) keeps the cancellation error of mean-centring below 1e-11"""
    return st.integers(lo * 1000, hi * 1000).map(lambda k: k / 1000.0)


def scalar(kind):
    if kind == 'grid':
        return gen.grid_float(kmax=64, mmax=3)
    if kind == 'float':
        return milli_float()
    if kind == 'smallint':
        return st.integers(-4, 4).map(float)
    if kind == 'few':
        return st.integers(0, 2).map(float)
    if kind == 'pos':
        return st.integers(0, 64).map(lambda k: k / 8.0)
    if kind == 'unit':
        return st.integers(0, 64).map(lambda k: k / 64.0)
    if kind == 'posfloat':
        return milli_float(0, 100)
    raise ValueError(kind)


def fix_constant(vec):
    """construction instead of rejection: a constant vector (zero variance, includes the
    zero vector) gets +1 on its first entry - a pure function of the drawn values"""
    vec = [float(x) for x in vec]
    if max(vec) == min(vec):
        vec[0] += 1.0
    return vec


@st.composite
def vectors(draw, n_rdm, length, kind):
    el = scalar(kind)
    return [fix_constant(draw(st.lists(el, min_size=length, max_size=length)))
            for _ in range(n_rdm)]


@st.composite
def stack_sizes(draw, hi=3):
    """(n1, n2) with n1 != n2 in well over half of the draws"""
    n1 = draw(st.integers(1, hi))
    if draw(st.integers(0, 3)) > 0:
        n2 = draw(st.sampled_from([k for k in range(1, hi + 1) if k != n1]))
    else:
        n2 = n1
    return n1, n2


@st.composite
def point_cloud(draw, n_cond, kmax=8):
    """n_cond points in 1..n_cond dimensions on a dyadic grid; never all coincident"""
    d = draw(st.integers(1, n_cond))
    el = gen.grid_float(kmax=kmax, mmax=2)
    pts = draw(st.lists(st.lists(el, min_size=d, max_size=d), min_size=n_cond, max_size=n_cond))
    pts = [list(map(float, p)) for p in pts]
    if all(p == pts[0] for p in pts):
        pts[0][0] += 1.0
    return pts


def sq_euclid_vector(pts):
    """squared Euclidean distances between the rows of pts, upper triangle row by row"""
    n = len(pts)
    out = []
    for (i, j) in ref.pairs(n):
        out.append(float(sum((pts[i][k] - pts[j][k]) ** 2 for k in range(len(pts[i])))))
    return out


@st.composite
def sigma_vector(draw, n):
    return draw(st.lists(st.integers(2, 32).map(lambda k: k / 8.0), min_size=n, max_size=n))


@st.composite
def sigma_matrix(draw, n):
    """SPD matrix A A^T / n + c I with A on {-2..2}: condition number <= ~60"""
    if draw(st.integers(0, 3)) == 0:
        # equal variances with structured correlations: what a stationary noise model gives
        # (AR(1) / Toeplitz, banded, block) -- exactly constant diagonal, non-uniform off-diagonal
        c = draw(st.sampled_from([0.5, 1.0, 2.0]))
        shape = draw(st.sampled_from(['ar1', 'band', 'block', 'uniform']))
        rho = draw(st.sampled_from([0.5, 0.25, -0.25, 0.125]))
        m = np.eye(n)
        for i in range(n):
            for j in range(n):
                if i == j:
                    continue
                d = abs(i - j)
                m[i, j] = {'ar1': rho ** d, 'band': rho if d == 1 else 0.0,
                           'block': abs(rho) if (i < n // 2) == (j < n // 2) else 0.0,
                           'uniform': abs(rho) / 2}[shape]
        return (c * m).tolist()
    a = np.array(draw(gen.matrix(n, n, kind='grid', kmax=2)), dtype=float)
    c = draw(st.sampled_from([0.5, 1.0, 2.0]))
    m = a @ a.T / n + c * np.eye(n)
    return ((m + m.T) / 2).tolist()


# ---- small reference routines --------------------------------------------------

def permute_vector(vec, n, perm):
    """RDM vector after reordering the conditions: new condition k = old perm[k]"""
    sq = ref.to_square(vec, n)
    return [float(sq[perm[i], perm[j]]) for (i, j) in ref.pairs(n)]


def permute_sigma(sigma, perm):
    if sigma is None:
        return None
    s = np.asarray(sigma, dtype=float)
    if s.ndim == 1:
        return s[perm].tolist()
    return s[np.ix_(perm, perm)].tolist()


def has_ties(vec):
    return len(set(vec)) < len(vec)


def centred(pts):
    x = np.asarray(pts, dtype=float)
    return x - x.mean(axis=0, keepdims=True)


def bures_from_points(p1, p2):
    """fidelity tr sqrt(A^1/2 B A^1/2) for A = Xc Xc', B = Yc Yc' is the nuclear norm of
    Xc' Yc (no square root of a near-zero eigenvalue is taken).
    returns (similarity, squared metric, tr A, tr B)"""
    x, y = centred(p1), centred(p2)
    fid = float(np.sum(np.linalg.svd(x.T @ y, compute_uv=False)))
    ta, tb = float(np.sum(x * x)), float(np.sum(y * y))
    return fid / math.sqrt(ta * tb), ta + tb - 2 * fid, ta, tb


def fidelity_from_kernels(ka, kb):
    """tr sqrt(A^1/2 B A^1/2) = nuclear norm of La' Lb with A = La La', B = Lb Lb'"""
    def factor(k):
        k = np.asarray(k, dtype=float)
        w, u = np.linalg.eigh((k + k.T) / 2)
        return u * np.sqrt(np.maximum(w, 0.0))
    return float(np.sum(np.linalg.svd(factor(ka).T @ factor(kb), compute_uv=False)))


def quantile_linear(values, q):
    """own linear-interpolation quantile (definition 7), explicit"""
    s = sorted(float(v) for v in values)
    pos = q * (len(s) - 1)
    lo = int(math.floor(pos))
    hi = min(lo + 1, len(s) - 1)
    t = pos - lo
    return s[lo] + (s[hi] - s[lo]) * t


def floyd_warshall(w):
    """all-pairs shortest path lengths; w[i][j] = edge weight or None (no edge)"""
    n = len(w)
    d = [[0.0 if i == j else (float('inf') if w[i][j] is None else float(w[i][j]))
          for j in range(n)] for i in range(n)]
    for k in range(n):
        for i in range(n):
            for j in range(n):
                if d[i][k] + d[k][j] < d[i][j]:
                    d[i][j] = d[i][k] + d[k][j]
    return d
