"""C11 - Dataset / TemporalDataset operation histories keep every observation (channel, time
slice) attached to its own descriptors (identity-encoding measurements, DESIGN 1.5 / C11)."""
from hypothesis import strategies as st

import numpy as np

from vf import core, gen, ident_data as idd
from vf.core import SubCheck, lib, require

RULE = ("Hypothesis generates a Dataset or TemporalDataset spec (n_obs 1-6 or 17-40, 1-4 channels, "
        "1-4 time points, every combination of size-1 dimensions; obs/channel/time descriptors as "
        "list or array, int or str labels with duplicates, rows in generated order) whose "
        "measurements encode (observation id, channel id, time index), plus a history of 0-7 op "
        "records with abstract arguments (descriptor index, value bit mask, part index, bin "
        "assignment) over split_obs/channel/time, subset_obs/channel/time, sort_by, "
        "merge_datasets (of split parts and of an independent set with equal or differing dataset "
        "descriptors), odd_even_split, nested_odd_even_split, bin_time, time_as_observations, "
        "time_as_channels, to_df/from_df, copy, average_dataset_by, get_measurements_tensor. "
        "check(case) interprets the history against the live object and a reference model that "
        "predicts the multiset (or documented order) of ids; after every step each row/column/slice "
        "must carry the descriptor values its id was created with and each measurement must decode "
        "to its row, column and slice (bin means: mean over exactly the members). A case is "
        "non-trivial if at least two executed operations of different kinds, or an executed "
        "operation on an object with a size-1 dimension, or a sort with duplicate keys and more "
        "than 16 rows; distinct by SHA1 of the case. Separate sub-check: 3-12 rows with a float "
        "descriptor holding 1-3 labels and >= 1 NaN (unlabelled rows), split_obs / odd_even_split: "
        "partition of the rows only (non-trivial: >= 2 NaN rows next to labelled ones). Separate "
        "sub-check bin_grid: 2-8 time points (a third with repeated labels), 1-4 bins each listing "
        "1-3 present values plus 0-3 absent values or a value twice: bin values and bin time label "
        "are the means over exactly the matched samples (non-trivial: mean of the listed values "
        "differs from the mean of the matched time points). Separate sub-check sparse_flag: 2-8 "
        "rows, an observation descriptor (str / float / int; list or array) missing (None / NaN) "
        "in >= 1 row and holding 1 (weight 3/4) or 2 labels in >= 1 row, to_df / from_df with "
        "default or explicit channels: still per observation, each row keeps label or missingness.")

ASSUMPTIONS = [
    "order is asserted only where documented or relied on by in-tree tests: subsets keep original "
    "order, sort_by is sorted and stable, odd_even_split puts groups 0,2,4.. (first appearance) "
    "into the first result, time/bins order follows the argument; split parts, merged rows and "
    "converted rows/columns are compared as multisets",
    "odd_even_split / nested_odd_even_split with a half that would be empty (one distinct value) is "
    "outside the domain (merge_datasets([]) cannot build a dataset) and is skipped by construction",
    "bin_time needs an array-typed 'time' descriptor and no second time descriptor (library "
    "pre-condition found by probing); bins with coinciding centres are not generated",
    "time values are unique (time_as_observations selects by value); DataFrame round trip only with "
    "unique string channel names, explicit `channels=` once observation descriptors are floats "
    "(documented: float columns are read as channels)",
    "a constant observation descriptor re-appearing as dataset descriptor after from_df is accepted "
    "(documented); integer descriptors coming back as equal-valued floats are accepted",
    "average / bin means are compared with rtol 1e-12 (one rounding of an exactly known mean)",
    "bin_time: every bin matches at least one sample (the mean of no samples is undefined); bins are "
    "passed as a list of numpy arrays (the library formats them with numpy.array2string)",
    "missing descriptor entries come back from the DataFrame round trip as None or NaN (pandas' "
    "choice): both count as 'missing'; a column missing throughout is constant and not generated",
]

DS_OPS = ['split_obs', 'split_channel', 'subset_obs', 'subset_channel', 'sort_by', 'merge_new',
          'odd_even', 'nested_odd_even', 'df_roundtrip', 'copy', 'average_by', 'tensor']
TDS_OPS = ['split_obs', 'split_channel', 'split_time', 'subset_obs', 'subset_channel',
           'subset_time', 'sort_by', 'merge_new', 'odd_even', 'nested_odd_even', 'bin_time',
           'bin_time', 'time_as_observations', 'time_as_channels', 'copy']


def op_record(names):
    return st.fixed_dictionaries({
        'op': st.sampled_from(names),
        'a': st.integers(0, 40), 'b': st.integers(0, 40), 'm': st.integers(0, 255),
        'xs': st.lists(st.integers(0, 40), min_size=0, max_size=6)})


@st.composite
def labelled(draw, n, max_labels, kinds=('int', 'str')):
    """n values drawn from 1..max_labels distinct labels (duplicates), generated container"""
    n_lab = draw(st.integers(1, max(1, min(max_labels, n))))
    _, labs = draw(gen.label_set(n_lab, kinds))
    idx = draw(st.lists(st.integers(0, n_lab - 1), min_size=n, max_size=n))
    return {'values': [labs[i] for i in idx], 'container': draw(gen.container)}


@st.composite
def dataset_spec(draw, kind=None, n_obs=None, shape=None):
    kind = kind or draw(st.sampled_from(['ds', 'tds', 'tds']))
    if shape is not None:
        n_obs, n_ch, n_time = shape
    else:
        if n_obs is None:
            n_obs = draw(st.one_of(st.integers(1, 6), st.integers(2, 8), st.integers(17, 40)))
        # (a sixth of the objects have 9-20 channels: regions of interest with interleaved voxels)
        n_ch = draw(st.one_of(st.integers(1, 4), st.integers(1, 4), st.integers(1, 4), st.integers(1, 4),
                              st.integers(2, 4), st.integers(9, 20)))
        n_time = draw(st.integers(1, 4))
    off_o = draw(st.integers(1, 20))
    off_c = draw(st.integers(1, 20))
    oids = [off_o + i for i in draw(gen.permutation(n_obs))]
    chids = [off_c + i for i in draw(gen.permutation(n_ch))]
    spec = {
        'kind': kind, 'oids': oids, 'chids': chids,
        'oid_container': draw(gen.container), 'chid_container': draw(gen.container),
        'obs': {'cond': draw(labelled(n_obs, 4)),
                'sess': draw(labelled(n_obs, 3, kinds=('int',)))},
        'ch': {'roi': draw(labelled(n_ch, 3)),
               'name': {'values': ['ch%d' % i for i in draw(gen.permutation(n_ch))],
                        'container': draw(gen.container)}},
        'desc': {'subj': draw(st.integers(0, 9)), 'note': draw(st.sampled_from(['x', 'pilot']))},
    }
    if kind == 'tds':
        tv = draw(st.lists(st.integers(-8, 24), min_size=n_time, max_size=n_time, unique=True))
        if draw(st.booleans()):
            tv = sorted(tv)
        # time stamps may be large compared with their spacing (milliseconds two minutes into a
        # recording, unix times): exactly representable, so bin means stay exact
        t0 = draw(st.sampled_from([0.0, 0.0, 0.0, 120000.0, 2.0 ** 31]))
        time = {'time': {'values': [t0 + t / 4.0 for t in tv],
                         'container': draw(st.sampled_from(['array', 'array', 'array', 'list']))}}
        if draw(st.integers(0, 3)) == 0:
            time['tgrp'] = draw(labelled(n_time, 2, kinds=('str',)))
            if draw(st.booleans()):
                # window onsets: a coarse float descriptor, non-decreasing along the axis, with ties
                k = draw(st.integers(1, max(1, n_time - 1)))
                time['tgrp'] = {'values': [0.05 * (1 + (i * k) // n_time) for i in range(n_time)],
                                'container': draw(gen.container)}
        spec['time'] = time
    return spec


@st.composite
def history_case(draw, kind):
    spec = draw(dataset_spec(kind=kind))
    names = TDS_OPS if spec['kind'] == 'tds' else DS_OPS
    n = draw(st.integers(1, 7))
    ops = []
    switched = spec['kind'] == 'ds'
    for _ in range(n):
        rec = draw(op_record(DS_OPS if switched else names))
        if rec['op'] in ('time_as_observations', 'time_as_channels'):
            switched = True
        ops.append(rec)
    return {'spec': spec, 'ops': ops}


@st.composite
def sort_case(draw):
    """the narrow region of unstable sorting: more than 16 rows, few distinct keys"""
    kind = draw(st.sampled_from(['ds', 'tds']))
    spec = draw(dataset_spec(kind=kind, n_obs=draw(st.integers(17, 40))))
    pre = draw(st.lists(op_record(['subset_channel', 'copy', 'merge_new', 'split_channel',
                                   'sort_by']), max_size=2))
    by = draw(st.integers(1, 2))        # obs-level keys are ['_oid', 'cond', 'sess']
    post = draw(st.lists(op_record(['split_obs', 'odd_even', 'subset_obs']), max_size=1))
    if draw(st.booleans()):
        # look at a subset, sort the same object, take a subset by the same descriptor again
        k = draw(st.integers(0, 60))
        sel = draw(st.integers(1, 2))
        pre = pre + [{'op': 'subset_obs', 'a': sel, 'b': k % 2, 'm': 3 * k, 'xs': []}]
        post = [{'op': 'subset_obs', 'a': sel, 'b': (k + 1) % 2, 'm': 3 * draw(st.integers(0, 60)) + 1,
                 'xs': []}] + post
    return {'spec': spec, 'ops': pre + [{'op': 'sort_by', 'a': by, 'b': 0, 'm': 0, 'xs': []}] + post}


@st.composite
def size1_case(draw):
    """all shapes with at least one size-1 dimension x the conversions"""
    dims = [draw(st.sampled_from([1, 1, 2, 3])) for _ in range(3)]
    if 1 not in dims:
        dims[draw(st.integers(0, 2))] = 1
    spec = draw(dataset_spec(kind='tds', shape=tuple(dims)))
    pre = draw(st.lists(op_record(['copy', 'bin_time', 'sort_by', 'subset_time', 'split_obs',
                                   'split_channel', 'merge_new']), max_size=2))
    conv = draw(op_record(['time_as_observations', 'time_as_observations', 'time_as_channels']))
    post = draw(st.lists(op_record(DS_OPS), max_size=3))
    return {'spec': spec, 'ops': pre + [conv] + post}


def check_history(case):
    state = idd.start(case['spec'], live=True)
    idd.run_ops(state, case['ops'])


def classify_history(case):
    spec = case['spec']
    state = idd.describe(spec, case['ops'])
    n_t = len(spec['time']['time']['values']) if spec['kind'] == 'tds' else None
    dims = [len(spec['oids']), len(spec['chids'])] + ([n_t] if n_t is not None else [])
    labels = ['kind:' + spec['kind'], 'ops:%d' % min(len(state.log), 6)]
    labels += ['op:' + o for o in sorted(set(state.log))]
    labels += ['skip:' + o for o in sorted(set(state.skipped))]
    labels += sorted(state.flags)
    size1 = 1 in dims
    if dims[0] == 1:
        labels.append('size1:obs')
    if dims[1] == 1:
        labels.append('size1:channel')
    if n_t == 1:
        labels.append('size1:time')
    if dims[0] > 16:
        labels.append('n_obs>16')
    for lvl in ('obs', 'ch'):
        for k, d in spec[lvl].items():
            labels.append('%s:%s' % (k, d['container']))
    nt = (len(set(state.log)) >= 2 or (size1 and len(state.log) >= 1)
          or 'sort:duplicates,n>16' in state.flags)
    return labels, bool(nt)


# ---------------------------------------------------------------------------------------
# observations without a label: NaN in a float-valued observation descriptor (a response code read
# from a table).  Only what the property states is asserted: the parts of a split are a partition
# of the rows (every row in exactly one part, with its own measurements and descriptor values) and
# each part of split_obs is homogeneous in the split descriptor (NaN counts as equal to NaN).

@st.composite
def unlabelled_case(draw):
    n = draw(st.integers(3, 12))
    n_lab = draw(st.integers(1, 3))
    labs = draw(st.lists(st.sampled_from([1.0, 2.0, 3.0, -0.5, 10.0, 0.0]), min_size=n_lab,
                         max_size=n_lab, unique=True))
    resp = [draw(st.sampled_from(labs + [float('nan')])) for _ in range(n)]
    resp[draw(st.integers(0, n - 1))] = float('nan')
    nonnan = draw(st.integers(0, n - 1))
    if resp[nonnan] != resp[nonnan] and sum(1 for r in resp if r != r) > 1:
        resp[nonnan] = labs[0]
    return dict(kind=draw(st.sampled_from(['ds', 'tds'])), n=n, n_ch=draw(st.integers(1, 3)),
                n_t=draw(st.integers(1, 3)), resp=resp, container=draw(gen.container),
                sess=[draw(st.integers(0, 1)) for _ in range(n)],
                oids=[3 + i for i in draw(gen.permutation(n))], op=draw(st.sampled_from(
                    ['split_obs', 'split_obs', 'odd_even'])))


def check_unlabelled(case):
    from rsatoolbox.data.dataset import Dataset, TemporalDataset
    n, n_ch, n_t = case['n'], case['n_ch'], case['n_t']
    oids = np.array(case['oids'])
    resp = [float(r) for r in case['resp']]
    cont = (lambda v: np.array(v)) if case['container'] == 'array' else list
    obs = {'resp': cont(resp), 'sess': cont(list(case['sess'])), '_oid': oids.copy()}
    if case['kind'] == 'ds':
        meas = oids[:, None] * 100.0 + np.arange(n_ch)[None, :]
        ds = Dataset(meas.copy(), obs_descriptors=obs)
    else:
        meas = oids[:, None, None] * 100.0 + np.arange(n_ch)[None, :, None] * 10.0 + \
            np.arange(n_t)[None, None, :]
        ds = TemporalDataset(meas.copy(), obs_descriptors=obs,
                             time_descriptors={'time': np.arange(n_t, dtype=float)})
    own = {int(o): (resp[i], case['sess'][i], meas[i]) for i, o in enumerate(oids)}
    what = '%s with %d unlabelled (NaN) of %d rows, %s' % (
        type(ds).__name__, sum(1 for r in resp if r != r), n, case['op'])
    sig = 'unlabelled:' + case['op']
    if case['op'] == 'split_obs':
        parts = lib(ds.split_obs, 'resp', on_error='violation', sig=sig + ':raises')
    else:
        groups = idd.groups_first_appearance(['nan' if r != r else r for r in resp])
        if len(groups) < 2:
            raise core.Reject('a single group: one half would be empty', 'degenerate:one-group')
        parts = list(lib(ds.odd_even_split, 'resp', on_error='violation', sig=sig + ':raises'))
    seen = []
    for k, part in enumerate(parts):
        ids = [int(v) for v in part.obs_descriptors['_oid']]
        require(len(ids) == part.measurements.shape[0], '%s: part %d has %d ids, %d rows' % (
            what, k, len(ids), part.measurements.shape[0]), sig + ':shape')
        for j, o in enumerate(ids):
            r, s_, m = own[o]
            require(idd.same(part.obs_descriptors['resp'][j], r) and
                    idd.same(part.obs_descriptors['sess'][j], s_),
                    '%s: part %d row %d (id %d) carries resp=%r sess=%r, created with %r, %r' % (
                        what, k, j, o, part.obs_descriptors['resp'][j], part.obs_descriptors['sess'][j],
                        r, s_), sig + ':descriptors')
            require(np.array_equal(part.measurements[j], m), '%s: part %d row %d (id %d) holds the '
                    'measurements of another row' % (what, k, j, o), sig + ':measurements')
        if case['op'] == 'split_obs' and ids:
            first = own[ids[0]][0]
            require(all(idd.same(own[o][0], first) for o in ids), '%s: part %d mixes labels %s' % (
                what, k, [own[o][0] for o in ids]), sig + ':mixed-part')
        seen += ids
    require(sorted(seen) == sorted(int(o) for o in oids), '%s: the parts hold rows %s, the dataset '
            'rows %s (missing %s, repeated %s)' % (
                what, sorted(seen), sorted(int(o) for o in oids),
                sorted(set(int(o) for o in oids) - set(seen)),
                sorted({o for o in seen if seen.count(o) > 1})), sig + ':not-a-partition')


def classify_unlabelled(case):
    k = sum(1 for r in case['resp'] if r != r)
    labels = ['kind:' + case['kind'], 'op:' + case['op'], 'nan-rows:%d' % min(k, 3),
              'resp:' + case['container'], 'all-nan' if k == case['n'] else 'mixed']
    return labels, k >= 2 and k < case['n']


# ---------------------------------------------------------------------------------------
# bin_time with a bin specification that is not a partition of the distinct time labels: a generic
# bin grid reused on a cropped recording (a bin lists time values the dataset does not hold, or a
# value twice) and repeated time labels (several samples with one label).  Documented: data is
# averaged within time-bins, the time descriptor is set to the average of the binned time-points.
# Every bin matches at least one sample (an empty bin has no mean: outside the domain).

@st.composite
def bin_grid_case(draw):
    n_t = draw(st.integers(2, 8))
    repeated = draw(st.integers(0, 2)) == 0
    if repeated:
        pool = draw(st.lists(st.integers(-8, 24), min_size=1, max_size=max(1, n_t - 1), unique=True))
        tv = [pool[i % len(pool)] for i in range(n_t)]
        tv = [tv[i] for i in draw(gen.permutation(n_t))]
    else:
        tv = draw(st.lists(st.integers(-8, 24), min_size=n_t, max_size=n_t, unique=True))
    if draw(st.booleans()):
        tv = sorted(tv)
    present = sorted(set(tv))
    absent = [v for v in range(-12, 29) if v not in present]
    n_bins = draw(st.integers(1, 4))
    bins = []
    for _ in range(n_bins):
        members = draw(st.lists(st.sampled_from(present), min_size=1, max_size=3, unique=True))
        extra = draw(st.lists(st.sampled_from(absent), min_size=0, max_size=3))
        if draw(st.integers(0, 3)) == 0:
            extra = extra + [draw(st.sampled_from(members))]      # a value listed twice
        both = members + extra
        bins.append([both[i] for i in draw(gen.permutation(len(both)))])
    t0 = draw(st.sampled_from([0.0, 0.0, 120000.0]))
    return dict(n_obs=draw(st.integers(1, 3)), n_ch=draw(st.integers(1, 3)), tv=tv, bins=bins, t0=t0,
                second=draw(st.booleans()))


def check_bin_grid(case):
    from rsatoolbox.data.dataset import TemporalDataset
    n_obs, n_ch, t0 = case['n_obs'], case['n_ch'], case['t0']
    time = np.array([t0 + t / 4.0 for t in case['tv']])
    n_t = len(time)
    meas = (np.arange(1, n_obs + 1)[:, None, None] * 1000.0 + np.arange(n_ch)[None, :, None] * 100.0
            + np.arange(n_t)[None, None, :] * 1.0)
    bins = [np.array([t0 + t / 4.0 for t in b]) for b in case['bins']]
    tds = TemporalDataset(meas.copy(), obs_descriptors={'_oid': np.arange(1, n_obs + 1)},
                          channel_descriptors={'_chid': np.arange(n_ch)},
                          time_descriptors={'time': time.copy()})
    what = 'TemporalDataset with time %s, bin_time(\'time\', %s)' % (
        time.tolist(), [b.tolist() for b in bins])
    out = lib(tds.bin_time, 'time', bins, on_error='violation', sig='bin_grid:raises')
    require(out.measurements.shape == (n_obs, n_ch, len(bins)), '%s: result has shape %s, expected '
            '%s' % (what, out.measurements.shape, (n_obs, n_ch, len(bins))), 'bin_grid:shape')
    require(np.array_equal(tds.measurements, meas) and np.array_equal(tds.time_descriptors['time'], time),
            '%s changed the dataset it was called on' % what, 'bin_grid:input-changed')
    got_t = np.asarray(out.time_descriptors['time'], dtype=float)
    for k, b in enumerate(bins):
        idx = [i for i in range(n_t) if time[i] in set(b.tolist())]
        exp_m = meas[:, :, idx].mean(axis=2)
        require(np.allclose(out.measurements[:, :, k], exp_m, rtol=1e-12, atol=0),
                '%s: bin %d is not the mean of the samples %s carrying its time points' % (what, k, idx),
                'bin_grid:values')
        exp_t = float(np.mean(time[idx]))
        require(abs(got_t[k] - exp_t) <= 1e-12 * max(1.0, abs(exp_t)),
                '%s: bin %d is labelled time=%r, the averaged time points are %s (mean %r)' % (
                    what, k, float(got_t[k]), time[idx].tolist(), exp_t), 'bin_grid:time-label')


def classify_bin_grid(case):
    tv = case['tv']
    present = set(tv)
    labels = ['bins:%d' % len(case['bins']), 'repeated-time' if len(present) < len(tv) else 'unique-time']
    differs = False
    for b in case['bins']:
        sel = [t for t in tv if t in set(b)]
        if any(v not in present for v in b):
            labels.append('bin:absent-value')
        if len(set(b)) < len(b):
            labels.append('bin:value-twice')
        if abs(float(np.mean(b)) - float(np.mean(sel))) > 1e-9:
            differs = True
    labels = sorted(set(labels)) + (['spec-mean!=sample-mean'] if differs else [])
    return labels, differs


# ---------------------------------------------------------------------------------------
# DataFrame round trip with a sparsely filled observation descriptor: a flag column holding None /
# NaN for most rows and one (or two) distinct real labels for the others.  The unchanged library
# gives the missing entries back as None or NaN (pandas' choice); asserted is only that the
# descriptor stays per observation, labelled rows keep their label, unlabelled rows stay
# unlabelled, and each row keeps its measurements.  A column that is missing throughout is
# constant (documented: becomes a dataset descriptor) and is not generated.

def _missing(v):
    try:
        return v is None or bool(v != v)
    except Exception:  # noqa: BLE001
        return False


@st.composite
def sparse_flag_case(draw):
    n = draw(st.integers(2, 8))
    kind = draw(st.sampled_from(['str', 'str', 'float', 'int']))
    n_lab = draw(st.sampled_from([1, 1, 1, 2]))
    pool = {'str': ['blink', 'move', 'x'], 'float': [1.0, 0.5, -2.0], 'int': [1, 3, 7]}[kind]
    labs = draw(st.lists(st.sampled_from(pool), min_size=n_lab, max_size=n_lab, unique=True))
    filled = [draw(st.booleans()) for _ in range(n)]
    i, j = draw(st.lists(st.integers(0, n - 1), min_size=2, max_size=2, unique=True))
    filled[i], filled[j] = True, False
    vals = [draw(st.sampled_from(labs)) if f else None for f in filled]
    return dict(n=n, n_ch=draw(st.integers(1, 3)), kind=kind, vals=vals,
                container=draw(gen.container), oids=[3 + k for k in draw(gen.permutation(n))],
                explicit=draw(st.booleans()), sess=[draw(st.integers(0, 1)) for _ in range(n)])


def check_sparse_flag(case):
    from rsatoolbox.data.dataset import Dataset
    n, n_ch, kind = case['n'], case['n_ch'], case['kind']
    oids = [int(o) for o in case['oids']]
    if kind == 'float':
        vals = [float('nan') if v is None else v for v in case['vals']]
        flag = np.array(vals) if case['container'] == 'array' else list(vals)
    else:
        vals = list(case['vals'])
        flag = np.array(vals, dtype=object) if case['container'] == 'array' else list(vals)
    names = ['ch%d' % c for c in range(n_ch)]
    meas = np.array(oids, dtype=float)[:, None] * 100.0 + np.arange(n_ch)[None, :]
    ds = Dataset(meas.copy(), descriptors={'subj': 'S1'},
                 obs_descriptors={'flag': flag, '_oid': list(oids), 'sess': list(case['sess'])},
                 channel_descriptors={'name': list(names)})
    # numeric flag columns are float columns in the frame: channels must be named (documented)
    explicit = case['explicit'] or kind != 'str'
    what = 'Dataset with obs descriptor flag=%r, from_df(to_df()%s)' % (
        vals, ', channels=%r' % names if explicit else '')
    df = lib(ds.to_df, on_error='violation', sig='sparse_flag:to_df-raises')
    back = lib(Dataset.from_df, df, **({'channels': list(names)} if explicit else {}),
               on_error='violation', sig='sparse_flag:from_df-raises')
    require(back.measurements.shape == (n, n_ch), '%s: measurements have shape %s, expected %s' % (
        what, back.measurements.shape, (n, n_ch)), 'sparse_flag:shape')
    require('_oid' in back.obs_descriptors and len(back.obs_descriptors['_oid']) == n,
            '%s: the row ids are no longer an observation descriptor' % what, 'sparse_flag:ids')
    require('flag' in back.obs_descriptors, '%s: the descriptor is no longer per observation '
            '(obs descriptors %s, dataset descriptors %r)' % (
                what, sorted(back.obs_descriptors), back.descriptors), 'sparse_flag:not-per-observation')
    got = list(back.obs_descriptors['flag'])
    require(len(got) == n, '%s: %d descriptor values for %d rows' % (what, len(got), n),
            'sparse_flag:shape')
    own = {o: (vals[i], meas[i]) for i, o in enumerate(oids)}
    for j, o in enumerate(int(v) for v in back.obs_descriptors['_oid']):
        v, m = own[o]
        ok = _missing(got[j]) if _missing(v) else (not _missing(got[j]) and idd.same(got[j], v))
        require(ok, '%s: row %d (id %d) carries flag=%r, created with %r' % (what, j, o, got[j], v),
                'sparse_flag:descriptors')
        require(np.array_equal(back.measurements[j], m), '%s: row %d (id %d) holds the measurements '
                'of another row' % (what, j, o), 'sparse_flag:measurements')


def classify_sparse_flag(case):
    real = set(v for v in case['vals'] if v is not None)
    labels = ['kind:' + case['kind'], 'labels:%d' % len(real), 'flag:' + case['container'],
              'channels:' + ('explicit' if case['explicit'] or case['kind'] != 'str' else 'default'),
              'first-row:' + ('missing' if case['vals'][0] is None else 'labelled')]
    return labels, True


SUBCHECKS = [
    SubCheck('history_ds', history_case('ds'), check_history, classify_history, quick=400,
             doc='random histories over the listed operations starting from a Dataset; '
                 'identity invariant after every step'),
    SubCheck('history_tds', history_case('tds'), check_history, classify_history, quick=600,
             doc='random histories starting from a TemporalDataset (time operations, binning, '
                 'conversions, then Dataset operations); identity invariant after every step'),
    SubCheck('sort', sort_case(), check_history, classify_history, quick=160,
             doc='sort_by on 17-40 rows with duplicate keys (both classes): sorted and stable'),
    SubCheck('size1', size1_case(), check_history, classify_history, quick=200,
             doc='temporal datasets with a single observation, channel or time point through '
                 'time_as_observations / time_as_channels and follow-up operations'),
    SubCheck('unlabelled', unlabelled_case(), check_unlabelled, classify_unlabelled, quick=200,
             doc='split_obs / odd_even_split over a float descriptor with NaN (unlabelled rows): '
                 'the parts are a partition of the rows, each row keeps its values'),
    SubCheck('bin_grid', bin_grid_case(), check_bin_grid, classify_bin_grid, quick=100,
             doc='bin_time with bins listing absent or repeated time values and with repeated time '
                 'labels: values and time label of a bin are the means over exactly its samples'),
    SubCheck('sparse_flag', sparse_flag_case(), check_sparse_flag, classify_sparse_flag, quick=150,
             doc='to_df / from_df with an observation descriptor that is missing (None / NaN) for '
                 'some rows and holds one or two labels for the others: stays per observation'),
]
