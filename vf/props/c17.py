"""C17 - RDM transforms mean what they say; measures are invariant as theory dictates."""
import math

import numpy as np
from hypothesis import strategies as st

from vf import core, gen, ref
from vf.core import SubCheck, Violation, Reject, lib, require, require_close
from vf.props import c03_util as U

import rsatoolbox
from rsatoolbox.rdm import RDMs
import importlib
T = importlib.import_module('rsatoolbox.rdm.transform')
C = importlib.import_module('rsatoolbox.rdm.compare')

RANK_METHODS = ['average', 'min', 'max', 'dense', 'ordinal']
MEASURES = [None, 'squared euclidean', 'squared mahalanobis', 'euclidean', 'correlation',
            'crossnobis', 'test (ranks)']

RULE = ("Hypothesis-generated RDM stacks (1-3 RDMs over 3-6 conditions; dyadic-grid, decimal, "
        "small-integer (ties, negatives) and {0,1,2} values, scaled by 2^-20..2^20; NaN entries for "
        "rank/sqrt/positive), descriptors of all three kinds incl. list- and array-typed ones, a "
        "generated source measure name. Transforms: rank (5 tie methods), sqrt, positive, minmax, "
        "custom function from a menu (incl. non-elementwise ones), geo-topological with quantile "
        "pairs 0<=low<up<=1, geodesic. Oracles: O(n^2) tie-aware ranks, sqrt(max(x,0)), max(x,0), "
        "per-RDM (x-min)/(max-min), clipped-linear map between the two quantile thresholds, own "
        "Floyd-Warshall on the min-max graph without weight-1 edges; descriptors equal the source's "
        "and are not aliased, the measure name is a string naming the transform. Invariance: "
        "compare() before/after strictly increasing maps (affine, cube, exp, library sqrt/rank/"
        "minmax transforms - order-isomorphism verified on the values) for the rank measures, "
        "positive scaling for cosine types, positive affine maps for correlation types, on either "
        "or both arguments; eval_fixed with rank measures before/after sqrt_transform; "
        "0/1 model RDMs (category masks, free patterns) stored as bool / uint8 / int8 / int32 vs the "
        "same numbers as float64 after a*x(+b), all nine measures. "
        "Non-trivial: ties or negatives or NaN present (transforms), thresholds strictly inside "
        "the value range (geo-topological), a removed edge that forces a detour (geodesic), a "
        "non-identity map (invariance); distinct by SHA1 of the case.")
ASSUMPTIONS = [
    "geo-topological thresholds are numpy.quantile (linear interpolation) of all dissimilarities "
    "of the object (pooled over the RDMs of a stack, as the code does); cross-checked against an "
    "explicit interpolation; entries equal to a threshold are not asserted when the two "
    "thresholds coincide (0/0)",
    "geodesic: zero entries of the min-max RDM (its minimal pairs) are 'no edge', the adjacency-"
    "matrix convention of networkx.from_numpy_array used by the library; unreachable pairs are inf",
    "constant RDMs are outside the domain of minmax / geodesic (0/0); NaN is generated only for "
    "rank, sqrt and positive transforms",
    "measure-name assertions: a string that contains the transform's keyword (ranks, sqrt or the "
    "documented squared->plain renaming, transformed, minmax, geo-topological, geodesic); "
    "positive_transform may keep the source name (only its type is asserted)",
    "in-place modification of the input by a transform is property C12's; this check always "
    "hands fresh objects to the library and does not assert it",
]


# ---- case pieces --------------------------------------------------------------------

@st.composite
def descriptor_set(draw, n_rdm, n_cond):
    """JSON description of the three descriptor dicts; containers list/array generated"""
    d = {}
    if draw(st.booleans()):
        d['descriptors'] = {'session': draw(st.sampled_from(['a', 'ses-1', 'x'])),
                            'subj': draw(st.integers(0, 9))}
    else:
        d['descriptors'] = {}
    rd = {}
    if draw(st.booleans()):
        kind, labs = draw(gen.label_set(n_rdm))
        rd['name'] = {'values': labs, 'container': draw(gen.container)}
    if draw(st.booleans()):
        rd['index'] = {'values': draw(gen.permutation(n_rdm)), 'container': draw(gen.container)}
    pd = {}
    if draw(st.booleans()):
        kind, labs = draw(gen.label_set(n_cond))
        pd['cond'] = {'values': labs, 'container': draw(gen.container)}
    if draw(st.booleans()):
        pd['grp'] = {'values': draw(st.lists(st.integers(0, 2), min_size=n_cond, max_size=n_cond)),
                     'container': draw(gen.container)}
    if draw(st.booleans()):
        pd['index'] = {'values': draw(gen.permutation(n_cond)), 'container': draw(gen.container)}
    d['rdm_descriptors'] = rd
    d['pattern_descriptors'] = pd
    d['measure'] = draw(st.sampled_from(MEASURES))
    return d


def build(vecs, desc=None):
    """fresh RDMs object from the case"""
    a = np.array(vecs, dtype=float)
    if a.size and not np.isnan(a).any() and np.all(a == np.round(a)) and int(np.abs(a).sum()) % 2 == 0:
        # integer-valued RDMs held in an integer array (RDMs keeps the dtype of vector input):
        # every other integral case, as a deterministic function of the case
        a = a.astype(np.int64)
    a = gen.relayout(a)         # C / Fortran / strided / transposed memory, by shape
    if desc is None:
        return RDMs(a)
    rd = {k: gen.as_desc(v['values'], v['container']) for k, v in desc['rdm_descriptors'].items()}
    pd = {k: gen.as_desc(v['values'], v['container']) for k, v in desc['pattern_descriptors'].items()}
    return RDMs(a, dissimilarity_measure=desc['measure'], descriptors=dict(desc['descriptors']),
                rdm_descriptors=rd, pattern_descriptors=pd)


def expected_descriptors(desc, n_rdm, n_cond):
    rd = {k: list(v['values']) for k, v in desc['rdm_descriptors'].items()}
    pd = {k: list(v['values']) for k, v in desc['pattern_descriptors'].items()}
    rd.setdefault('index', list(range(n_rdm)))
    pd.setdefault('index', list(range(n_cond)))
    return dict(desc['descriptors']), rd, pd


def _plain(v):
    return [core.tolist(x) for x in list(v)]


def check_meta(out, src, desc, n_rdm, n_cond, name, keyword):
    """the result is a new RDMs object with the source's descriptors and an updated measure name"""
    require(isinstance(out, RDMs), '%s returned %s' % (name, type(out).__name__), 'meta:type:' + name)
    require(out is not src, '%s returned its input object' % name, 'meta:same-object:' + name)
    require(out.n_rdm == n_rdm and out.n_cond == n_cond and
            np.asarray(out.dissimilarities).shape == (n_rdm, ref.n_pairs(n_cond)),
            '%s: result has %d RDMs x %d conditions, source %d x %d' % (
                name, out.n_rdm, out.n_cond, n_rdm, n_cond), 'meta:shape:' + name)
    d, rd, pd = expected_descriptors(desc, n_rdm, n_cond)
    require(dict(out.descriptors) == d, '%s: descriptors %r, source %r' % (name, out.descriptors, d),
            'descriptors:object:' + name)
    for what, got, want in (('rdm', out.rdm_descriptors, rd), ('pattern', out.pattern_descriptors, pd)):
        require(sorted(got.keys()) == sorted(want.keys()), '%s: %s descriptor keys %s, source %s' % (
            name, what, sorted(got.keys()), sorted(want.keys())), 'descriptors:%s:%s' % (what, name))
        for k in want:
            require(_plain(got[k]) == want[k], '%s: %s descriptor %r is %r, source %r' % (
                name, what, k, _plain(got[k]), want[k]), 'descriptors:%s:%s' % (what, name))
    # "generates a new RDMs object": changing the result's descriptors must not reach the source
    for dct_out, dct_src in ((out.rdm_descriptors, src.rdm_descriptors),
                             (out.pattern_descriptors, src.pattern_descriptors)):
        require(dct_out is not dct_src, '%s: descriptor dict shared with the source' % name,
                'descriptors:aliased:' + name)
        for k in dct_out:
            if k in dct_src and not np.isscalar(dct_out[k]):
                require(dct_out[k] is not dct_src[k], '%s: descriptor %r is the same container object '
                        'as the source\'s' % (name, k), 'descriptors:aliased:' + name)
    require(out.descriptors is not src.descriptors or not src.descriptors,
            '%s: descriptors dict shared with the source' % name, 'descriptors:aliased:' + name)
    # measure name
    m, src_m = out.dissimilarity_measure, desc['measure']
    if name == 'positive':
        # clipping does not change the kind of measure: the library keeps the source name
        require(isinstance(m, str) if src_m is not None else (m is None or isinstance(m, str)),
                'positive_transform: measure %r, source %r' % (m, src_m), 'measure:positive')
        return
    require(isinstance(m, str), '%s: measure name %r is not a string' % (name, m), 'measure:' + name)
    if name == 'sqrt' and src_m in ('squared euclidean', 'squared mahalanobis'):
        ok = m == src_m.replace('squared ', '') or 'sqrt' in m
    else:
        ok = keyword in m
    require(ok, '%s: measure name %r (source %r) does not name the transform' % (name, m, src_m),
            'measure:' + name)
    if not (name == 'rank' and src_m is not None and '(ranks)' in src_m):
        require(m != src_m, '%s: measure name %r not updated' % (name, m), 'measure:' + name)


@st.composite
def stack(draw, kinds, nan=False, n_cond=None, n_rdm=None, scale=True, nonconstant=False):
    n_cond = n_cond or draw(st.integers(3, 6))
    n_rdm = n_rdm or draw(st.integers(1, 3))
    kind = draw(st.sampled_from(kinds))
    length = ref.n_pairs(n_cond)
    el = U.scalar(kind)
    vecs = [draw(st.lists(el, min_size=length, max_size=length)) for _ in range(n_rdm)]
    vecs = [[float(x) for x in v] for v in vecs]
    if nonconstant:
        vecs = [U.fix_constant(v) for v in vecs]
    e = draw(st.integers(-20, 20)) if scale and draw(st.booleans()) else 0
    vecs = [[x * 2.0 ** e for x in v] for v in vecs]
    n_nan = 0
    if nan and draw(st.booleans()):
        for v in vecs:
            mask = draw(st.integers(0, 2 ** length - 2))
            for k in range(length):
                if mask >> k & 1:
                    v[k] = float('nan')
                    n_nan += 1
    return dict(n_cond=n_cond, n_rdm=n_rdm, kind=kind, exp=e, vecs=vecs)


def value_labels(case):
    flat = [x for v in case['vecs'] for x in v]
    fin = [x for x in flat if not math.isnan(x)]
    labels = ['kind:' + case['kind'], 'n_rdm=%d' % case['n_rdm'], 'scale:%s' % (
        'unit' if case['exp'] == 0 else 'small' if case['exp'] < 0 else 'large')]
    ties = any(len(set(x for x in v if not math.isnan(x))) < len([x for x in v if not math.isnan(x)])
               for v in case['vecs'])
    neg = any(x < 0 for x in fin)
    nan = len(fin) < len(flat)
    labels += ['ties' if ties else 'tie-free', 'negatives' if neg else 'non-negative',
               'nan' if nan else 'no-nan']
    d = case.get('desc')
    if d:
        cont = {v['container'] for dd in (d['rdm_descriptors'], d['pattern_descriptors']) for v in dd.values()}
        for c in sorted(cont):
            labels.append('desc:' + c)
        labels.append('measure:' + ('none' if d['measure'] is None else 'named'))
    return labels, (ties or neg or nan)


# ---- sub-check: rank_transform ---------------------------------------------------------

@st.composite
def rank_case(draw):
    c = draw(stack(['smallint', 'few', 'grid', 'float'], nan=True))
    c['method'] = draw(st.sampled_from(RANK_METHODS))
    c['desc'] = draw(descriptor_set(c['n_rdm'], c['n_cond']))
    return c


def check_rank(case):
    src = build(case['vecs'], case['desc'])
    out = lib(T.rank_transform, src, method=case['method'], on_error='violation',
              sig='raises:rank_transform')
    check_meta(out, src, case['desc'], case['n_rdm'], case['n_cond'], 'rank', 'ranks')
    got = np.asarray(out.dissimilarities, dtype=float)
    for i, v in enumerate(case['vecs']):
        want = ref.ranks(v, case['method'])
        require_close(got[i], want, 'rank_transform(method=%s) of RDM %d' % (case['method'], i),
                      'value:rank:' + ('nan' if any(math.isnan(x) for x in v) else 'plain'),
                      rtol=0, atol=0)


def classify_rank(case):
    labels, nt = value_labels(case)
    return labels + ['rank:' + case['method']], nt


# ---- sub-check: element-wise transforms and the custom transform ---------------------------

FUNS = {
    'square': lambda v: v ** 2,
    'negate': lambda v: -v,
    'shift': lambda v: v + 1.5,
    'reverse': lambda v: v[:, ::-1],
    'cumsum': lambda v: np.cumsum(v, axis=1),
    'minus-first-rdm': lambda v: v - v[0:1],
    'row-normalise': lambda v: v / (np.abs(v).sum(axis=1, keepdims=True) + 1.0),
}


@st.composite
def elementwise_case(draw):
    which = draw(st.sampled_from(['sqrt', 'positive', 'minmax', 'custom']))
    c = draw(stack(['smallint', 'grid', 'float', 'pos', 'few'], nan=which in ('sqrt', 'positive'),
                   nonconstant=(which == 'minmax')))
    c['transform'] = which
    c['fun'] = draw(st.sampled_from(sorted(FUNS))) if which == 'custom' else None
    c['desc'] = draw(descriptor_set(c['n_rdm'], c['n_cond']))
    return c


def check_elementwise(case):
    which = case['transform']
    src = build(case['vecs'], case['desc'])
    x = np.array(case['vecs'], dtype=float)
    if which == 'sqrt':
        out = lib(T.sqrt_transform, src, on_error='violation', sig='raises:sqrt_transform')
        want = np.array([[float('nan') if math.isnan(e) else math.sqrt(max(e, 0.0)) for e in v]
                         for v in case['vecs']])
        kw = 'sqrt'
    elif which == 'positive':
        out = lib(T.positive_transform, src, on_error='violation', sig='raises:positive_transform')
        want = np.array([[float('nan') if math.isnan(e) else max(e, 0.0) for e in v]
                         for v in case['vecs']])
        kw = ''
    elif which == 'minmax':
        if any(max(v) == min(v) for v in case['vecs']):
            raise Reject('constant RDM', 'degenerate:constant-rdm')
        out = lib(T.minmax_transform, src, on_error='violation', sig='raises:minmax_transform')
        want = np.array([[(e - min(v)) / (max(v) - min(v)) for e in v] for v in case['vecs']])
        kw = 'minmax'
    else:
        calls = []
        f = FUNS[case['fun']]

        def fun(v):
            calls.append(np.array(v, dtype=float, copy=True))
            return f(np.array(v, dtype=float, copy=True))
        out = lib(T.transform, src, fun, on_error='violation', sig='raises:transform')
        require(len(calls) == 1 and core.close(calls[0], x, 0, 0),
                'transform(fun): fun was called %d time(s), argument equals the vectors: %s' % (
                    len(calls), bool(calls) and core.close(calls[0], x, 0, 0)), 'value:custom:argument')
        want = f(x.copy())
        kw = 'transformed'
    check_meta(out, src, case['desc'], case['n_rdm'], case['n_cond'], which if which != 'custom' else 'custom', kw)
    # 'return RDMs': the object that was transformed still holds its own values (it is evaluated and
    # transformed again afterwards, e.g. the data RDMs next to their square roots)
    fresh = np.asarray(build(case['vecs'], case['desc']).dissimilarities, dtype=float)
    require(np.array_equal(np.asarray(src.dissimilarities, dtype=float), fresh, equal_nan=True),
            '%s transform changed the RDMs it was given: %s -> %s' % (
                which, core._short(fresh), core._short(np.asarray(src.dissimilarities, dtype=float))),
            'source-changed:' + which)
    got = np.asarray(out.dissimilarities, dtype=float)
    require_close(got, want, '%s transform%s' % (which, '' if which != 'custom' else ' ' + case['fun']),
                  'value:' + which, rtol=1e-12, atol=0)
    if which == 'minmax':
        for i in range(case['n_rdm']):
            require(got[i].min() == 0.0 and got[i].max() == 1.0,
                    'minmax: RDM %d spans [%r,%r]' % (i, got[i].min(), got[i].max()), 'value:minmax:range')


def classify_elementwise(case):
    labels, nt = value_labels(case)
    labels.append('transform:' + case['transform'] + ('' if not case['fun'] else ':' + case['fun']))
    return labels, nt or case['transform'] in ('minmax', 'custom')


# ---- sub-check: geo-topological transform ------------------------------------------------------

QUANT = [0.0, 0.05, 0.1, 0.2, 0.25, 0.3, 0.4, 0.5, 0.6, 0.7, 0.75, 0.8, 0.9, 0.95, 1.0]


@st.composite
def geotop_case(draw):
    n_rdm = 1 if draw(st.integers(0, 9)) < 7 else draw(st.integers(2, 3))
    c = draw(stack(['pos', 'posfloat', 'grid', 'smallint', 'unit'], n_rdm=n_rdm, nonconstant=True))
    if draw(st.booleans()):
        i = draw(st.integers(0, len(QUANT) - 2))
        j = draw(st.integers(i + 1, len(QUANT) - 1))
        low, up = QUANT[i], QUANT[j]
    else:
        a = draw(st.integers(0, 99))
        b = draw(st.integers(a + 1, 100))
        low, up = a / 100.0, b / 100.0
    c['low'], c['up'] = low, up
    c['desc'] = draw(descriptor_set(c['n_rdm'], c['n_cond']))
    return c


def geotop_oracle(vecs, low, up):
    flat = [e for v in vecs for e in v]
    lo_t = float(np.quantile(np.array(vecs, dtype=float), low))
    up_t = float(np.quantile(np.array(vecs, dtype=float), up))
    scale = max(abs(e) for e in flat) or 1.0
    if abs(U.quantile_linear(flat, low) - lo_t) > 1e-12 * scale or \
            abs(U.quantile_linear(flat, up) - up_t) > 1e-12 * scale:
        raise Reject('numpy.quantile differs from explicit interpolation', 'harness:quantile')
    want = []
    for v in vecs:
        row = []
        for e in v:
            if e < lo_t:
                row.append(0.0)
            elif e > up_t:
                row.append(1.0)
            elif up_t == lo_t:
                row.append(None)          # 0/0: not asserted
            else:
                row.append((e - lo_t) / (up_t - lo_t))
        want.append(row)
    return want, lo_t, up_t


def check_geotop(case):
    src = build(case['vecs'], case['desc'])
    want, lo_t, up_t = geotop_oracle(case['vecs'], case['low'], case['up'])
    out = lib(T.geotopological_transform, src, case['low'], case['up'], on_error='violation',
              sig='raises:geotopological_transform')
    check_meta(out, src, case['desc'], case['n_rdm'], case['n_cond'], 'geotopological', 'geo-topological')
    got = np.asarray(out.dissimilarities, dtype=float)
    for i, row in enumerate(want):
        for k, w in enumerate(row):
            if w is None:
                continue
            if not core.close(got[i, k], w, 1e-9, 1e-12):
                x = case['vecs'][i][k]
                region = 'below' if x < lo_t else 'above' if x > up_t else 'between'
                raise Violation(
                    'geotopological_transform(low=%g, up=%g): thresholds [%r, %r]; entry %r (%s) of RDM %d '
                    'mapped to %r, clipped-linear map gives %r' % (
                        case['low'], case['up'], lo_t, up_t, x, region, i, float(got[i, k]), w),
                    'value:geotopological')


def classify_geotop(case):
    labels, _ = value_labels(case)
    flat = [e for v in case['vecs'] for e in v]
    lo_t = float(np.quantile(np.array(flat), case['low']))
    up_t = float(np.quantile(np.array(flat), case['up']))
    inside = min(flat) < lo_t and up_t < max(flat) and lo_t < up_t
    labels.append('thresholds:strictly-inside' if inside else 'thresholds:at-edge-or-equal')
    labels.append('upper<1' if up_t < 1 else 'upper>=1')
    labels.append('lower<0' if lo_t < 0 else 'lower>=0')
    labels.append('stack' if case['n_rdm'] > 1 else 'single-rdm')
    return labels, inside


# ---- sub-check: geodesic transform ----------------------------------------------------------------

@st.composite
def geodesic_case(draw):
    c = draw(stack(['pos', 'grid', 'smallint', 'few', 'posfloat'], nonconstant=True, scale=False))
    c['desc'] = draw(descriptor_set(c['n_rdm'], c['n_cond']))
    return c


def geodesic_oracle(vec, n):
    lo, hi = min(vec), max(vec)
    mm = [(e - lo) / (hi - lo) for e in vec]
    sq = ref.to_square(mm, n)
    w = [[None] * n for _ in range(n)]
    removed = zero = 0
    for (i, j) in ref.pairs(n):
        x = float(sq[i, j])
        if x == 0.0:
            zero += 1          # adjacency convention: no edge
        elif x == 1.0:
            removed += 1       # maximal edge removed
        else:
            w[i][j] = w[j][i] = x
    d = U.floyd_warshall(w)
    out = [d[i][j] for (i, j) in ref.pairs(n)]
    detour = any(o != m for o, m in zip(out, mm))
    return out, detour


def check_geodesic(case):
    if any(max(v) == min(v) for v in case['vecs']):
        raise Reject('constant RDM', 'degenerate:constant-rdm')
    src = build(case['vecs'], case['desc'])
    out = lib(T.geodesic_transform, src, on_error='violation', sig='raises:geodesic_transform')
    check_meta(out, src, case['desc'], case['n_rdm'], case['n_cond'], 'geodesic', 'geodesic')
    got = np.asarray(out.dissimilarities, dtype=float)
    for i, v in enumerate(case['vecs']):
        want, _ = geodesic_oracle(v, case['n_cond'])
        require_close(got[i], want, 'geodesic_transform of RDM %d: shortest paths in the min-max graph '
                      'without its maximal edges' % i, 'value:geodesic', rtol=1e-9, atol=1e-12)
    # the same on RDMs that are min-max normalised already (output of minmax_transform, 0/1 category
    # models): same distances, and the object handed in still holds its own values afterwards
    mm = lib(T.minmax_transform, build(case['vecs'], case['desc']), on_error='violation',
             sig='raises:minmax_transform')
    held = np.array(mm.dissimilarities, dtype=float, copy=True)
    out2 = lib(T.geodesic_transform, mm, on_error='violation', sig='raises:geodesic_transform')
    require(np.array_equal(np.asarray(mm.dissimilarities, dtype=float), held, equal_nan=True),
            'geodesic_transform overwrote the (already normalised) RDMs it was given: %s -> %s' % (
                core._short(held), core._short(np.asarray(mm.dissimilarities, dtype=float))),
            'geodesic:source-overwritten')
    require_close(np.asarray(out2.dissimilarities, dtype=float), got,
                  'geodesic_transform of the min-max normalised RDMs vs of the RDMs themselves',
                  'value:geodesic:normalised-input', rtol=1e-9, atol=1e-12)



def classify_geodesic(case):
    labels, _ = value_labels(case)
    detours = [geodesic_oracle(v, case['n_cond']) for v in case['vecs'] if max(v) > min(v)]
    inf = any(math.isinf(x) for o, _ in detours for x in o)
    labels.append('geodesic:unreachable-pair' if inf else 'geodesic:connected')
    short = any(any(o[k] < (v[k] - min(v)) / (max(v) - min(v)) for k in range(len(v)))
                for (o, _), v in zip(detours, [v for v in case['vecs'] if max(v) > min(v)]))
    labels.append('geodesic:shortcut' if short else 'geodesic:no-shortcut')
    return labels, True


# ---- sub-check: invariance of the measures ------------------------------------------------------------

RANK_MEASURES = ['spearman', 'rho-a', 'tau-a', 'kendall', 'tau-b']
COS_MEASURES = ['cosine', 'cosine_cov']
CORR_MEASURES = ['corr', 'corr_cov']
SCALES = [2.0 ** -10, 0.001, 0.125, 0.3, 1.0, 3.0, 7.5, 1000.0, 2.0 ** 12]


@st.composite
def a_map(draw, cls, nonneg):
    if cls == 'rank':
        opts = ['identity', 'affine', 'cube', 'exp', 'lib-rank', 'lib-minmax', 'pow2', 'lib-rank>sqrt',
                'lib-rank>sqrt'] + (['lib-sqrt'] if nonneg else [])
    elif cls == 'cos':
        opts = ['identity', 'scale', 'scale', 'pow2']
    else:
        opts = ['identity', 'affine', 'affine', 'lib-minmax', 'pow2']
    k = draw(st.sampled_from(opts))
    m = {'kind': k}
    if k == 'pow2':
        # exact change of units by a power of two (strictly increasing, bit-exact order): values
        # that differ by far less than any absolute tolerance must still rank the same
        m['e'] = draw(st.sampled_from([-90, -40, -20, 30, 70]))
    if k in ('affine', 'scale'):
        m['a'] = draw(st.sampled_from(SCALES))
    if k == 'affine':
        m['b'] = draw(gen.grid_float(kmax=64, mmax=2))
    if k in ('lib-rank', 'lib-rank>sqrt'):
        m['method'] = draw(st.sampled_from(['average', 'min', 'max', 'dense']))
    return m


LIB_OBJECTS = {}


def apply_map(m, vecs, slot=None):
    """returns the mapped vectors (list of lists); for library transforms the RDMs object the
    library returned (measure name included) is kept in LIB_OBJECTS[slot] and handed to compare()
    as it is - a chain of transforms must not leave a label behind that changes a comparison"""
    k = m['kind']
    x = np.array(vecs, dtype=float)
    LIB_OBJECTS.pop(slot, None)
    if k == 'lib-rank>sqrt':
        o1 = lib(T.rank_transform, RDMs(x.copy()), method=m['method'], on_error='violation',
                 sig='raises:rank_transform')
        o2 = lib(T.sqrt_transform, o1, on_error='violation', sig='raises:sqrt_transform')
        LIB_OBJECTS[slot] = o2
        return np.array(o2.get_vectors(), dtype=float).tolist()
    if k == 'identity':
        y = x
    elif k == 'scale':
        y = x * m['a']
    elif k == 'affine':
        y = x * m['a'] + m['b']
    elif k == 'pow2':
        y = x * 2.0 ** m['e']
    elif k == 'cube':
        y = x ** 3
    elif k == 'exp':
        y = np.exp(x / 4.0)
    elif k == 'lib-sqrt':
        o = lib(T.sqrt_transform, RDMs(x.copy()), on_error='violation', sig='raises:sqrt_transform')
        LIB_OBJECTS[slot] = o
        y = o.get_vectors()
    elif k == 'lib-rank':
        o = lib(T.rank_transform, RDMs(x.copy()), method=m['method'], on_error='violation',
                sig='raises:rank_transform')
        LIB_OBJECTS[slot] = o
        y = o.get_vectors()
    elif k == 'lib-minmax':
        o = lib(T.minmax_transform, RDMs(x.copy()), on_error='violation',
                sig='raises:minmax_transform')
        LIB_OBJECTS[slot] = o
        y = o.get_vectors()
    else:
        raise ValueError(k)
    return np.array(y, dtype=float).tolist()


def order_isomorphic(a, b):
    n = len(a)
    for i in range(n):
        for j in range(i + 1, n):
            if (a[i] > a[j]) - (a[i] < a[j]) != (b[i] > b[j]) - (b[i] < b[j]):
                return False
    return True


@st.composite
def invariance_case(draw):
    cls = draw(st.sampled_from(['rank', 'rank', 'cos', 'corr']))
    method = draw(st.sampled_from({'rank': RANK_MEASURES, 'cos': COS_MEASURES, 'corr': CORR_MEASURES}[cls]))
    n = draw(st.integers(3, 6))
    n1, n2 = draw(U.stack_sizes())
    nonneg = draw(st.booleans())
    kinds = ['pos', 'few'] if nonneg else (['smallint', 'grid', 'few', 'pos'] if cls == 'rank' else ['grid', 'smallint', 'float'])
    kind = draw(st.sampled_from(kinds))
    length = ref.n_pairs(n)
    sigma = None
    if method in ('cosine_cov', 'corr_cov'):
        sk = draw(st.sampled_from(['none', 'vector', 'matrix']))
        sigma = None if sk == 'none' else draw(U.sigma_vector(n) if sk == 'vector' else U.sigma_matrix(n))
    return dict(cls=cls, method=method, n_cond=n, kind=kind, sigma=sigma,
                v1=draw(U.vectors(n1, length, kind)), v2=draw(U.vectors(n2, length, kind)),
                map1=draw(a_map(cls, nonneg)), map2=draw(a_map(cls, nonneg)))


def _compare(method, v1, v2, sigma, objs=(None, None)):
    sk = None if sigma is None else np.array(sigma, dtype=float)
    a = objs[0] if objs[0] is not None else RDMs(np.array(v1, dtype=float))
    b = objs[1] if objs[1] is not None else RDMs(np.array(v2, dtype=float))
    if method in ('cosine_cov', 'corr_cov'):
        return np.asarray(lib(C.compare, a, b, method=method, sigma_k=sk, on_error='violation',
                              sig='raises:compare:' + method), dtype=float)
    return np.asarray(lib(C.compare, a, b, method=method, on_error='violation',
                          sig='raises:compare:' + method), dtype=float)


def check_invariance(case):
    m, sigma, n = case['method'], case['sigma'], case['n_cond']
    v1, v2 = case['v1'], case['v2']
    before = _compare(m, v1, v2, sigma)
    w1, w2 = apply_map(case['map1'], v1, 1), apply_map(case['map2'], v2, 2)
    objs = (LIB_OBJECTS.pop(1, None), LIB_OBJECTS.pop(2, None))
    if case['cls'] == 'rank':
        for a, b in list(zip(v1, w1)) + list(zip(v2, w2)):
            if not order_isomorphic(a, b):
                if case['map1']['kind'].startswith('lib-') or case['map2']['kind'].startswith('lib-'):
                    raise Violation('library transform %s/%s is not strictly increasing on %r -> %r' % (
                        case['map1']['kind'], case['map2']['kind'], a, b), 'invariance:transform-not-monotone')
                raise Reject('generated map not order-preserving in floating point', 'harness:map')
    after = _compare(m, w1, w2, sigma, objs)
    if sigma is None:
        rtol, atol = 1e-9, 1e-9
    else:
        atol = 2 * max(1e-4, 3e-5 * math.sqrt(np.linalg.cond(ref.dense_v(n, sigma))))
        rtol = 0.0
    require_close(after, before, '%s after maps %s / %s of the two stacks vs before' % (
        m, case['map1'], case['map2']), 'invariance:%s:%s' % (case['cls'], m), rtol=rtol, atol=atol)


def classify_invariance(case):
    k1, k2 = case['map1']['kind'], case['map2']['kind']
    labels = ['method:' + case['method'], 'map:' + k1, 'map:' + k2, 'class:' + case['cls'],
              'sigma:' + ('none' if case['sigma'] is None else 'given')]
    ties = any(U.has_ties(v) for v in case['v1'] + case['v2'])
    labels.append('ties' if ties else 'tie-free')
    labels.append('maps:both' if k1 != 'identity' and k2 != 'identity' else
                  'maps:one' if k1 != k2 else 'maps:none')
    return labels, (k1 != 'identity' or k2 != 'identity')


# ---- sub-check: eval_fixed with rank measures before / after sqrt_transform ----------------------------

@st.composite
def evalfixed_case(draw):
    n = draw(st.integers(3, 6))
    length = ref.n_pairs(n)
    kind = draw(st.sampled_from(['pos', 'few', 'posfloat']))
    n_models = draw(st.integers(1, 3))
    n_data = draw(st.integers(1, 3))
    return dict(n_cond=n, kind=kind, method=draw(st.sampled_from(RANK_MEASURES[:4])),
                models=draw(U.vectors(n_models, length, kind)), data=draw(U.vectors(n_data, length, kind)),
                sqrt_models=draw(st.booleans()))


def check_evalfixed(case):
    from rsatoolbox.model import ModelFixed
    from rsatoolbox.inference import eval_fixed

    def run(models, data):
        ms = [ModelFixed('m%d' % i, RDMs(np.array([v], dtype=float))) for i, v in enumerate(models)]
        res = lib(eval_fixed, ms, data, method=case['method'], on_error='violation', sig='raises:eval_fixed')
        return np.asarray(res.evaluations, dtype=float)
    data = RDMs(np.array(case['data'], dtype=float))
    before = run(case['models'], data)
    data_t = lib(T.sqrt_transform, RDMs(np.array(case['data'], dtype=float)), on_error='violation',
                 sig='raises:sqrt_transform')
    models_t = case['models']
    if case['sqrt_models']:
        models_t = [lib(T.sqrt_transform, RDMs(np.array([v], dtype=float)), on_error='violation',
                        sig='raises:sqrt_transform').get_vectors()[0].tolist() for v in case['models']]
    after = run(models_t, data_t)
    require(before.shape == (1, len(case['models']), len(case['data'])),
            'eval_fixed evaluations shape %s' % (before.shape,), 'evalfixed:shape')
    require_close(after, before, 'eval_fixed(method=%s) after sqrt_transform of the data%s' % (
        case['method'], ' and models' if case['sqrt_models'] else ''), 'invariance:eval_fixed:' + case['method'],
        rtol=1e-9, atol=1e-9)
    # and the evaluations are the direct comparisons
    for k, v in enumerate(case['models']):
        want = ref.compare(case['method'], [v], case['data'])
        require_close(before[0, k], want[0], 'eval_fixed evaluation of model %d' % k,
                      'evalfixed:value:' + case['method'], rtol=1e-9, atol=1e-10)


def classify_evalfixed(case):
    ties = any(U.has_ties(v) for v in case['models'] + case['data'])
    return ['method:' + case['method'], 'ties' if ties else 'tie-free',
            'sqrt:data+models' if case['sqrt_models'] else 'sqrt:data'], True


# ---- sub-check: 0/1 model RDMs held as boolean / small-integer arrays ----------------------------------

STORAGE = ['bool', 'bool', 'bool', 'uint8', 'int8', 'int32']
ALL_MEASURES = COS_MEASURES + CORR_MEASURES + RANK_MEASURES


@st.composite
def storage_case(draw):
    """a 0/1 model stack (category 'different group' masks or free 0/1 patterns, never constant)
    stored as bool / small ints, against a float data stack; the same numbers as float64 after
    the positive scaling / affine / increasing map the measure is invariant under"""
    n = draw(st.integers(3, 6))
    length = ref.n_pairs(n)
    n_model = draw(st.integers(1, 3))
    masks = []
    for _ in range(n_model):
        if draw(st.booleans()):
            cat = draw(st.lists(st.integers(0, 2), min_size=n, max_size=n))
            v = [int(cat[i] != cat[j]) for (i, j) in ref.pairs(n)]
        else:
            v = draw(st.lists(st.integers(0, 1), min_size=length, max_size=length))
        if max(v) == min(v):
            v[0] = 1 - v[0]
        masks.append(v)
    method = draw(st.sampled_from(ALL_MEASURES))
    cls = 'cos' if method in COS_MEASURES else 'corr' if method in CORR_MEASURES else 'rank'
    kind = draw(st.sampled_from(['pos', 'grid', 'float']))
    data = draw(U.vectors(draw(st.integers(1, 3)), length, kind))
    a = draw(st.sampled_from(SCALES))
    b = 0.0 if cls == 'cos' else float(draw(gen.grid_float(kmax=64, mmax=2)))
    return dict(n_cond=n, masks=masks, data=data, method=method, cls=cls, kind=kind, a=a, b=b,
                dtype=draw(st.sampled_from(STORAGE)),
                position=draw(st.sampled_from(['first', 'second', 'both'])),
                form=draw(st.sampled_from(['RDMs', 'RDMs', 'ndarray'])))


def check_storage(case):
    m = case['method']
    stored = np.array(case['masks'], dtype=case['dtype'])
    held = RDMs(stored.copy())
    if np.asarray(held.dissimilarities).dtype != stored.dtype:
        # the object converted the values itself: the class 'stored as bool' is not reached
        raise Reject('RDMs does not keep dtype %s' % case['dtype'], 'harness:storage-dtype')
    arg = held if case['form'] == 'RDMs' else stored.copy()
    as_float = np.array(case['masks'], dtype=float) * case['a'] + case['b']
    data = np.array(case['data'], dtype=float)

    def run(x, y):
        return np.asarray(lib(C.compare, x, y, method=m, on_error='violation',
                              sig='raises:compare:' + m), dtype=float)
    if case['position'] == 'first':
        got, want = run(arg, RDMs(data.copy())), run(RDMs(as_float), RDMs(data.copy()))
    elif case['position'] == 'second':
        got, want = run(RDMs(data.copy()), arg), run(RDMs(data.copy()), RDMs(as_float))
    else:
        got, want = run(arg, arg), run(RDMs(as_float), RDMs(as_float.copy()))
    require_close(got, want, '%s with the 0/1 stack %s stored as %s (%s, %s argument) vs the same numbers '
                  'as float64 mapped by x -> %r*x + %r' % (
                      m, core._short(stored.astype(int)), case['dtype'], case['form'], case['position'],
                      case['a'], case['b']),
                  'invariance:stored-%s:%s' % ('bool' if case['dtype'] == 'bool' else 'int', m),
                  rtol=1e-9, atol=1e-9)


def classify_storage(case):
    return ['method:' + case['method'], 'class:' + case['cls'], 'dtype:' + case['dtype'],
            'position:' + case['position'], 'form:' + case['form'],
            'map:' + ('identity' if case['a'] == 1.0 and case['b'] == 0.0 else 'scaled')], True


SUBCHECKS = [
    SubCheck('rank', rank_case(), check_rank, classify_rank, quick=600,
             doc='rank_transform: tie-aware ranks among non-missing entries per RDM, five methods; '
                 'descriptors and measure name'),
    SubCheck('elementwise', elementwise_case(), check_elementwise, classify_elementwise, quick=1000,
             doc='sqrt / positive / minmax / custom transform(fun): values, fun called once with the '
                 'vectors; descriptors and measure name'),
    SubCheck('geotopological', geotop_case(), check_geotop, classify_geotop, quick=800,
             doc='geo-topological transform = clipped-linear map between the two quantile thresholds'),
    SubCheck('geodesic', geodesic_case(), check_geodesic, classify_geodesic, quick=500,
             doc='geodesic transform = shortest paths in the min-max graph without maximal edges'),
    SubCheck('invariance', invariance_case(), check_invariance, classify_invariance, quick=1200,
             doc='compare() unchanged by strictly increasing maps (rank measures), positive scaling '
                 '(cosine types), positive affine maps (correlation types) of either argument'),
    SubCheck('eval_fixed', evalfixed_case(), check_evalfixed, classify_evalfixed, quick=200,
             doc='eval_fixed with rank measures identical before/after sqrt_transform of non-negative RDMs'),
    SubCheck('storage', storage_case(), check_storage, classify_storage, quick=300,
             doc='compare() of 0/1 model RDMs stored as bool / small-integer arrays (RDMs object or '
                 'ndarray, either or both arguments) equals compare() of the same numbers as float64 '
                 'after a positive scaling (cosine types) / positive affine map (correlation, rank types)'),
]
