"""Reference pooling / noise-ceiling computations shared by C07 and C13.

Pure numpy + vf.ref; nothing here imports rsatoolbox.  All functions work on a
plain 2-D array of dissimilarity vectors and a boolean `keep` mask of the entries
that exist (missing entries are *deleted*, never imputed).
"""
import itertools
import math

import numpy as np

from vf import ref

COS_TYPES = ('cosine', 'cosine_cov')
CORR_TYPES = ('corr', 'corr_cov')
RANK_TYPES = ('spearman', 'rho-a', 'kendall', 'tau-b', 'tau-a')
WHITENED = ('cosine_cov', 'corr_cov')


def reset_fp():
    """restore numpy's default floating-point error handling.

    core.watchdog aborts a spinning library call with an exception raised from a signal
    handler; when that lands inside numpy.linalg's `with errstate(call=_raise_linalgerror_singular,
    invalid='call')` enter/exit, the state leaks into the worker process and every later 0/0
    (e.g. the NaN-aware mean of a pair no RDM has) raises 'LinAlgError: Singular matrix'.
    Observed in a thorough run after fit_regress_nn had been aborted in the same process."""
    np.seterr(divide='warn', over='warn', under='ignore', invalid='warn')
    np.seterrcall(None)


def guarded(check):
    def run(case):
        reset_fp()
        return check(case)
    run.__name__ = getattr(check, '__name__', 'check')
    return run


class Degenerate(Exception):
    """the reference value is undefined (0/0) - the case is outside the domain"""


def check_pooled(pred, method):
    """a pooled vector that vanishes (after centring for correlation / rank types) has no
    defined similarity; in floating point its direction would be rounding noise"""
    pred = np.asarray(pred, float)
    if not np.all(np.isfinite(pred)):
        raise Degenerate('pooled vector not finite')
    c = pred if method in COS_TYPES else pred - pred.mean()
    if math.sqrt(float(c @ c)) < 1e-7 * max(1.0, float(np.max(np.abs(pred)))):
        raise Degenerate('pooled vector vanishes')


def unit(x):
    x = np.asarray(x, float)
    nrm = math.sqrt(float(x @ x))
    return x / nrm


def standardise(x):
    x = np.asarray(x, float)
    return unit(x - x.mean())


def pool(vecs, method):
    """direction of the best-fitting single RDM for complete vectors (no NaN):
    cosine types : mean of the unit-length vectors
    corr types   : mean of the centred unit-length vectors
    rank types   : mean of the (tie-averaged) rank vectors
    The result is defined up to the invariance of the measure (positive scale /
    positive affine map / monotone map)."""
    vecs = np.atleast_2d(np.asarray(vecs, float))
    if method in COS_TYPES:
        rows = [unit(v) for v in vecs]
    elif method in CORR_TYPES:
        rows = [standardise(v) for v in vecs]
    elif method in RANK_TYPES:
        rows = [ref.ranks(list(v)) for v in vecs]
    elif method in ('euclid', 'neg_riem_dist'):
        rows = [np.asarray(v, float) for v in vecs]
    else:
        raise ValueError(method)
    acc = np.zeros(vecs.shape[1])
    for r in rows:
        acc = acc + r
    return acc / len(rows)


def pool_whitened(vecs, method, v):
    """pooling used by util.pooling.pool_rdm for whitened measures: every vector is
    brought to unit length in the V^-1 inner product (after plain centring for
    corr_cov), then averaged"""
    vecs = np.atleast_2d(np.asarray(vecs, float))
    vi = np.linalg.inv(v)
    acc = np.zeros(vecs.shape[1])
    for x in vecs:
        if method == 'corr_cov':
            x = x - x.mean()
        acc = acc + x / math.sqrt(float(x @ vi @ x))
    return acc / len(vecs)


def similarity(method, a, b, v=None):
    """similarity of two complete vectors; v = dense V (already restricted)"""
    try:
        if method in WHITENED:
            return ref.s_whitened(a, b, v, center=(method == 'corr_cov'))
        return ref.sim(method, a, b)
    except ZeroDivisionError:
        raise Degenerate('similarity undefined')


def groups_of(labels):
    """sorted distinct labels (the library uses np.unique) -> list of index lists"""
    out = []
    for lab in sorted(set(labels)):
        out.append([i for i, g in enumerate(labels) if g == lab])
    return out


def dense_v_kept(n, keep, sigma_k=None):
    v = ref.dense_v(n, sigma_k)
    keep = np.asarray(keep, bool)
    return v[keep][:, keep]


def ceilings(vecs, groups, method, n=None, keep=None, pool_fn=None, sigma_k=None):
    """(lower, upper) by an explicit leave-one-group-out loop.

    vecs   : n_rdm x n_pairs (entries outside keep are ignored entirely)
    groups : list of lists of row indices
    lower  : mean over groups g of mean_{i in g} sim(pool(rows not in g), x_i)
    upper  : mean over groups g of mean_{i in g} sim(pool(all rows), x_i)
    raises Degenerate when a pooled vector vanishes or a similarity is 0/0
    """
    vecs = np.atleast_2d(np.asarray(vecs, float))
    if keep is None:
        keep = np.ones(vecs.shape[1], bool)
    keep = np.asarray(keep, bool)
    x = vecs[:, keep]
    v = None
    if method in WHITENED:
        v = dense_v_kept(n or ref.n_from_len(vecs.shape[1]), keep, sigma_k)
    pool_fn = pool_fn or pool
    every = pool_fn(x, method)
    check_pooled(every, method)
    lows, ups = [], []
    for g in groups:
        rest = [i for i in range(len(x)) if i not in g]
        pred = pool_fn(x[rest], method)
        check_pooled(pred, method)
        lo = [similarity(method, pred, x[i], v) for i in g]
        up = [similarity(method, every, x[i], v) for i in g]
        lows.append(sum(lo) / len(lo))
        ups.append(sum(up) / len(up))
    lo, up = sum(lows) / len(lows), sum(ups) / len(ups)
    if not (math.isfinite(lo) and math.isfinite(up)):
        raise Degenerate('similarity undefined')
    return lo, up


def analytic_upper(vecs, method):
    """closed-form maximum over ALL candidate vectors c of mean_i sim(c, x_i),
    derived independently of any pooling rule (singleton groups).

    cosine: mean_i <c/|c|, u_i> = <c/|c|, mean u_i>  ->  max = |mean u_i|
    corr  : same with centred unit vectors z_i (c may be centred w.l.o.g.)
    rho-a : 12/(n^3-n) <rank(c)-m, s>, s = mean centred rank vector; mid-ranks of a
            tied c are the average of its tie-breakings, so a strict ordering is
            optimal; by the rearrangement inequality the best one sorts like s.
    returns (value, one optimal candidate)"""
    vecs = np.atleast_2d(np.asarray(vecs, float))
    p = vecs.shape[1]
    if method == 'cosine':
        m = np.mean([unit(v) for v in vecs], axis=0)
        return math.sqrt(float(m @ m)), m
    if method == 'corr':
        m = np.mean([standardise(v) for v in vecs], axis=0)
        return math.sqrt(float(m @ m)), m
    if method == 'rho-a':
        s = np.mean([ref.ranks(list(v)) - (p + 1) / 2.0 for v in vecs], axis=0)
        order = sorted(range(p), key=lambda k: (s[k], k))
        cand = np.zeros(p)
        for pos, k in enumerate(order):
            cand[k] = pos + 1.0
        val = 12.0 * float((cand - (p + 1) / 2.0) @ s) / (p ** 3 - p)
        return val, cand
    raise ValueError(method)


def weak_orders(p):
    """all rank vectors with ties on p entries, as tuples of dense ranks
    (ordered set partitions: 1, 3, 13, 75, 541, 4683 for p = 1..6)"""
    out = []
    for levels in itertools.product(range(p), repeat=p):
        k = max(levels) + 1
        if set(levels) == set(range(k)):
            out.append(tuple(float(x) for x in levels))
    return out
