"""C06 - reported uncertainties and p-values are coherent with the evaluations."""
import math

import numpy as np
from hypothesis import strategies as st
from scipy.stats import t as tdist

from vf import core, gen, ref
from vf.core import SubCheck, Violation, Reject, lib, require, require_close

from rsatoolbox.inference import Result, eval_fixed
from rsatoolbox.inference import evaluate as EV
from rsatoolbox.model import ModelFixed
from rsatoolbox.rdm import RDMs
from rsatoolbox.util import inference_util as IU

RULE = ("Four generated families. (1) eval_fixed on generated data stacks (2-9 RDMs, 4-6 conditions, "
        "1-4 distinct fixed models, 7 comparison methods): sem / pairwise / zero / ceiling p-values "
        "against hand-computed across-subject t statistics (tail areas from scipy.stats.t). "
        "(2) extract_variances and Result on scalar / vector / PSD matrix (incl. singular) / 3-stack "
        "covariances with or without ceiling rows, n_rdm,n_pattern in {None,2..30}: loop-based "
        "contrasts, n/(n-1) factor, own dual-bootstrap formula and its stated bounds. (3) synthetic "
        "Result objects over evaluation arrays of the shapes every evaluation routine produces "
        "(1xMxn fixed, 1xMxk cross-validation, NxM, NxMxk, NxMxkxc, NxMxkxcx3 resampled with "
        "whole-resample NaN rows, per-resample or fixed ceilings), 1-5 models, dof 1-50, all "
        "applicable test types: t-test p-values from the stored covariance, range, symmetry, unit "
        "diagonal, means, sem, CI, test_all consistency, equivariance under a generated model "
        "permutation, monotonicity under a generated shift. (4) real eval_bootstrap* runs with a "
        "generated seed. Non-trivial: >=2 models with non-diagonal covariance, or NaN rows, or a "
        "3-stack; distinct by SHA1 of the case.")
ASSUMPTIONS = [
    "scipy.stats.t (cdf/sf/ppf) is the trusted base for tail areas",
    "the per-subject evaluations stored in Result.evaluations are taken as given (their "
    "correctness is property C04)",
    "rank-sum tests only on 3-D evaluations, bootstrap tests only on resampled evaluations "
    "(>=2 resamples) - the documented domains",
    "entries whose variance is below 1e-9 of its positive terms (cancellation) or below 1e-13 "
    "absolutely are not compared with the textbook value (the library floors variances at eps)",
    "the shape of bootstrap against-zero p-values for >2-D evaluations (one value per fold) is "
    "not asserted, only range and equivariance",
    "synthetic Result objects carry n_rdm / n_pattern the way the evaluation routines pass them to "
    "the constructor (fixed, bootstrap_rdm: n_rdm only; bootstrap_pattern: n_pattern only)",
    "exact values of bootstrap / rank-sum p-values are not asserted (the property states range, "
    "symmetry, diagonal and equivariance for them)",
]

EPS = float(np.finfo(float).eps)


# ---------------------------------------------------------------------------
# reference: variance extraction

def _factor(n_rdm, n_pattern):
    if n_rdm is not None and n_pattern is not None:
        n = min(n_rdm, n_pattern)
    elif n_pattern is not None:
        n = n_pattern
    elif n_rdm is not None:
        n = n_rdm
    else:
        return 1.0
    return n / (n - 1.0)


def _contrasts(v, m, nc):
    """v: square array (m or m+2). returns model(m), diff(n_pairs), ceil(m,2) and the
    magnitudes (sum of |terms|) of each entry for rounding tolerances"""
    mv = np.array([v[k][k] for k in range(m)], dtype=float)
    dv, dmag = [], []
    for (i, j) in ref.pairs(m):
        dv.append(v[i][i] + v[j][j] - 2 * v[i][j])
        dmag.append(abs(v[i][i]) + abs(v[j][j]) + 2 * abs(v[i][j]))
    cv = np.zeros((m, 2))
    cmag = np.zeros((m, 2))
    for k in range(m):
        for c in range(2):
            if nc:
                cv[k, c] = v[k][k] + v[m + c][m + c] - 2 * v[k][m + c]
                cmag[k, c] = abs(v[k][k]) + abs(v[m + c][m + c]) + 2 * abs(v[k][m + c])
            else:
                cv[k, c] = v[k][k]
                cmag[k, c] = abs(v[k][k])
    return (mv, np.array(dv, dtype=float).reshape(-1), cv), \
           (np.abs(mv), np.array(dmag, dtype=float).reshape(-1), cmag)


def _dual(v0, v1, v2, n_rdm, n_pattern):
    """own implementation of the documented dual-bootstrap combination, element-wise.
    returns (value, corrected one-factor variances a, b)"""
    if n_rdm is None or n_pattern is None:
        a, b = v1, v2
        v = 2 * (v1 + v2) - v0
    else:
        fr = n_rdm / (n_rdm - 1.0)
        fp = n_pattern / (n_pattern - 1.0)
        a, b = fr * v1, fp * v2
        v = a + b - fr * fp * (v0 - v1 - v2)
    v = np.where(v < a, a, v)
    v = np.where(v < b, b, v)
    v = np.where(v > v0, v0, v)
    return v, a, b


def own_variances(var, m, nc, n_rdm, n_pattern):
    """returns dict(model, diff, ceil, mag_model, mag_diff, mag_ceil[, bounds])"""
    var = np.asarray(var, dtype=float)
    if var.ndim == 0:
        var = var.reshape(1)
    if var.ndim == 1:
        var = np.diag(var)
    if var.ndim == 2:
        (mv, dv, cv), (mm, dm, cm) = _contrasts(var, m, nc)
        f = _factor(n_rdm, n_pattern)
        return dict(model=f * mv, diff=f * dv, ceil=f * cv,
                    mag_model=f * mm, mag_diff=f * dm, mag_ceil=f * cm, bounds=None)
    parts = [_contrasts(var[s], m, nc) for s in range(3)]
    out = {}
    bounds = {}
    big = 4.0
    if n_rdm is not None and n_pattern is not None:
        big = 4.0 * (n_rdm / (n_rdm - 1.0)) * (n_pattern / (n_pattern - 1.0))
    for idx, key in enumerate(['model', 'diff', 'ceil']):
        v0, v1, v2 = (parts[s][0][idx] for s in range(3))
        v, a, b = _dual(v0, v1, v2, n_rdm, n_pattern)
        out[key] = v
        out['mag_' + key] = big * (parts[0][1][idx] + parts[1][1][idx] + parts[2][1][idx])
        bounds[key] = (v0, a, b)
    out['bounds'] = bounds
    return out


def _vtol(mag):
    return 1e-12 * np.asarray(mag, dtype=float) + 1e-300


def compare_variances(got, own, what, sigbase):
    """got: (model_var, diff_var, nc_var) from the library"""
    names = ['model', 'diff', 'ceil']
    shapes = [own['model'].shape, own['diff'].shape, own['ceil'].shape]
    for g, key, shp in zip(got, names, shapes):
        g = np.asarray(g, dtype=float)
        require(g.shape == shp, '%s: %s variance has shape %s, expected %s' % (what, key, g.shape, shp),
                '%s:shape:%s' % (sigbase, key))
        tol = _vtol(own['mag_' + key])
        bad = ~(np.abs(g - own[key]) <= tol + 1e-12 * np.abs(own[key]))
        if bad.any():
            k = int(np.argmax(bad.reshape(-1)))
            raise Violation('%s: %s variance entry %d is %r, contrast of the stored covariance with the '
                            'documented correction gives %r' % (
                                what, key, k, float(g.reshape(-1)[k]), float(own[key].reshape(-1)[k])),
                            '%s:value:%s' % (sigbase, key))
    if own['bounds'] is not None:
        for g, key in zip(got, names):
            g = np.asarray(g, dtype=float)
            v0, a, b = own['bounds'][key]
            tol = _vtol(own['mag_' + key])
            require(bool(np.all(g <= v0 + tol)),
                    '%s: dual-bootstrap %s variance exceeds the two-factor bootstrap variance' % (what, key),
                    '%s:dual-upper:%s' % (sigbase, key))
            for c, nm in ((a, 'rdm'), (b, 'pattern')):
                ok = (c > v0) | (g >= c - tol)
                require(bool(np.all(ok)),
                        '%s: dual-bootstrap %s variance below the corrected %s-bootstrap variance '
                        'although that is below the two-factor variance' % (what, key, nm),
                        '%s:dual-lower:%s' % (sigbase, key))


# ---------------------------------------------------------------------------
# reference: t tests

def p_one(tval, dof):
    return float(tdist.sf(tval, dof))


def p_two(tval, dof):
    return float(2 * tdist.sf(abs(tval), dof))


def p_interval(kind, effect, var, dvar, dof, deff=1e-13):
    """interval of textbook p-values when var and effect carry rounding errors"""
    fn = p_one if kind == 'one' else p_two
    ps = []
    for e in (effect - deff, effect + deff):
        for v in (max(var - dvar, 1e-300), var + dvar):
            ps.append(fn(e / math.sqrt(v), dof))
    if kind == 'two' and abs(effect) <= deff:
        ps.append(1.0)
    lo, hi = min(ps), max(ps)
    return lo - 1e-12 - 1e-9 * lo, hi + 1e-12 + 1e-9 * hi


def comparable(var, mag):
    """is this variance far enough from cancellation / the eps floor to compare p-values"""
    return bool(var > 1e-13 and var > 1e-9 * mag)


def check_p(lib_p, kind, effect, var, mag, dof, what, sig):
    if not comparable(var, mag):
        return False
    lo, hi = p_interval(kind, effect, var, 4e-12 * mag, dof)
    if not (lo <= lib_p <= hi):
        fn = p_one if kind == 'one' else p_two
        raise Violation('%s: library p=%r, textbook %s-sided t-test p=%r (effect %r, variance %r, '
                        'dof %r)' % (what, float(lib_p), kind, fn(effect / math.sqrt(var), dof),
                                     float(effect), float(var), dof), sig)
    return True


def check_range(p, what, sig):
    p = np.asarray(p, dtype=float)
    if np.isnan(p).any():
        raise Violation('%s: NaN p-value %s' % (what, core._short(p)), sig + ':nan')
    if (p < 0).any() or (p > 1).any():
        raise Violation('%s: p-values outside [0,1]: %s' % (what, core._short(p)), sig + ':range')


def check_pair_matrix(p, m, what, sig):
    p = np.asarray(p, dtype=float)
    require(p.shape == (m, m), '%s: pairwise matrix shape %s for %d models' % (what, p.shape, m),
            sig + ':shape')
    require(bool(np.array_equal(p, p.T)) or core.close(p, p.T, rtol=1e-12, atol=1e-15),
            '%s: pairwise p-values not symmetric' % what, sig + ':symmetry')
    require(bool(np.all(np.diag(p) == 1)), '%s: diagonal of pairwise p-values is %s, not 1' % (
        what, core._short(np.diag(p))), sig + ':diagonal')


# ---------------------------------------------------------------------------
# sub-check 1: eval_fixed vs classical t statistics

FIXED_METHODS = ['cosine', 'corr', 'spearman', 'rho-a', 'tau-a', 'cosine_cov', 'corr_cov']


def _nonconst(vec):
    vec = list(vec)
    if max(vec) == min(vec):
        vec[0] = vec[0] + 1.0
    return vec


@st.composite
def fixed_case(draw):
    n_cond = draw(st.integers(4, 6))
    n_pair = ref.n_pairs(n_cond)
    n_rdm = draw(st.integers(2, 9))
    n_model = draw(st.integers(1, 4))
    el = st.integers(1, 64).map(lambda k: k / 8.0)
    data = [_nonconst(draw(st.lists(el, min_size=n_pair, max_size=n_pair))) for _ in range(n_rdm)]
    models = []
    for k in range(n_model):
        vec = _nonconst(draw(st.lists(el, min_size=n_pair, max_size=n_pair)))
        vec[k % n_pair] += 0.0625 * (k + 1)     # distinct models by construction
        models.append(vec)
    method = draw(st.sampled_from(FIXED_METHODS))
    # the data object may come from an earlier library call that leaves repeated or non-contiguous
    # 'index' values behind (a resample of a larger object, a subset): every RDM in it is a subject
    picks = None
    if n_rdm >= 3 and draw(st.integers(0, 2)) == 0:
        picks = draw(st.lists(st.integers(0, n_rdm - 1), min_size=n_rdm, max_size=n_rdm))
        picks[1] = picks[0]
        if len(set(picks)) == 1:
            picks[-1] = (picks[0] + 1) % n_rdm
    return dict(n_cond=n_cond, data=data, models=models, method=method, picks=picks)


def check_fixed(case):
    data = RDMs(np.array(case['data'], dtype=float))
    if case.get('picks'):
        data = lib(data.subsample, 'index', list(case['picks']))
        require(data.n_rdm == len(case['picks']), 'subsample size', 'harness')
    models = [ModelFixed('m%d' % k, np.array(v, dtype=float)) for k, v in enumerate(case['models'])]
    m = len(models)
    res = lib(eval_fixed, models, data, method=case['method'], on_error='violation',
              sig='fixed:raises:eval_fixed')
    ev = np.asarray(res.evaluations, dtype=float)
    n = data.n_rdm
    require(ev.shape == (1, m, n), 'eval_fixed: evaluations shape %s' % (ev.shape,), 'fixed:shape')
    if np.isnan(ev).any():
        raise Reject('NaN evaluation', 'degenerate:nan-evaluation')
    e = ev[0]
    require(res.dof == n - 1, 'eval_fixed: dof %r for %d subjects' % (res.dof, n), 'fixed:dof')
    dof = n - 1
    mean = [sum(e[k]) / n for k in range(m)]
    var_mean = []
    for k in range(m):
        ss = sum((x - mean[k]) ** 2 for x in e[k])
        var_mean.append(ss / (n - 1) / n)
    # means and standard errors
    require_close(res.get_means(), mean, 'eval_fixed get_means', 'fixed:means', rtol=1e-12, atol=1e-14)
    sem = lib(res.get_sem, on_error='violation', sig='fixed:raises:get_sem')
    scale = float(np.max(np.abs(e))) ** 2 + 1e-300
    for k in range(m):
        if var_mean[k] > 1e-12 * scale:
            require_close(sem[k], math.sqrt(var_mean[k]), 'eval_fixed sem of model %d = sd/sqrt(n)' % k,
                          'fixed:sem', rtol=1e-7, atol=0)
    p_pair = lib(res.test_pairwise, on_error='violation', sig='fixed:raises:test_pairwise')
    p_zero = lib(res.test_zero, on_error='violation', sig='fixed:raises:test_zero')
    p_nc = lib(res.test_noise, on_error='violation', sig='fixed:raises:test_noise')
    check_pair_matrix(p_pair, m, 'eval_fixed t-test', 'fixed:pair')
    for p, nm in ((p_pair, 'pair'), (p_zero, 'zero'), (p_nc, 'ceil')):
        check_range(p, 'eval_fixed t-test ' + nm, 'fixed:' + nm)
    lower = float(np.asarray(res.noise_ceiling, dtype=float)[0])
    n_cmp = 0
    for k in range(m):
        mag = sum(x * x for x in e[k]) / n / n + 1e-300
        n_cmp += check_p(p_zero[k], 'one', mean[k], var_mean[k], mag, dof,
                         'eval_fixed test_zero model %d (one-sample one-sided)' % k, 'fixed:zero:value')
        if not math.isnan(lower):
            n_cmp += check_p(p_nc[k], 'two', mean[k] - lower, var_mean[k], mag, dof,
                             'eval_fixed test_noise model %d (one-sample two-sided vs lower bound %r)'
                             % (k, lower), 'fixed:ceil:value')
    for (i, j) in ref.pairs(m):
        d = [e[i][s] - e[j][s] for s in range(n)]
        md = sum(d) / n
        vd = sum((x - md) ** 2 for x in d) / (n - 1) / n
        mag = (sum(x * x for x in e[i]) + sum(x * x for x in e[j])) * 2 / n / n + 1e-300
        n_cmp += check_p(p_pair[i, j], 'two', md, vd, mag, dof,
                         'eval_fixed test_pairwise models %d,%d (paired two-sided)' % (i, j),
                         'fixed:pair:value')
    # test_all returns the same three
    pa = lib(res.test_all, on_error='violation', sig='fixed:raises:test_all')
    for got, want, nm in zip(pa, (p_pair, p_zero, p_nc), ('pair', 'zero', 'ceil')):
        require_close(got, want, 'test_all vs test_%s' % nm, 'fixed:test_all', rtol=0, atol=0)


def classify_fixed(case):
    m, n = len(case['models']), len(case['data'])
    labels = ['fixed:method:' + case['method'], 'fixed:models=%d' % m,
              'fixed:n_rdm<=3' if n <= 3 else 'fixed:n_rdm>3',
              'fixed:data:' + ('resampled-object' if case.get('picks') else 'fresh')]
    return labels, m >= 2


# ---------------------------------------------------------------------------
# covariance inputs

DY = [1 / 1024.0, 1 / 64.0, 1 / 8.0, 1.0]


@st.composite
def psd(draw, size, ridge=None):
    r = draw(st.integers(1, size + 1))
    a = np.array(draw(gen.matrix(size, r, kind='grid', kmax=16)), dtype=float)
    c = draw(st.sampled_from([0.0, 1 / 64.0, 0.25, 1.0])) if ridge is None else ridge
    mat = a @ a.T / r + c * np.eye(size)
    return (mat + mat.T) / 2


@st.composite
def cov_input(draw, m):
    kind = draw(st.sampled_from(['scalar', 'vector', 'matrix', 'matrix', 'stack', 'stack']))
    if kind == 'scalar' and m != 1:
        kind = 'vector'
    nc = False if kind == 'scalar' else draw(st.booleans())
    size = m + 2 if nc else m
    scale = draw(st.sampled_from(DY))
    if kind == 'scalar':
        var = draw(st.integers(0, 64)) / 64.0 * scale
    elif kind == 'vector':
        var = [draw(st.integers(0, 64)) / 64.0 * scale for _ in range(size)]
    elif kind == 'matrix':
        var = draw(psd(size))
        if draw(st.integers(0, 3)) == 0:
            # a stored covariance need not be a sample covariance: the corrected estimates the
            # library itself stores (difference of two bootstrap covariances) can be indefinite,
            # with negative entries on the diagonal - the contrasts are defined all the same
            var = var - 1.5 * draw(psd(size))
        var = (var * scale).tolist()
    else:
        mode = draw(st.sampled_from(['free', 'nested', 'nested']))
        v1 = draw(psd(size))
        v2 = draw(psd(size))
        if mode == 'nested':
            w = draw(st.sampled_from([0.0, 0.5, 1.0]))
            v0 = v1 + v2 + w * draw(psd(size, ridge=0.0))
        else:
            v0 = draw(psd(size))
        var = (np.array([v0, v1, v2]) * scale).tolist()
    n_mode = draw(st.sampled_from(['--', 'r-', '-p', 'rp', 'rp']))
    n_rdm = draw(st.integers(2, 30)) if 'r' in n_mode else None
    n_pattern = draw(st.integers(2, 30)) if 'p' in n_mode else None
    return dict(kind=kind, nc=nc, var=var, n_rdm=n_rdm, n_pattern=n_pattern)


def permute_cov(cov, perm):
    m = len(perm)
    var = np.asarray(cov['var'], dtype=float)
    if var.ndim == 0:
        return cov
    idx = list(perm) + ([m, m + 1] if cov['nc'] else [])
    if var.ndim == 1:
        v = var[idx]
    elif var.ndim == 2:
        v = var[np.ix_(idx, idx)]
    else:
        v = var[:, idx][:, :, idx]
    out = dict(cov)
    out['var'] = v
    return out


def cov_labels(cov, m):
    var = np.asarray(cov['var'], dtype=float)
    labels = ['cov:' + cov['kind'], 'cov:nc' if cov['nc'] else 'cov:no-nc',
              'n:%s%s' % ('r' if cov['n_rdm'] else '-', 'p' if cov['n_pattern'] else '-')]
    offdiag = False
    if var.ndim >= 2 and m >= 2:
        v = var if var.ndim == 3 else var[None]
        for s in range(v.shape[0]):
            sub = v[s][:m, :m]
            if np.any(np.abs(sub - np.diag(np.diag(sub))) > 0):
                offdiag = True
    if offdiag:
        labels.append('cov:non-diagonal')
    return labels, offdiag


# ---------------------------------------------------------------------------
# sub-check 2: extract_variances / Result variance attributes

def _models(m):
    return [ModelFixed('m%d' % k, np.arange(6, dtype=float) + k + 1) for k in range(m)]


@st.composite
def variance_case(draw):
    m = draw(st.integers(1, 5))
    cov = draw(cov_input(m))
    return dict(m=m, cov=cov)


def check_variances(case):
    m, cov = case['m'], case['cov']
    var = np.array(cov['var'], dtype=float)
    own = own_variances(var, m, cov['nc'], cov['n_rdm'], cov['n_pattern'])
    got = lib(IU.extract_variances, var.copy(), cov['nc'], cov['n_rdm'], cov['n_pattern'],
              on_error='violation', sig='variances:raises:extract_variances')
    compare_variances(got, own, 'extract_variances(%s, nc_included=%s, n_rdm=%r, n_pattern=%r)' % (
        cov['kind'], cov['nc'], cov['n_rdm'], cov['n_pattern']), 'variances')
    # the same through the Result object (ceiling rows inferred from the size)
    ev = np.zeros((3, m))
    res = lib(Result, _models(m), ev, 'cosine', 'bootstrap', np.array([0.5, 0.75]),
              variances=var.copy(), dof=3, n_rdm=cov['n_rdm'], n_pattern=cov['n_pattern'],
              on_error='violation', sig='variances:raises:Result')
    compare_variances((res.model_var, res.diff_var, res.noise_ceil_var), own,
                      'Result(%s covariance %s ceiling rows)' % (
                          cov['kind'], 'with' if cov['nc'] else 'without'), 'variances:result')
    if np.any(np.asarray(own['model']) < 0):
        return      # no standard error is defined for a negative variance estimate
    sem = res.get_sem()
    require(bool(np.all(np.asarray(sem) >= 0)) and not np.isnan(sem).any(),
            'get_sem negative or NaN: %s' % core._short(sem), 'variances:sem-negative')
    want = np.sqrt(np.maximum(own['model'], 0))
    tol = np.sqrt(_vtol(own['mag_model']))
    require(bool(np.all(np.abs(np.asarray(sem) - want) <= tol + 1e-9 * want)),
            'get_sem %s is not the root of the model variance %s' % (core._short(sem), core._short(want)),
            'variances:sem-value')


def classify_variances(case):
    labels, offdiag = cov_labels(case['cov'], case['m'])
    labels.append('models=%d' % case['m'])
    nt = (case['m'] >= 2 and offdiag) or case['cov']['kind'] == 'stack'
    return ['var:' + x for x in labels], nt


# ---------------------------------------------------------------------------
# sub-check 3: synthetic Result objects

CV_NAME = {'fixed': 'fixed', 'crossvalidation': 'crossvalidation', 'boot2': 'bootstrap',
           'boot3': 'bootstrap_crossval', 'boot4': 'bootstrap_crossval', 'boot5': 'dual_bootstrap'}
OFFSETS = [-1.0, -0.5, -0.125, 0.0, 0.125, 0.5, 1.0]


@st.composite
def eval_block(draw, m, forms):
    # all mode decisions first, bulk values last (keeps the class mix even)
    form = draw(st.sampled_from(forms))
    nan_mode = draw(st.sampled_from(['none', 'some'])) if form.startswith('boot') else 'none'
    if form == 'fixed':
        nc_form = 'pair'
    elif form == 'crossvalidation':
        nc_form = draw(st.sampled_from(['pair', 'folds']))
    else:
        nc_form = draw(st.sampled_from(['pair', 'resampled', 'resampled']))
    amp = draw(st.sampled_from([1.0, 0.125]))
    offs = [draw(st.sampled_from(OFFSETS)) for _ in range(m)]
    base = draw(st.sampled_from(OFFSETS))
    if form == 'fixed':
        shape = (draw(st.sampled_from([1, 1, 1, 2])), m, draw(st.integers(2, 8)))
    elif form == 'crossvalidation':
        shape = (draw(st.sampled_from([1, 1, 1, 3])), m, draw(st.integers(2, 5)))
    elif form == 'boot2':
        shape = (draw(st.integers(2, 12)), m)
    elif form == 'boot3':
        shape = (draw(st.integers(2, 8)), m, draw(st.integers(2, 4)))
    elif form == 'boot4':
        shape = (draw(st.integers(2, 6)), m, draw(st.integers(1, 3)), draw(st.integers(1, 2)))
    else:
        shape = (draw(st.integers(2, 5)), m, draw(st.integers(1, 2)), draw(st.integers(1, 2)), 3)
    n = shape[0]
    nan_rows = []
    if nan_mode == 'some':
        first = draw(st.integers(0, n - 1))
        mask = draw(st.lists(st.booleans(), min_size=n, max_size=n))
        nan_rows = sorted({first} | {i for i in range(n) if mask[i]})
        if len(nan_rows) == n:
            nan_rows = nan_rows[1:]
    size = int(np.prod(shape))
    noise = np.array(draw(st.lists(st.integers(-32, 32), min_size=size, max_size=size)),
                     dtype=float).reshape(shape) / 64.0 * amp
    ev = noise + np.array(offs).reshape((1, m) + (1,) * (len(shape) - 2))
    for i in nan_rows:
        ev[i] = np.nan
    # noise ceiling
    if nc_form == 'pair':
        nc_shape = (2,)
    elif nc_form == 'folds':
        nc_shape = (2, shape[2])
    else:
        trail = () if form == 'boot2' else (shape[2],) if form == 'boot3' else \
            (shape[3],) if form == 'boot4' else (shape[3], 3)
        nc_shape = (2, n) + trail
    nsz = int(np.prod(nc_shape[1:])) if len(nc_shape) > 1 else 1
    low = np.array(draw(st.lists(st.integers(-32, 32), min_size=nsz, max_size=nsz)),
                   dtype=float) / 64.0 * amp + base
    gap = np.array(draw(st.lists(st.integers(0, 16), min_size=nsz, max_size=nsz)), dtype=float) / 64.0
    nc = np.array([low, low + gap]).reshape(nc_shape)
    if nc_form == 'resampled':
        for i in nan_rows:
            nc[:, i] = np.nan
    return dict(form=form, evals=ev.tolist(), nan_rows=nan_rows, nc_form=nc_form, nc=nc.tolist())


def result_case(forms):
    @st.composite
    def _case(draw):
        m = draw(st.integers(1, 5))
        perm = draw(gen.permutation(m))
        dof = draw(st.integers(1, 50))
        shift = dict(model=draw(st.integers(0, m - 1)),
                     delta=draw(st.sampled_from([1 / 64.0, 0.125, 0.5, 2.0])))
        ci = draw(st.sampled_from([0.5, 0.9, 0.95]))
        blk = draw(eval_block(m, forms))
        cv_name = CV_NAME[blk['form']]
        if blk['form'] == 'boot2':
            cv_name = draw(st.sampled_from(['bootstrap', 'bootstrap_rdm', 'bootstrap_pattern']))
        blk['cv_method'] = cv_name
        if blk['form'] == 'crossvalidation':
            cov = None
        else:
            cov = draw(cov_input(m))
            # as the evaluation routines do: only the resampled factor carries its n
            if cv_name in ('fixed', 'bootstrap_rdm'):
                cov['n_pattern'] = None
            elif cv_name == 'bootstrap_pattern':
                cov['n_rdm'] = None
        return dict(m=m, block=blk, cov=cov, dof=dof, perm=perm, shift=shift, ci=ci)
    return _case()


def build_result(case, perm=None, shift=None):
    m, blk, cov = case['m'], case['block'], case['cov']
    ev = np.array(blk['evals'], dtype=float)
    if shift is not None:
        ev = ev.copy()
        ev[:, shift['model']] += shift['delta']
    models = _models(m)
    if perm is not None:
        ev = ev[:, perm]
        models = [models[k] for k in perm]
        cov = permute_cov(cov, perm) if cov is not None else None
    nc = np.array(blk['nc'], dtype=float)
    kw = {}
    if cov is not None:
        kw = dict(variances=np.array(cov['var'], dtype=float), n_rdm=cov['n_rdm'],
                  n_pattern=cov['n_pattern'])
    res = lib(Result, models, ev, 'cosine', blk.get('cv_method', CV_NAME[blk['form']]), nc,
              dof=case['dof'],
              on_error='violation', sig='result:raises:Result', **kw)
    return res, ev, nc


def own_means(ev):
    """NaN-aware model means: average over the valid resamples of the average over folds"""
    n, m = ev.shape[0], ev.shape[1]
    out = []
    for k in range(m):
        vals = []
        for i in range(n):
            cell = np.asarray(ev[i, k], dtype=float).reshape(-1)
            cell = [x for x in cell if not math.isnan(x)]
            if cell:
                vals.append(sum(cell) / len(cell))
        out.append(sum(vals) / len(vals) if vals else float('nan'))
    return out


def applicable_tests(case):
    blk = case['block']
    tests = []
    if case['cov'] is not None:
        tests.append('t-test')
    if blk['form'].startswith('boot'):
        tests.append('bootstrap')
    if len(np.shape(blk['evals'])) == 3:
        tests.append('ranksum')
    return tests


def run_tests(res, test_type, m, what):
    """all four accessors, structural checks; returns (pair, zero, ceil)"""
    sg = 'result:' + test_type
    p_pair = lib(res.test_pairwise, test_type, on_error='violation', sig=sg + ':raises:test_pairwise')
    p_zero = lib(res.test_zero, test_type, on_error='violation', sig=sg + ':raises:test_zero')
    p_nc = lib(res.test_noise, test_type, on_error='violation', sig=sg + ':raises:test_noise')
    p_all = lib(res.test_all, test_type, on_error='violation', sig=sg + ':raises:test_noise')
    check_pair_matrix(p_pair, m, '%s %s' % (what, test_type), sg + ':pair')
    p_zero = np.asarray(p_zero, dtype=float)
    p_nc = np.asarray(p_nc, dtype=float)
    require(p_zero.shape[:1] == (m,) and p_nc.shape[:1] == (m,),
            '%s %s: zero / ceiling p-values have shapes %s / %s for %d models' % (
                what, test_type, p_zero.shape, p_nc.shape, m), sg + ':shape')
    if test_type == 't-test':
        require(p_zero.shape == (m,) and p_nc.shape == (m,), '%s: t-test p shapes %s %s' % (
            what, p_zero.shape, p_nc.shape), sg + ':shape')
    for got, want, nm in zip(p_all, (p_pair, p_zero, p_nc), ('pairwise', 'zero', 'noise')):
        require(core.close(got, want, rtol=0, atol=0),
                '%s %s: test_all differs from test_%s: %s vs %s' % (
                    what, test_type, nm, core._short(np.asarray(got)), core._short(want)),
                sg + ':test_all')
    check_summary_table(res, test_type, p_zero, p_nc, what)
    return p_pair, p_zero, p_nc


def _fmt_p(p):
    return 'nan' if p != p else '< 0.001' if p < 0.001 else '%.3f' % p


def check_summary_table(res, test_type, p_zero, p_nc, what):
    """the table printed by summary(test_type) reports, per model, the p-values of that test type.
    Only a table of the present layout (name | eval | p | p |) is read; anything else is left alone"""
    if np.ndim(p_zero) != 1 or np.ndim(p_nc) != 1:
        return
    try:
        txt = res.summary(test_type)
    except Exception:  # noqa: BLE001  (a summary that cannot be printed is not a C06 matter)
        return
    lines = txt.splitlines()
    for i, mod in enumerate(res.models):
        rows = [ln for ln in lines if ln.startswith(mod.name + ' ') or ln.startswith(mod.name + '|')]
        cells = [c.strip() for c in rows[0].split('|')] if len(rows) == 1 else []
        if len(cells) != 5 or sum(1 for m2 in res.models if m2.name == mod.name) != 1:
            return
        for col, p, nm in ((2, p_zero[i], 'against 0'), (3, p_nc[i], 'against NC')):
            want = _fmt_p(float(p))
            alt = {_fmt_p(float(p) + d) for d in (-5e-7, 0.0, 5e-7)}      # (rounding at a tie)
            require(cells[col] in alt, "%s summary(%r): model %r shows p (%s) = %r, test_%s(%r) gives %s" % (
                what, test_type, mod.name, nm, cells[col], 'zero' if col == 2 else 'noise', test_type,
                want), 'result:%s:summary-table' % test_type)


def degenerate_pairs(ev, test_type):
    """pairs / models for which the bootstrap or rank-sum statistic is undefined (all
    resample means equal / all differences zero): not asserted"""
    red = np.array(ev, dtype=float)
    if test_type == 'bootstrap':
        while red.ndim > 2:
            red = np.nanmean(red, axis=-1)
        red = red[~np.isnan(red[:, 0])]
        m = red.shape[1]
        return {(i, j) for (i, j) in ref.pairs(m) if np.all(red[:, i] == red[:, j])}
    return set()


def check_result(case):
    m, blk, cov = case['m'], case['block'], case['cov']
    res, ev, nc = build_result(case)
    what = 'Result(%s%s, %s ceiling)' % (blk['form'], ', folds NaN in some resamples (design %s)' % blk[
        'design'] if blk.get('nan_folds') else '', blk['nc_form'])
    means = own_means(ev)
    got_means = lib(res.get_means, on_error='violation', sig='result:raises:get_means')
    require_close(got_means, means, what + ' get_means vs NaN-aware average', 'result:means',
                  rtol=1e-12, atol=1e-13)
    own = None
    if cov is not None:
        own = own_variances(np.array(cov['var'], dtype=float), m, cov['nc'], cov['n_rdm'],
                            cov['n_pattern'])
        sem = np.asarray(res.get_sem(), dtype=float)
        require(sem.shape == (m,) and bool(np.all(sem >= 0)),
                what + ' get_sem negative / wrong shape: %s' % core._short(sem), 'result:sem')
        ci = lib(res.get_ci, case['ci'], 't-test', on_error='violation', sig='result:raises:get_ci')
        lo, hi = np.asarray(ci[0], dtype=float), np.asarray(ci[1], dtype=float)
        require(bool(np.all(lo <= np.array(means) + 1e-12)) and bool(np.all(hi >= np.array(means) - 1e-12)),
                what + ' get_ci(%r) does not bracket the mean: %s %s %s' % (
                    case['ci'], core._short(lo), core._short(np.array(means)), core._short(hi)),
                'result:ci')
    tests = applicable_tests(case)
    outs = {}
    for tt in tests:
        p_pair, p_zero, p_nc = run_tests(res, tt, m, what)
        outs[tt] = (p_pair, p_zero, p_nc)
        skip = degenerate_pairs(ev, tt)
        mask = np.ones((m, m), dtype=bool)
        for (i, j) in skip:
            mask[i, j] = mask[j, i] = False
        check_range(np.asarray(p_pair)[mask], '%s %s pairwise' % (what, tt), 'result:%s:pair' % tt)
        check_range(p_zero, '%s %s against zero' % (what, tt), 'result:%s:zero' % tt)
        check_range(p_nc, '%s %s against ceiling' % (what, tt), 'result:%s:ceil' % tt)
    # t-test values from the stored covariance
    if 't-test' in outs:
        p_pair, p_zero, p_nc = outs['t-test']
        dof = case['dof']
        nc_low = np.asarray(nc, dtype=float)[0].reshape(-1)
        nc_low = [x for x in nc_low if not math.isnan(x)]
        lower = sum(nc_low) / len(nc_low)
        for k in range(m):
            check_p(p_zero[k], 'one', means[k], own['model'][k], own['mag_model'][k], dof,
                    what + ' t-test against zero, model %d' % k, 'result:t-test:zero:value')
            check_p(p_nc[k], 'two', means[k] - lower, own['ceil'][k, 0], own['mag_ceil'][k, 0], dof,
                    what + ' t-test against ceiling %r, model %d' % (float(lower), k),
                    'result:t-test:ceil:value')
        for idx, (i, j) in enumerate(ref.pairs(m)):
            check_p(p_pair[i, j], 'two', means[i] - means[j], own['diff'][idx], own['mag_diff'][idx],
                    dof, what + ' t-test pair (%d,%d)' % (i, j), 'result:t-test:pair:value')
    # equivariance under model permutation
    perm = case['perm']
    if perm != list(range(m)):
        res_p, ev_p, _ = build_result(case, perm=perm)
        require_close(res_p.get_means(), np.asarray(got_means)[perm], what + ' get_means after permuting '
                      'the models %s' % perm, 'result:equivariance:means', rtol=1e-12, atol=1e-13)
        if cov is not None:
            own_p = own_variances(np.array(permute_cov(cov, perm)['var'], dtype=float), m, cov['nc'],
                                  cov['n_rdm'], cov['n_pattern'])
            compare_variances((res_p.model_var, res_p.diff_var, res_p.noise_ceil_var), own_p,
                              what + ' with models permuted %s' % perm, 'result:equivariance:variances')
            tol = _vtol(own['mag_model'])[perm]
            require(bool(np.all(np.abs(np.asarray(res_p.model_var) - np.asarray(res.model_var)[perm])
                                <= tol + 1e-12 * np.abs(res_p.model_var))),
                    what + ' model_var not permuted with the models %s' % perm,
                    'result:equivariance:model_var')
        for tt in tests:
            pp, pz, pn = run_tests(res_p, tt, m, what + ' permuted')
            op, oz, on = outs[tt]
            op_p = np.asarray(op)[np.ix_(perm, perm)]
            oz_p, on_p = np.asarray(oz)[perm], np.asarray(on)[perm]
            if tt == 't-test':
                # conditioning-aware: each side already matches the oracle; compare where comparable
                ok_m = np.array([comparable(own['model'][k], own['mag_model'][k]) for k in perm])
                ok_c = np.array([comparable(own['ceil'][k, 0], own['mag_ceil'][k, 0]) for k in perm])
                ok_d = np.eye(m, dtype=bool)
                for idx, (i, j) in enumerate(ref.pairs(m)):
                    c = comparable(own['diff'][idx], own['mag_diff'][idx])
                    a, b = perm.index(i), perm.index(j)
                    ok_d[a, b] = ok_d[b, a] = c
                tol = dict(rtol=1e-6, atol=1e-9)
            else:
                ok_m = ok_c = np.ones(m, dtype=bool)
                ok_d = np.ones((m, m), dtype=bool)
                for (i, j) in degenerate_pairs(ev_p, tt):
                    ok_d[i, j] = ok_d[j, i] = False
                tol = dict(rtol=1e-9, atol=1e-12)
            require(core.close(np.asarray(pz)[ok_m], oz_p[ok_m], **tol),
                    '%s %s: against-zero p-values not permuted with the models %s: %s vs %s' % (
                        what, tt, perm, core._short(np.asarray(pz)), core._short(oz_p)),
                    'result:equivariance:%s:zero' % tt)
            require(core.close(np.asarray(pn)[ok_c], on_p[ok_c], **tol),
                    '%s %s: against-ceiling p-values not permuted with the models %s' % (what, tt, perm),
                    'result:equivariance:%s:ceil' % tt)
            require(core.close(np.asarray(pp)[ok_d], op_p[ok_d], **tol),
                    '%s %s: pairwise p-values not permuted with the models %s' % (what, tt, perm),
                    'result:equivariance:%s:pair' % tt)
    # monotonicity of the t-tests under a shift of one model at equal variance
    if 't-test' in outs:
        sh = case['shift']
        k, delta = sh['model'], sh['delta']
        res_s, _, _ = build_result(case, shift=sh)
        sp, sz, sn = run_tests(res_s, 't-test', m, what + ' shifted')
        op, oz, on = outs['t-test']
        tol = 1e-12
        require(sz[k] <= oz[k] + tol, '%s: adding %r to model %d raised its against-zero p from %r to %r'
                % (what, delta, k, float(oz[k]), float(sz[k])), 'result:monotone:zero')
        others = [x for x in range(m) if x != k]
        require(core.close(np.asarray(sz)[others], np.asarray(oz)[others], rtol=0, atol=0),
                '%s: shifting model %d changed the against-zero p of other models' % (what, k),
                'result:monotone:zero-others')
        before, after = abs(means[k] - lower), abs(means[k] + delta - lower)
        if after > before + 1e-12:
            require(sn[k] <= on[k] + tol, '%s: larger distance to the ceiling (%r -> %r) raised p from %r '
                    'to %r' % (what, before, after, float(on[k]), float(sn[k])), 'result:monotone:ceil')
        elif after < before - 1e-12:
            require(sn[k] >= on[k] - tol, '%s: smaller distance to the ceiling lowered p' % what,
                    'result:monotone:ceil')
        for j in others:
            before, after = abs(means[k] - means[j]), abs(means[k] + delta - means[j])
            if after > before + 1e-12:
                require(sp[k, j] <= op[k, j] + tol,
                        '%s: larger difference between models %d,%d (%r -> %r) raised the pairwise p from '
                        '%r to %r' % (what, k, j, before, after, float(op[k, j]), float(sp[k, j])),
                        'result:monotone:pair')
            elif after < before - 1e-12:
                require(sp[k, j] >= op[k, j] - tol, '%s: smaller difference lowered the pairwise p' % what,
                        'result:monotone:pair')


def classify_result(case):
    m, blk, cov = case['m'], case['block'], case['cov']
    labels = ['form:' + blk['form'], 'cv:' + blk.get('cv_method', CV_NAME[blk['form']]),
              'ceiling:' + blk['nc_form'], 'models=%d' % m,
              'nan-rows' if blk['nan_rows'] else 'no-nan-rows']
    offdiag = False
    if cov is not None:
        cl, offdiag = cov_labels(cov, m)
        labels += cl
    labels += ['test:' + t for t in applicable_tests(case)]
    if blk['form'].startswith('boot'):
        ev = np.array(blk['evals'], dtype=float)
        red = ev
        while red.ndim > 2:
            red = np.nanmean(red, axis=-1)
        red = red[~np.isnan(red[:, 0])]
        if np.any(np.all(red <= 0, axis=0)) or np.any(np.all(red > 0, axis=0)):
            labels.append('boot:all-resamples-one-side')
    if case['perm'] != list(range(m)):
        labels.append('permuted')
    nt = (m >= 2 and offdiag) or bool(blk['nan_rows']) or (cov is not None and cov['kind'] == 'stack')
    return ['res:' + x for x in labels], nt


# ---------------------------------------------------------------------------
# sub-check 4: results of the real bootstrap routines

BOOT_FN = {'both': EV.eval_bootstrap, 'rdm': EV.eval_bootstrap_rdm, 'pattern': EV.eval_bootstrap_pattern}


class _NoBar:
    @staticmethod
    def trange(n, *a, **k):
        return range(n)


@st.composite
def boot_case(draw):
    n_cond = draw(st.integers(4, 6))
    n_pair = ref.n_pairs(n_cond)
    n_rdm = draw(st.integers(2, 5))
    n_model = draw(st.integers(1, 3))
    el = st.integers(1, 64).map(lambda k: k / 8.0)
    data = [_nonconst(draw(st.lists(el, min_size=n_pair, max_size=n_pair))) for _ in range(n_rdm)]
    models = []
    for k in range(n_model):
        vec = _nonconst(draw(st.lists(el, min_size=n_pair, max_size=n_pair)))
        vec[k % n_pair] += 0.0625 * (k + 1)
        models.append(vec)
    return dict(n_cond=n_cond, data=data, models=models,
                method=draw(st.sampled_from(['cosine', 'corr', 'spearman'])),
                N=draw(st.integers(3, 12)),
                seed=draw(st.integers(0, 2 ** 31 - 1)))


def check_boot(case):
    data = RDMs(np.array(case['data'], dtype=float))
    models = [ModelFixed('m%d' % k, np.array(v, dtype=float)) for k, v in enumerate(case['models'])]
    n_ok = 0
    for i_boot, boot in enumerate(('both', 'rdm', 'pattern')):
        for boot_nc in (True, False):
            np.random.seed((case['seed'] + 7 * i_boot + int(boot_nc)) % 2 ** 31)
            old = EV.tqdm
            EV.tqdm = _NoBar
            try:
                res = lib(BOOT_FN[boot], models, data, method=case['method'], N=case['N'],
                          boot_noise_ceil=boot_nc)
            finally:
                EV.tqdm = old
            n_ok += _check_boot_result(res, len(models), 'eval_bootstrap%s(N=%d, boot_noise_ceil=%s)' % (
                {'both': '', 'rdm': '_rdm', 'pattern': '_pattern'}[boot], case['N'], boot_nc))
    if n_ok == 0:
        raise Reject('fewer than two valid resamples', 'degenerate:few-valid-resamples')


def _check_boot_result(res, m, what):
    ev = np.asarray(res.evaluations, dtype=float)
    valid = ~np.isnan(ev[:, 0])
    if valid.sum() < 2 or np.isnan(ev[valid]).any() or np.isnan(np.asarray(res.variances)).any():
        return 0
    means = own_means(ev)
    require_close(res.get_means(), means, what + ' get_means', 'boot:means', rtol=1e-12, atol=1e-13)
    sem = np.asarray(res.get_sem(), dtype=float)
    require(bool(np.all(sem >= 0)), what + ' negative sem', 'boot:sem')
    for tt in ('t-test', 'bootstrap'):
        sg = 'result:' + tt
        p_pair = lib(res.test_pairwise, tt, on_error='violation', sig=sg + ':raises:test_pairwise')
        p_zero = lib(res.test_zero, tt, on_error='violation', sig=sg + ':raises:test_zero')
        p_nc = lib(res.test_noise, tt, on_error='violation', sig=sg + ':raises:test_noise')
        lib(res.test_all, tt, on_error='violation', sig=sg + ':raises:test_noise')
        check_pair_matrix(p_pair, m, what + ' ' + tt, sg + ':pair')
        mask = np.ones((m, m), dtype=bool)
        for (i, j) in degenerate_pairs(ev, tt):
            mask[i, j] = mask[j, i] = False
        check_range(np.asarray(p_pair)[mask], '%s %s pairwise' % (what, tt), sg + ':pair')
        check_range(p_zero, '%s %s against zero' % (what, tt), sg + ':zero')
        if not np.isnan(np.asarray(res.noise_ceiling, dtype=float)[0]).all():
            check_range(p_nc, '%s %s against ceiling' % (what, tt), sg + ':ceil')
    return 1


def classify_boot(case):
    labels = ['real:method:' + case['method'], 'real:models=%d' % len(case['models']),
              'real:N<=5' if case['N'] <= 5 else 'real:N>5']
    return labels, len(case['models']) >= 2


# ---------------------------------------------------------------------------
# sub-check 5: folds that could not be evaluated in some resamples (NaN cells, not NaN rows)

# fold-block sizes (unequal) of a balanced availability design, see partial_nan_case
FOLD_BLOCKS = [(1, 2), (2, 1), (1, 3), (3, 1), (1, 1, 2), (2, 1, 1), (1, 2, 1)]


@st.composite
def partial_nan_case(draw):
    """bootstrap-crossvalidation evaluations (NxMxK or NxMxKxC) in which every fold is NaN in some
    resamples (for all models and repeats, as a fold with too few conditions / RDMs is). The library
    averages fold-first in get_means and resample-first in the t-tests; the two orders are only the
    same average on balanced availability designs: folds and resamples fall into blocks, block b has
    K_b folds available in exactly its t*K_b resamples. Block sizes are unequal, so the folds carry
    different numbers of valid samples. Rows and folds are shuffled by generated permutations."""
    m = draw(st.integers(1, 4))
    perm = draw(gen.permutation(m))
    dof = draw(st.integers(1, 50))
    shift = dict(model=draw(st.integers(0, m - 1)),
                 delta=draw(st.sampled_from([1 / 64.0, 0.125, 0.5, 2.0])))
    ci = draw(st.sampled_from([0.5, 0.9, 0.95]))
    blocks = draw(st.sampled_from(FOLD_BLOCKS))
    t = draw(st.integers(1, 3))
    n_cv = draw(st.sampled_from([0, 1, 2]))         # 0: 3-D evaluations
    n_fold = sum(blocks)
    n = t * n_fold
    rows = draw(gen.permutation(n))
    cols = draw(gen.permutation(n_fold))
    nc_form = draw(st.sampled_from(['pair', 'resampled']))
    amp = draw(st.sampled_from([1.0, 0.125]))
    offs = [draw(st.sampled_from(OFFSETS)) for _ in range(m)]
    fold_offs = [draw(st.sampled_from(OFFSETS)) for _ in range(n_fold)]
    base = draw(st.sampled_from(OFFSETS))
    valid = np.zeros((n, n_fold), dtype=bool)
    r0 = c0 = 0
    for kb in blocks:
        valid[r0:r0 + t * kb, c0:c0 + kb] = True
        r0 += t * kb
        c0 += kb
    valid = valid[rows][:, cols]
    shape = (n, m, n_fold) + ((n_cv,) if n_cv else ())
    size = int(np.prod(shape))
    noise = np.array(draw(st.lists(st.integers(-32, 32), min_size=size, max_size=size)),
                     dtype=float).reshape(shape) / 64.0 * amp
    ev = noise + np.array(offs).reshape((1, m, 1) + (1,) * (len(shape) - 3)) \
        + np.array(fold_offs).reshape((1, 1, n_fold) + (1,) * (len(shape) - 3))
    for i in range(n):
        for k in range(n_fold):
            if not valid[i, k]:
                ev[i, :, k] = np.nan
    if nc_form == 'pair':
        nc_shape = (2,)
    else:
        nc_shape = (2, n, n_fold if not n_cv else n_cv)
    nsz = int(np.prod(nc_shape[1:])) if len(nc_shape) > 1 else 1
    low = np.array(draw(st.lists(st.integers(-32, 32), min_size=nsz, max_size=nsz)),
                   dtype=float) / 64.0 * amp + base
    gap = np.array(draw(st.lists(st.integers(0, 16), min_size=nsz, max_size=nsz)), dtype=float) / 64.0
    nc = np.array([low, low + gap]).reshape(nc_shape)
    blk = dict(form='boot4' if n_cv else 'boot3', evals=ev.tolist(), nan_rows=[], nc_form=nc_form,
               nc=nc.tolist(), cv_method='bootstrap_crossval', nan_folds=True,
               design='%s x%d' % ('+'.join(str(b) for b in blocks), t))
    cov = draw(cov_input(m))
    return dict(m=m, block=blk, cov=cov, dof=dof, perm=perm, shift=shift, ci=ci)


def classify_partial(case):
    labels, _ = classify_result(case)
    blk = case['block']
    labels += ['res:nan-folds', 'res:nan-folds:design:' + blk['design'],
               'res:nan-folds:%dD' % len(np.shape(blk['evals']))]
    return labels, True


SUBCHECKS = [
    SubCheck('fixed_ttests', fixed_case(), check_fixed, classify_fixed, quick=200,
             doc='eval_fixed: sem, pairwise / zero / ceiling p = classical paired / one-sided / '
                 'two-sided t statistics of the per-subject evaluations'),
    SubCheck('variances', variance_case(), check_variances, classify_variances, quick=600,
             doc='extract_variances and Result.model_var/diff_var/noise_ceil_var: contrasts, '
                 'n/(n-1), dual-bootstrap formula and bounds'),
    SubCheck('results_fixed', result_case(['fixed', 'fixed', 'crossvalidation']), check_result,
             classify_result, quick=200,
             doc='synthetic fixed / cross-validation Result objects (1xMxn): t-test values from the '
                 'stored covariance, rank-sum tests, range, symmetry, diagonal, means, sem, CI, test_all, '
                 'model-permutation equivariance, monotonicity'),
    SubCheck('results_boot', result_case(['boot2']), check_result, classify_result, quick=250,
             doc='synthetic bootstrap Result objects (NxM, NaN resamples, resampled or fixed ceiling): '
                 'the same plus bootstrap tests'),
    SubCheck('results_boot_cv', result_case(['boot3', 'boot4', 'boot5']), check_result, classify_result,
             quick=250,
             doc='synthetic bootstrap-crossvalidation / dual-bootstrap Result objects (3-5-D)'),
    SubCheck('bootstrap_runs', boot_case(), check_boot, classify_boot, quick=60,
             doc='real eval_bootstrap / _rdm / _pattern results (resampled and fixed ceilings, generated '
                 'seed): all tests run, p in [0,1], means'),
    SubCheck('results_nan_folds', partial_nan_case(), check_result, classify_partial, quick=80,
             doc='synthetic bootstrap-crossvalidation Result objects (3-4-D) in which folds are NaN in '
                 'some resamples only (balanced availability designs with unequal fold weights, on which '
                 'fold-first and resample-first NaN-aware means coincide): t-test values are the t '
                 'statistics of the means get_means reports; plus everything of results_boot_cv'),
]
