"""C04 helpers: object builders, recording / injecting context managers, oracles.

Everything the evaluation routines draw or compute on the way is *observed*:
the recorders replace module attributes of rsatoolbox.inference.evaluate for
the duration of one call and keep an ordered event log.  The oracles work on the
source arrays of the case (plain numpy + vf.ref), never on library objects,
except where stated (noise ceilings are recomputed by the library's ceiling
function on objects rebuilt from the source arrays).
"""
import contextlib

import numpy as np

from vf import core, ref
from vf.core import Violation, Reject, require, require_close

import rsatoolbox
from rsatoolbox.rdm import RDMs
from rsatoolbox.inference import evaluate as EV
from rsatoolbox.inference import noise_ceiling as NC
from rsatoolbox import model as M
from rsatoolbox.model.fitter import Fitter

RDM_DESC = 'rgrp'
PAT_DESC = 'pgrp'

ORIG = {name: getattr(EV, name) for name in (
    'bootstrap_sample', 'bootstrap_sample_rdm', 'bootstrap_sample_pattern',
    'sets_k_fold', 'sets_random', 'boot_noise_ceiling', 'cv_noise_ceiling')}
ORIG_TQDM = EV.tqdm
ORIG_RANDINT = np.random.randint


# ----------------------------------------------------------------------------
# building library objects from a case

def _desc(values, container):
    if container == 'array':
        return np.array(values)
    return list(values)


def build_data(case):
    vecs = np.array(case['data'], dtype=float)
    n_rdm = vecs.shape[0]
    n_cond = case['n_cond']
    cont = case.get('container', 'list')
    rd = {'_rid': list(range(n_rdm))}
    if case.get('rdm_groups') is not None:
        rd[RDM_DESC] = _desc(case['rdm_groups'], cont)
    elif (n_rdm + n_cond) % 2 == 0:
        # the default grouping descriptor 'index' as an earlier selection leaves it behind
        # (rdms[[2, 0, 1]], a subset of a larger stack): distinct labels that are not the positions
        rd['index'] = index_labels(n_rdm, n_cond)
    pd = {'_cid': list(range(n_cond))}
    if case.get('pat_groups') is not None:
        pd[PAT_DESC] = _desc(case['pat_groups'], cont)
    return RDMs(vecs.copy(), dissimilarity_measure='euclidean',
                rdm_descriptors=rd, pattern_descriptors=pd)


def build_models(case):
    cont = case.get('container', 'list')
    models = []
    # a model's name is a label, not an identity: in a third of the cases with several models
    # all of them carry the same name (a deterministic function of the case)
    first = np.array(case['models'][0]['vecs'], dtype=float)
    shared_name = len(case['models']) >= 2 and int(round(abs(float(np.nansum(first))) * 8)) % 3 == 0
    for k, spec in enumerate(case['models']):
        vecs = np.array(spec['vecs'], dtype=float)
        pd = {}
        if case.get('pat_groups') is not None:
            # implicit precondition: models carry the grouping descriptor themselves
            pd[PAT_DESC] = _desc(case['pat_groups'], cont)
        obj = RDMs(vecs.copy(), dissimilarity_measure='euclidean',
                   pattern_descriptors=pd)
        name = 'm%d_%s' % (k, spec['type'])
        if shared_name:
            name = 'model'
        if spec['type'] == 'fixed':
            m = M.ModelFixed(name, obj)
        elif spec['type'] == 'select':
            m = M.ModelSelect(name, obj)
        elif spec['type'] == 'weighted':
            m = M.ModelWeighted(name, obj)
        elif spec['type'] == 'interpolate':
            m = M.ModelInterpolate(name, obj)
        else:
            raise ValueError(spec['type'])
        models.append(m)
    return models


def theta_arg(case):
    """theta argument for the fixed-parameter routines"""
    th = case.get('theta')
    if th is None:
        return None
    out = []
    for spec, t in zip(case['models'], th):
        if t is None:
            out.append(None)
        elif spec['type'] == 'select':
            out.append(int(t))
        else:
            out.append(np.array(t, dtype=float))
    return out


def predict_ref(spec, theta):
    """reference prediction vector of a model spec at theta (own arithmetic)"""
    vecs = np.array(spec['vecs'], dtype=float)
    t = spec['type']
    if t == 'fixed':
        return vecs[0].copy()
    if t == 'select':
        return vecs[int(np.asarray(theta).reshape(-1)[0])].copy()
    th = np.asarray(theta, dtype=float).reshape(-1)
    if t == 'interpolate':
        th = np.array([max(x, 0.0) for x in th])
    out = np.zeros(vecs.shape[1])
    for k in range(vecs.shape[0]):
        out = out + th[k] * vecs[k]
    return out


# ----------------------------------------------------------------------------
# probe fitters: cheap deterministic fitters whose result depends on exactly the
# training data and pattern indices they are handed (any user fitter is allowed)

def _probe_stat(data, pattern_idx):
    v = np.asarray(data.get_vectors(), dtype=float)
    s = float(np.nansum(v)) + 0.25 * data.n_rdm
    n = 0 if pattern_idx is None else len(pattern_idx)
    return s, n


def probe_weighted(model, data, method='cosine', pattern_idx=None,
                   pattern_descriptor=None, sigma_k=None):
    s, n = _probe_stat(data, pattern_idx)
    return np.array([1.0 + ((k + 1) * (s * 0.37 + n * 0.11)) % 1.0
                     for k in range(model.n_param)])


def probe_select(model, data, method='cosine', pattern_idx=None,
                 pattern_descriptor=None, sigma_k=None):
    s, n = _probe_stat(data, pattern_idx)
    return int(int(round(s * 8)) + n) % model.n_rdm


def probe_interpolate(model, data, method='cosine', pattern_idx=None,
                      pattern_descriptor=None, sigma_k=None):
    s, n = _probe_stat(data, pattern_idx)
    w = 0.125 + 0.75 * ((s * 0.37 + n * 0.11) % 1.0)
    pair = (int(round(s * 8)) + n) % (model.n_rdm - 1)
    th = np.zeros(model.n_rdm)
    th[pair] = w
    th[pair + 1] = 1 - w
    return th


FITTERS = {
    'mock': lambda: M.fit_mock,
    'select': lambda: M.fit_select,
    'regress': lambda: M.fit_regress,
    'regress_nn': lambda: M.fit_regress_nn,
    'regress_ridge': lambda: Fitter(M.fit_regress, ridge_weight=0.5),
    'interpolate': lambda: M.fit_interpolate,
    'optimize': lambda: M.fit_optimize,
    'probe_weighted': lambda: probe_weighted,
    'probe_select': lambda: probe_select,
    'probe_interpolate': lambda: probe_interpolate,
}


class RecFitter:
    """recording fitter: logs what it is handed and what it returns"""

    def __init__(self, inner, j, log):
        self.inner = inner
        self.j = j
        self.log = log

    def __call__(self, model, data, method='cosine', pattern_idx=None,
                 pattern_descriptor=None, sigma_k=None):
        theta = self.inner(model, data, method=method, pattern_idx=pattern_idx,
                           pattern_descriptor=pattern_descriptor, sigma_k=sigma_k)
        if self.log is not None:
            self.log.append(dict(
                ev='fit', j=self.j, model=model, data=data, method=method,
                pattern_idx=None if pattern_idx is None else list(pattern_idx),
                pattern_descriptor=pattern_descriptor, sigma_k=sigma_k,
                theta=np.array(theta, copy=True)))
        return theta


def build_fitters(case, models, log):
    """returns the `fitter` argument.  Entry 'default' is passed as None; the model's
    own default fitter is replaced *on the instance* by a recording wrapper of itself,
    so the default path is observable as well."""
    names = case.get('fitters')
    for j, m in enumerate(models):
        m.default_fitter = RecFitter(m.default_fitter, j, log)
    if names is None:
        return None
    if isinstance(names, str):          # one fitter for all models
        if names == 'default':
            return None
        return RecFitter(FITTERS[names](), None, log)
    out = []
    for j, nm in enumerate(names):
        out.append(None if nm == 'default' else RecFitter(FITTERS[nm](), j, log))
    return out


# ----------------------------------------------------------------------------
# recording + injection

class _NoTqdm:
    @staticmethod
    def trange(n, *a, **k):
        return range(n)


def _copy_sets(sets):
    if sets is None:
        return None
    return [dict(obj=s[0], idx=list(s[1])) for s in sets]


class Recorder:
    def __init__(self):
        self.events = []

    def wrappers(self):
        ev = self.events
        w = {}

        def bootstrap_sample(rdms, rdm_descriptor='index', pattern_descriptor='index'):
            s, ri, pi = ORIG['bootstrap_sample'](rdms, rdm_descriptor=rdm_descriptor,
                                                 pattern_descriptor=pattern_descriptor)
            ev.append(dict(ev='boot', kind='both', src=rdms, sample=s,
                           rdm_idx=list(ri), pattern_idx=list(pi),
                           rdm_descriptor=rdm_descriptor,
                           pattern_descriptor=pattern_descriptor))
            return s, ri, pi

        def bootstrap_sample_rdm(rdms, rdm_descriptor='index'):
            s, ri = ORIG['bootstrap_sample_rdm'](rdms, rdm_descriptor=rdm_descriptor)
            ev.append(dict(ev='boot', kind='rdm', src=rdms, sample=s, rdm_idx=list(ri),
                           pattern_idx=None, rdm_descriptor=rdm_descriptor,
                           pattern_descriptor=None))
            return s, ri

        def bootstrap_sample_pattern(rdms, pattern_descriptor='index'):
            s, pi = ORIG['bootstrap_sample_pattern'](rdms, pattern_descriptor=pattern_descriptor)
            ev.append(dict(ev='boot', kind='pattern', src=rdms, sample=s, rdm_idx=None,
                           pattern_idx=list(pi), rdm_descriptor=None,
                           pattern_descriptor=pattern_descriptor))
            return s, pi

        def sets_k_fold(rdms, k_rdm=None, k_pattern=None, random=True,
                        pattern_descriptor='index', rdm_descriptor='index'):
            tr, te, ce = ORIG['sets_k_fold'](rdms, k_rdm=k_rdm, k_pattern=k_pattern,
                                             random=random,
                                             pattern_descriptor=pattern_descriptor,
                                             rdm_descriptor=rdm_descriptor)
            ev.append(dict(ev='sets', kind='k_fold', src=rdms,
                           opts=dict(k_rdm=k_rdm, k_pattern=k_pattern, random=random,
                                     pattern_descriptor=pattern_descriptor,
                                     rdm_descriptor=rdm_descriptor),
                           train=_copy_sets(tr), test=_copy_sets(te), ceil=_copy_sets(ce),
                           raw=(tr, te, ce)))
            return tr, te, ce

        def sets_random(rdms, n_rdm=None, n_pattern=None, n_cv=2,
                        pattern_descriptor='index', rdm_descriptor='index'):
            tr, te, ce = ORIG['sets_random'](rdms, n_rdm=n_rdm, n_pattern=n_pattern, n_cv=n_cv,
                                             pattern_descriptor=pattern_descriptor,
                                             rdm_descriptor=rdm_descriptor)
            ev.append(dict(ev='sets', kind='random', src=rdms,
                           opts=dict(n_rdm=n_rdm, n_pattern=n_pattern, n_cv=n_cv,
                                     pattern_descriptor=pattern_descriptor,
                                     rdm_descriptor=rdm_descriptor),
                           train=_copy_sets(tr), test=_copy_sets(te), ceil=_copy_sets(ce),
                           raw=(tr, te, ce)))
            return tr, te, ce

        def boot_noise_ceiling(rdms, method='cosine', rdm_descriptor='index'):
            r = ORIG['boot_noise_ceiling'](rdms, method=method, rdm_descriptor=rdm_descriptor)
            ev.append(dict(ev='ceil', kind='boot', rdms=rdms, method=method,
                           rdm_descriptor=rdm_descriptor, ret=(float(r[0]), float(r[1]))))
            return r

        def cv_noise_ceiling(rdms, ceil_set, test_set, method='cosine',
                             pattern_descriptor='index'):
            r = ORIG['cv_noise_ceiling'](rdms, ceil_set, test_set, method=method,
                                         pattern_descriptor=pattern_descriptor)
            ev.append(dict(ev='ceil', kind='cv', rdms=rdms, ceil_raw=ceil_set, test_raw=test_set,
                           ceil=_copy_sets(ceil_set), test=_copy_sets(test_set),
                           method=method, pattern_descriptor=pattern_descriptor,
                           ret=(float(r[0]), float(r[1]))))
            return r

        for f in (bootstrap_sample, bootstrap_sample_rdm, bootstrap_sample_pattern,
                  sets_k_fold, sets_random, boot_noise_ceiling, cv_noise_ceiling):
            w[f.__name__] = f
        return w


class InjectedRandint:
    """numpy.random.randint replacement: the k-th call with an int `size` returns the
    k-th generated draw list (entries taken modulo `high`); calls beyond the generated
    history, or of another form, fall through to the seeded global generator."""

    def __init__(self, draws):
        self.draws = [list(d) for d in (draws or [])]
        self.pos = 0
        self.injected = 0
        self.fallback = 0

    def __call__(self, low, high=None, size=None, dtype=int):
        if high is None:
            low, high = 0, low
        if (self.pos < len(self.draws) and isinstance(size, (int, np.integer))
                and len(self.draws[self.pos]) == int(size) and high > low):
            d = self.draws[self.pos]
            self.pos += 1
            self.injected += 1
            return np.array([low + (int(x) % (high - low)) for x in d], dtype=int)
        self.fallback += 1
        return ORIG_RANDINT(low, high, size)


@contextlib.contextmanager
def harness(seed, draws, recorder=None):
    """seed the global generator, inject randint draws, silence tqdm and (optionally)
    install the recorders into rsatoolbox.inference.evaluate"""
    inj = InjectedRandint(draws)
    saved = {}
    state = np.random.get_state()
    try:
        np.random.seed(int(seed))
        np.random.randint = inj
        EV.tqdm = _NoTqdm
        if recorder is not None:
            for name, f in recorder.wrappers().items():
                saved[name] = getattr(EV, name)
                setattr(EV, name, f)
        yield inj
    finally:
        for name, f in saved.items():
            setattr(EV, name, f)
        EV.tqdm = ORIG_TQDM
        np.random.randint = ORIG_RANDINT
        np.random.set_state(state)


# ----------------------------------------------------------------------------
# identities and reference samples

def group_values(labels):
    """distinct labels"""
    return ref.first_appearance(list(labels))


def members(labels, value):
    return [i for i, g in enumerate(labels) if g == value]


def index_labels(n_rdm, n_cond):
    """the rdm 'index' descriptor of the data object: positions, or (for half of the shapes) a
    permutation of them"""
    if (n_rdm + n_cond) % 2 == 0:
        return [(3 * i + 1) % n_rdm if n_rdm % 3 else (n_rdm - 1 - i) for i in range(n_rdm)]
    return list(range(n_rdm))


def rdm_labels(case, descriptor):
    n = len(case['data'])
    if descriptor in (None, 'index'):
        if case.get('rdm_groups') is None:
            return index_labels(n, case['n_cond'])
        return list(range(n))
    return list(case['rdm_groups'])


def pat_labels(case, descriptor):
    if descriptor in (None, 'index'):
        return list(range(case['n_cond']))
    return list(case['pat_groups'])


def expand_rdm(labels, rdm_idx):
    """source RDM numbers of a resample: every RDM of each drawn group, once per draw"""
    out = []
    for g in rdm_idx:
        out += members(labels, g)
    return out


def expand_pat(labels, pattern_idx):
    out = []
    for g in pattern_idx:
        out += members(labels, g)
    return sorted(out)


def ids_of(obj):
    rid = [int(x) for x in obj.rdm_descriptors['_rid']]
    cid = [int(x) for x in obj.pattern_descriptors['_cid']]
    return rid, cid


def source_vectors(case):
    return np.array(case['data'], dtype=float)


def check_content(case, obj, what, sig):
    """the library object's dissimilarities are the source values of the RDMs/conditions
    its identity descriptors name (NaN exactly for pairs of two copies of one condition)"""
    rid, cid = ids_of(obj)
    require(obj.n_rdm == len(rid) and obj.n_cond == len(cid),
            '%s: descriptor lengths do not match the object size' % what, sig)
    exp = ref.sample_rdm_vectors(source_vectors(case), case['n_cond'], rid, cid)
    got = np.asarray(obj.get_vectors(), dtype=float)
    if exp.shape != got.shape or not core.close(got, exp, rtol=0, atol=0):
        raise Violation('%s: values are not those of source RDMs %s / conditions %s' % (
            what, rid, cid), sig)
    return rid, cid


_V_CACHE = {}


def dense_v(n):
    if n not in _V_CACHE:
        _V_CACHE[n] = ref.dense_v(n)
    return _V_CACHE[n]


class Degenerate(Exception):
    pass


def _nondegenerate(method, a, b):
    if len(a) < 2:
        raise Degenerate('fewer than two defined pairs')
    for x in (a, b):
        if method in ('cosine', 'cosine_cov'):
            if not np.sqrt(np.sum(x * x)) > 1e-9:
                raise Degenerate('zero vector')
        elif method in ('corr', 'corr_cov'):
            if not np.std(x) > 1e-9 * max(1.0, np.max(np.abs(x))):
                raise Degenerate('constant vector')
        else:
            if len(set(np.asarray(x).tolist())) < 2:
                raise Degenerate('all tied')
            srt = np.sort(np.asarray(x, dtype=float))
            gap = np.diff(srt)
            if np.any((gap > 0) & (gap <= 1e-11 * max(1.0, float(np.max(np.abs(srt)))))):
                raise Degenerate('near-tie: rank measure is discontinuous here')


RANK_METHODS = ('spearman', 'rho-a', 'tau-a', 'kendall', 'tau-b')


def mean_similarity(case, pred_full, rid, cid, arithmetic=False):
    """mean over the RDMs `rid` of the reference similarity between the prediction
    restricted to conditions `cid` and the source data RDM at (`rid`, `cid`)"""
    method = case['method']
    n = case['n_cond']
    dat = ref.sample_rdm_vectors(source_vectors(case), n, rid, cid)
    pv = ref.restrict_vector(pred_full, n, cid)
    if dat.shape[0] == 0:
        raise Degenerate('no RDMs')
    keep = ~np.isnan(dat[0])
    m = len(cid)
    v = None
    if method in ('cosine_cov', 'corr_cov'):
        v = dense_v(m)[keep][:, keep]
    if arithmetic and method in RANK_METHODS:
        # the prediction is a weighted sum: ties in it are decided by rounding
        srt = np.sort(pv[keep])
        if len(srt) > 1 and np.any(np.diff(srt) <= 1e-11 * max(1.0, float(np.max(np.abs(srt))))):
            raise Degenerate('tie in a computed prediction under a rank measure')
    sims = []
    for d in dat:
        a, b = pv[keep], d[keep]
        _nondegenerate(method, a, b)
        sims.append(ref.sim(method, a, b, n=m, v=v))
    return float(np.mean(sims))


def rebuild(case, rid, cid, with_groups=True):
    """a fresh library object holding the source values of RDMs rid / conditions cid"""
    vecs = ref.sample_rdm_vectors(source_vectors(case), case['n_cond'], rid, cid)
    rd = {'_rid': list(rid)}
    pd = {'_cid': list(cid), 'index': [int(c) for c in cid]}
    if case.get('rdm_groups') is not None:
        rd[RDM_DESC] = [case['rdm_groups'][r] for r in rid]
    if case.get('pat_groups') is not None:
        pd[PAT_DESC] = [case['pat_groups'][c] for c in cid]
    rd['index'] = [int(r) for r in rid]
    return RDMs(vecs, dissimilarity_measure='euclidean', rdm_descriptors=rd,
                pattern_descriptors=pd)


# ----------------------------------------------------------------------------
# covariance oracles (explicit loops)

def cov_rows(x):
    """sample covariance (divisor n-1) of the rows of x (observations x variables)"""
    x = np.asarray(x, dtype=float)
    n, p = x.shape
    mean = [sum(x[i, j] for i in range(n)) / n for j in range(p)]
    c = np.zeros((p, p))
    for i in range(n):
        d = [x[i, j] - mean[j] for j in range(p)]
        for j in range(p):
            for k in range(p):
                c[j, k] += d[j] * d[k]
    return c / (n - 1)


def ok_rows(evals):
    """resamples that were evaluated: not marked NaN.  returns (ok mask, clean) where
    clean is False if an evaluated resample contains a NaN somewhere"""
    e = np.asarray(evals, dtype=float)
    flat = e.reshape(e.shape[0], -1)
    allnan = np.all(np.isnan(flat), axis=1)
    anynan = np.any(np.isnan(flat), axis=1)
    return ~allnan, not bool(np.any(anynan & ~allnan))


def cv_variances(evals, ceil, n_cv, correction):
    """evals (N, m, F, n_cv), ceil (2, N, n_cv) -> covariance of per-resample means with
    the n_cv correction (n_cv*var_mean - var_1)/(n_cv-1) where requested"""
    evals = np.asarray(evals, dtype=float)
    ceil = np.asarray(ceil, dtype=float)
    ok, clean = ok_rows(evals)
    if not clean or ok.sum() < 2 or np.any(np.isnan(ceil[:, ok])):
        return None
    e = evals[ok]
    c = ceil[:, ok]
    n = e.shape[0]
    m = e.shape[1]
    mean_mat = np.zeros((n, m + 2))
    for i in range(n):
        for j in range(m):
            mean_mat[i, j] = np.mean(e[i, j])
        mean_mat[i, m] = np.mean(c[0, i])
        mean_mat[i, m + 1] = np.mean(c[1, i])
    var_mean = cov_rows(mean_mat)
    if not (correction and n_cv > 1):
        return var_mean
    var_1 = np.zeros_like(var_mean)
    for r in range(n_cv):
        mat = np.zeros((n, m + 2))
        for i in range(n):
            for j in range(m):
                mat[i, j] = np.mean(e[i, j, :, r])
            mat[i, m] = c[0, i, r]
            mat[i, m + 1] = c[1, i, r]
        var_1 += cov_rows(mat) / n_cv
    return (n_cv * var_mean - var_1) / (n_cv - 1)
