"""C15 reference: 'average over admissible observation pairs' written from the
property statement with explicit loops. Imports nothing from rsatoolbox.

Definitions (P = number of channels, V(i,j) = channels present in both rows):
  product of two observations i, j        weight w(i,j) = |V(i,j)|
    euclidean / mahalanobis without N :   s = sum_{c in V} x_ic x_jc
    mahalanobis / crossnobis with N   :   s = sum_{c,d in V} x_ic N_cd x_jd
    correlation                       :   s = r_V(x_i, x_j) * w / 2
    poisson / poisson_cv              :   s = -1/2 sum_{c in V} (l_ic-l_jc)(log l_ic-log l_jc),
                                          l = (x + lambda*weight)/(1+weight)
  admissible pairs between conditions a, b: i in a, j in b, w(i,j) > 0 and, with
    cross-validation, fold(i) != fold(j); without cross-validation the pairs
    inside one condition include i == j (so that S_aa is the squared mean).
  S_ab  weighting 'number': sum s / sum w      weighting 'equal': mean of s / w
  d_ab = S_aa + S_bb - 2 S_ab;  NaN when one of the three has no admissible pair.
"""
import math

import numpy as np

from vf import ref

NAN = float('nan')


def _isnan(v):
    return isinstance(v, float) and math.isnan(v)


def transform_poisson(x, prior_lambda, prior_weight):
    out = []
    for row in x:
        out.append([NAN if _isnan(v) else (v + prior_lambda * prior_weight) / (1 + prior_weight)
                    for v in row])
    return out


def pair_product(xi, xj, method, noise):
    """(s, w, s_abs): product, number of shared channels, sum of |terms| (error scale)"""
    valid = [c for c in range(len(xi)) if not _isnan(xi[c]) and not _isnan(xj[c])]
    w = len(valid)
    if w == 0:
        return None
    if method in ('euclidean',) or (method in ('mahalanobis', 'crossnobis') and noise is None):
        s = 0.0
        sa = 0.0
        for c in valid:
            s += xi[c] * xj[c]
            sa += abs(xi[c] * xj[c])
        return s, w, sa
    if method in ('mahalanobis', 'crossnobis'):
        s = 0.0
        sa = 0.0
        for c in valid:
            for d in valid:
                t = xi[c] * noise[c][d] * xj[d]
                s += t
                sa += abs(t)
        return s, w, sa
    if method == 'correlation':
        mi = sum(xi[c] for c in valid) / w
        mj = sum(xj[c] for c in valid) / w
        cij = sum((xi[c] - mi) * (xj[c] - mj) for c in valid)
        cii = sum((xi[c] - mi) ** 2 for c in valid)
        cjj = sum((xj[c] - mj) ** 2 for c in valid)
        if cii <= 0 or cjj <= 0:
            return NAN, w, 1.0
        r = cij / math.sqrt(cii * cjj)
        return r * w / 2.0, w, w / 2.0
    if method in ('poisson', 'poisson_cv'):
        s = 0.0
        sa = 0.0
        for c in valid:
            t = -0.5 * (xi[c] - xj[c]) * (math.log(xi[c]) - math.log(xj[c]))
            s += t
            sa += abs(xi[c] * math.log(xi[c])) + abs(xj[c] * math.log(xj[c])) + \
                abs(xi[c] * math.log(xj[c])) + abs(xj[c] * math.log(xi[c]))
        return s, w, sa
    raise ValueError(method)


def unbalanced(meas, obs, folds, method, weighting, noise=None, prior_lambda=1.0,
               prior_weight=0.1):
    """returns dict(labels, d (square nested list with NaN), scale (square, error scale),
    self_defined (list of bool), n_pairs (square: number of admissible pairs))

    folds: list of fold values per row or None (no cross-validation)."""
    x = [[float(v) for v in row] for row in meas]
    if method in ('poisson', 'poisson_cv'):
        x = transform_poisson(x, prior_lambda, prior_weight)
    crossval = folds is not None
    labels = ref.first_appearance(list(obs))
    rows = [[i for i, o in enumerate(obs) if o == lab] for lab in labels]
    n = len(labels)

    def block(a, b):
        prods = []
        if a == b:
            for i in rows[a]:
                for j in rows[a]:
                    if crossval and (i == j or folds[i] == folds[j]):
                        continue
                    pr = pair_product(x[i], x[j], method, noise)
                    if pr is not None:
                        prods.append(pr)
        else:
            for i in rows[a]:
                for j in rows[b]:
                    if crossval and folds[i] == folds[j]:
                        continue
                    pr = pair_product(x[i], x[j], method, noise)
                    if pr is not None:
                        prods.append(pr)
        if not prods:
            return NAN, 0.0, 0
        if weighting == 'number':
            tw = sum(p[1] for p in prods)
            return sum(p[0] for p in prods) / tw, sum(p[2] for p in prods) / tw, len(prods)
        return (sum(p[0] / p[1] for p in prods) / len(prods),
                sum(p[2] / p[1] for p in prods) / len(prods), len(prods))

    s = [[None] * n for _ in range(n)]
    for a in range(n):
        for b in range(a, n):
            s[a][b] = s[b][a] = block(a, b)
    d = [[NAN] * n for _ in range(n)]
    scale = [[0.0] * n for _ in range(n)]
    npairs = [[s[a][b][2] for b in range(n)] for a in range(n)]
    for a in range(n):
        for b in range(n):
            if a == b:
                d[a][b] = 0.0
                continue
            if s[a][a][2] and s[b][b][2] and s[a][b][2]:
                d[a][b] = s[a][a][0] + s[b][b][0] - 2 * s[a][b][0]
            scale[a][b] = s[a][a][1] + s[b][b][1] + 2 * s[a][b][1]
    return dict(labels=labels, d=d, scale=scale, self_defined=[bool(s[a][a][2]) for a in range(n)],
                n_pairs=npairs, s=[[s[a][b][0] for b in range(n)] for a in range(n)])


def balanced(meas, obs, folds, method, noise=None, prior_lambda=1.0, prior_weight=0.1):
    """what calc_rdm is documented to compute (no missing values):
    distances between condition means; cross-validated: average over ordered
    fold pairs m != n of products of fold-wise condition-mean differences.
    returns (labels, square matrix)"""
    meas = np.asarray(meas, dtype=float)
    p = meas.shape[1]
    labels = ref.first_appearance(list(obs))
    n = len(labels)
    d = np.zeros((n, n))
    if method in ('euclidean', 'mahalanobis', 'correlation', 'poisson'):
        _, means = ref.cond_means(meas, obs)
        for a in range(n):
            for b in range(n):
                if a == b:
                    continue
                if method == 'euclidean' or (method == 'mahalanobis' and noise is None):
                    d[a, b] = ref.d_euclid(means[a], means[b])
                elif method == 'mahalanobis':
                    d[a, b] = ref.d_mahal(means[a], means[b], noise)
                elif method == 'correlation':
                    d[a, b] = ref.d_corr(means[a], means[b])
                else:
                    d[a, b] = ref.d_poisson(means[a], means[b], prior_lambda, prior_weight)
        return labels, d
    fold_vals = ref.first_appearance(list(folds))
    m_ = len(fold_vals)
    fm = {}
    for a, lab in enumerate(labels):
        for k, f in enumerate(fold_vals):
            rows = [i for i in range(len(obs)) if obs[i] == lab and folds[i] == f]
            acc = np.zeros(p)
            for i in rows:
                acc = acc + meas[i]
            fm[a, k] = acc / len(rows)
    nmat = np.eye(p) if noise is None else np.asarray(noise, dtype=float)
    for a in range(n):
        for b in range(n):
            if a == b:
                continue
            tot = 0.0
            for k in range(m_):
                for l in range(m_):
                    if k == l:
                        continue
                    if method == 'crossnobis':
                        da = fm[a, k] - fm[b, k]
                        db = fm[a, l] - fm[b, l]
                        tot += float(da @ nmat @ db) / p
                    else:
                        ra = (fm[a, k] + prior_lambda * prior_weight) / (1 + prior_weight)
                        rb = (fm[b, k] + prior_lambda * prior_weight) / (1 + prior_weight)
                        ta = (fm[a, l] + prior_lambda * prior_weight) / (1 + prior_weight)
                        tb = (fm[b, l] + prior_lambda * prior_weight) / (1 + prior_weight)
                        tot += float(sum((ra[c] - rb[c]) * (math.log(ta[c]) - math.log(tb[c]))
                                         for c in range(p))) / p
            d[a, b] = tot / (m_ * (m_ - 1))
    return labels, d
