"""C05 - cross-validation folds partition the data; test data never influence fitting."""
from vf.core import SubCheck
from vf.props import c05_sets as A
from vf.props import c05_leak as B

RULE = ("(A) Hypothesis-generated RDM stacks (1-8 RDMs x 3-10 conditions, hidden ids _rid/_cid, every "
        "entry encoding its RDM and pair) with grouping descriptors per dimension (default index, "
        "overridden integer 'index' with repeats, named int/str descriptor, list/ndarray, unique or "
        "repeated values, optionally NaN between members of a condition group as in a bootstrap "
        "sample); each of the 8 generators with k / group size / n drawn over the whole admissible "
        "range (incl. k=1, defaults, default descriptor arguments), ordered or random assignment with "
        "the shuffle outcomes injected from a generated integer list. Oracle: every object handed out "
        "is traced back through the ids (values, descriptors, whole groups exactly once), advertised "
        "pattern indices = groups contained, test/train groups disjoint and complementary in each "
        "cross-validated dimension, ceil_set = training RDMs x test conditions, exhaustive schemes: "
        "requested number of folds, every (RDM group x condition group) cell in exactly one test "
        "fold, fold sizes differ by <= 1 (groups of k: >= k). (B) numeric stacks whose folds stay "
        "evaluable, 1-2 models (fixed / select / weighted with regress, regress_nn, optimize / "
        "interpolate), cosine / corr / spearman; crossval (or _internal_cv on a real injected bootstrap "
        "sample, partition predicates included) run with a recording fitter; all or a generated "
        "subset of the dissimilarities touching a test-only condition or RDM of one fold are rescaled "
        "and the run repeated with the same injected shuffles: theta of that fold bit-identical; then "
        "thetas replayed and training-only entries rescaled: the fold's score bit-identical. "
        "Non-trivial: (A) more than one fold and a grouping descriptor with repeats; (B) a perturbation "
        "touching >= 1 entry and a continuously fitted model; distinct by SHA1 of the case.")

ASSUMPTIONS = [
    "documented preconditions are respected by construction: k <= number of groups, group size "
    "k <= groups/2 for sets_of_k_*, n_rdm / n_pattern smaller than the number of groups for "
    "sets_random, >= 2 condition groups for leave-one-out over conditions",
    "an empty training set for sets_k_fold_rdm(k_rdm=1) is not asserted against (only sets_k_fold / "
    "sets_k_fold_pattern / sets_random document 'k=1: train = test = everything'; crossval skips "
    "folds with empty sides)",
    "generators over RDMs only advertise condition positions 0..n_cond-1; this is compared with the "
    "default 'index' only (an input whose 'index' was overridden is not asserted there)",
    "order of RDMs / conditions inside the handed-out objects is not asserted",
    "leakage is decided metamorphically relative to the library's own train/test objects (whose "
    "disjointness part A decides); bit-identity requires deterministic fitters: fit_optimize draws "
    "its starting points from numpy's global generator, which is re-seeded from the case before "
    "every run",
    "models carry the grouping pattern descriptor on their own RDMs; ModelFixed overwrites 'index' on "
    "its RDM, so leakage cases never group conditions by an overridden 'index'",
    "fit_regress_nn can cycle forever in its active-set loop on some inputs (absolute stopping "
    "threshold); such cases hit a 3 s watchdog and are counted inconclusive, singular regressions "
    "are counted as rejected",
    "noise ceilings are not part of this property (calc_noise_ceil=False where the API allows it)",
]

SUBCHECKS = [
    SubCheck('sets_' + g, A.sets_case(g), A.check_sets_case, A.classify_sets, quick=400, thorough=3000,
             doc='partition / content predicates for sets_' + g.replace('loo', 'leave_one_out'))
    for g in A.GENS
] + [
    SubCheck('leak_' + fam, B.leak_case(fam), B.check_leak, B.classify_leak, quick=60, doc=doc)
    for fam, doc in [
        ('rdm', 'crossval on folds over RDMs (k_fold_rdm, leave_one_out_rdm, of_k_rdm): theta vs '
                'test-only RDMs, score vs training-only RDMs'),
        ('pattern', 'crossval on folds over conditions (k_fold_pattern, leave_one_out_pattern, '
                    'of_k_pattern)'),
        ('both', 'crossval on sets_k_fold / sets_random folds over RDMs and conditions'),
        ('boot', '_internal_cv on an injected bootstrap sample (fold ids expanded to multiplicities by '
                 '_concat_sampling) incl. partition predicates on the sample')]
]
