"""C05 - cross-validation folds partition the data; test data never influence fitting."""
from vf.core import SubCheck
from vf.props import c05_sets as A
from vf.props import c05_leak as B

RULE = "tbd"
ASSUMPTIONS = []

SUBCHECKS = [
    SubCheck('sets_' + g, A.sets_case(g), A.check_sets_case, A.classify_sets, quick=80,
             doc='partition predicates for sets_' + g)
    for g in A.GENS
] + [
    SubCheck('leak_' + fam, B.leak_case(fam), B.check_leak, B.classify_leak, quick=50,
             doc=doc)
    for fam, doc in [
        ('rdm', 'crossval on folds over RDMs: theta vs test-only RDMs, score vs training-only RDMs'),
        ('pattern', 'crossval on folds over conditions'),
        ('both', 'crossval on sets_k_fold / sets_random folds over RDMs and conditions'),
        ('boot', '_internal_cv on a bootstrap sample (fold ids expanded by _concat_sampling)')]
]
