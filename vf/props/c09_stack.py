"""RDM stacks with hidden identities (shared by C09 and C05).

A *stack spec* is a JSON-able dict

  n_rdm, n_cond
  vals      n_rdm x n_pairs small dyadic numbers (the generated part of every value)
  nans      list of [r, k] (applied modulo): source entries that are already NaN
  rdm       grouping spec for the RDM dimension      (see `grouping`)
  pat       grouping spec for the condition dimension
  rother / pother   a second, non-unique descriptor per RDM / condition that has to travel along

grouping spec: dict(by='default'|'index'|'grp', kind='int'|'str', container='list'|'array',
                    values=[label per item])
  by='default'  no grouping descriptor, library default 'index' = 0..n-1 (created by RDMs itself)
  by='index'    integer labels stored under the name 'index' (repeated / non-contiguous values,
                as in an object that is itself a bootstrap sample)
  by='grp'      labels stored under 'rgrp' / 'pgrp'

Every RDM carries `_rid` = RID0 + position, every condition `_cid` = CID0 + position, and the
dissimilarity of RDM r, pair k is  vals[r][k] + 256 * (r * n_pairs + k + 1): all entries of a
stack are distinct and exact in float64, so a value identifies its (RDM, pair) of origin.
"""
from collections import Counter

import numpy as np
from hypothesis import strategies as st

from vf import gen, ref

RID0 = 100
CID0 = 500
OTHER_POOL = ['s1', 's2', 'x', 's10']


# ---- strategies --------------------------------------------------------------

@st.composite
def grouping(draw, n, allow_default=True, force=None, min_groups=1):
    """grouping spec for n items with >= min_groups distinct labels (by construction)"""
    bys = ['grp', 'grp', 'index'] + (['default'] if allow_default else [])
    by = force or draw(st.sampled_from(bys))
    if by == 'default':
        return dict(by='default', kind='int', container='list', values=list(range(n)),
                    as_none=draw(st.integers(0, 3)) == 0)
    kind = 'int' if by == 'index' else draw(st.sampled_from(['int', 'str', 'int', 'str', 'float']))
    _, labs = draw(gen.label_set(n, kinds=(kind,)))
    mode = draw(st.sampled_from(['repeated', 'repeated', 'repeated', 'repeated', 'repeated',
                                 'unique', 'unique', 'unique-sorted', 'unique-sorted', 'one']))
    lo = min(max(1, min_groups), n)
    if mode == 'unique-sorted':
        # the everyday case: one distinct label per item, stored in ascending order
        labs = sorted(labs)
        assign = list(range(n))
    elif mode == 'unique' or n == 1:
        assign = draw(gen.permutation(n))
    elif mode == 'one' and lo <= 1:
        assign = [0] * n
    else:
        # exactly m groups (surjective by construction), m <= n-1: some group has two members
        m = draw(st.integers(max(lo, min(2, n - 1)), max(lo, n - 1)))
        m = min(m, n)
        extra = draw(st.lists(st.integers(0, m - 1), min_size=n - m, max_size=n - m))
        perm = draw(gen.permutation(n))
        base = list(range(m)) + extra
        assign = [base[i] for i in perm]
    values = [labs[a] for a in assign]
    # pattern_descriptor=None is documented to mean 'index' (add_pattern_index): also for an
    # object whose 'index' is not 0..n-1 (a subset, or a bootstrap sample resampled again)
    return dict(by=by, kind=kind, container=draw(gen.container), values=values,
                as_none=(by == 'index' and draw(st.integers(0, 2)) == 0))


def _size(lo, hi):
    """sizes lo..hi, three quarters of them >= 3 (room for a repeated group and a second group)"""
    big = st.integers(max(lo, min(3, hi)), hi)
    return st.one_of(st.integers(lo, hi), big, big, big)


@st.composite
def stack(draw, n_rdm=(1, 6), n_cond=(2, 8), allow_nan=True, min_rdm_groups=1,
          min_pat_groups=1, force_rdm=None, force_pat=None):
    r = draw(_size(*n_rdm))
    c = draw(_size(*n_cond))
    p = ref.n_pairs(c)
    vals = draw(st.lists(st.lists(st.integers(-64, 64).map(lambda k: k / 8.0),
                                  min_size=p, max_size=p), min_size=r, max_size=r))
    nans = []
    if allow_nan and draw(st.integers(0, 7)) == 0:
        nans = draw(st.lists(st.lists(st.integers(0, 40), min_size=2, max_size=2),
                             min_size=1, max_size=3))
    return dict(
        n_rdm=r, n_cond=c, vals=vals, nans=nans,
        rdm=draw(grouping(r, force=force_rdm, min_groups=min(min_rdm_groups, r))),
        pat=draw(grouping(c, force=force_pat, min_groups=min(min_pat_groups, c))),
        rother=draw(st.lists(st.sampled_from(OTHER_POOL), min_size=r, max_size=r)),
        pother=draw(st.lists(st.sampled_from(OTHER_POOL), min_size=c, max_size=c)))


# ---- building ------------------------------------------------------------------

def source_vectors(spec):
    r, c = spec['n_rdm'], spec['n_cond']
    p = ref.n_pairs(c)
    v = np.zeros((r, p))
    for i in range(r):
        for k in range(p):
            if spec.get('numeric'):
                # plain positive data for checks that compute with the values (C05 leakage)
                v[i, k] = abs(float(spec['vals'][i][k])) + 0.125
            else:
                v[i, k] = float(spec['vals'][i][k]) + 256.0 * (i * p + k + 1)
    for (a, b) in spec.get('nans', []):
        if p > 0:
            v[a % r, b % p] = np.nan
    return v


def desc_name(spec, dim):
    g = spec[dim]
    if g['by'] in ('default', 'index'):
        return 'index'
    return 'rgrp' if dim == 'rdm' else 'pgrp'


def group_values(spec, dim):
    """label per item as plain python values"""
    return list(spec[dim]['values'])


def distinct_sorted(values):
    return sorted(set(values))


def build(spec, RDMs):
    """-> (RDMs object, side table)"""
    r, c = spec['n_rdm'], spec['n_cond']
    vecs = source_vectors(spec)
    rdm_desc = {'_rid': [RID0 + i for i in range(r)], 'rother': list(spec['rother'])}
    pat_desc = {'_cid': [CID0 + j for j in range(c)], 'pother': list(spec['pother'])}
    for dim, d in (('rdm', rdm_desc), ('pat', pat_desc)):
        g = spec[dim]
        if g['by'] != 'default':
            d[desc_name(spec, dim)] = gen.as_desc(list(g['values']), g['container'])
    if has_2d(spec):
        # a descriptor may hold one row of numbers per item (a position, a searchlight centre)
        rdm_desc['rctr'] = np.array(rows2d(RID0, r), dtype=float)
        pat_desc['ppos'] = np.array(rows2d(CID0, c), dtype=float)
    obj = RDMs(vecs.copy(), dissimilarity_measure='test', descriptors={'subj': 'a'},
               rdm_descriptors=rdm_desc, pattern_descriptors=pat_desc)
    side = side_table(spec, vecs)
    return obj, side


def has_2d(spec):
    return (spec['n_rdm'] + 2 * spec['n_cond']) % 2 == 0


def rows2d(base, n):
    return [[float(base + i), float(3 * (base + i) % 7), float(-i)] for i in range(n)]


def side_table(spec, vecs=None):
    r, c = spec['n_rdm'], spec['n_cond']
    vecs = source_vectors(spec) if vecs is None else vecs
    rd = {'_rid': [RID0 + i for i in range(r)], 'rother': list(spec['rother']),
          'index': list(range(r))}
    pd = {'_cid': [CID0 + j for j in range(c)], 'pother': list(spec['pother']),
          'index': list(range(c))}
    if has_2d(spec):
        rd['rctr'] = rows2d(RID0, r)
        pd['ppos'] = rows2d(CID0, c)
    if spec['rdm']['by'] != 'default':
        rd[desc_name(spec, 'rdm')] = list(spec['rdm']['values'])
    if spec['pat']['by'] != 'default':
        pd[desc_name(spec, 'pat')] = list(spec['pat']['values'])
    return dict(vecs=vecs, n_cond=c, n_rdm=r, rdm_desc=rd, pat_desc=pd,
                rgroup=list(rd[desc_name(spec, 'rdm')]),
                pgroup=list(pd[desc_name(spec, 'pat')]))


def kwargs_for(spec, sampler_dims, names=('rdm_descriptor', 'pattern_descriptor')):
    """keyword arguments naming the grouping descriptors; 'default' -> argument omitted"""
    kw = {}
    if 'rdm' in sampler_dims and spec['rdm']['by'] != 'default':
        kw[names[0]] = desc_name(spec, 'rdm')
    if 'pat' in sampler_dims and spec['pat']['by'] != 'default':
        kw[names[1]] = desc_name(spec, 'pat')
    if 'pat' in sampler_dims and spec['pat'].get('as_none') and names[1] == 'pattern_descriptor':
        kw[names[1]] = None
    return kw


# ---- reading an object back ------------------------------------------------------

class Trace(Exception):
    """the object cannot be traced back to the source (message, region)"""

    def __init__(self, msg, region):
        super().__init__(msg)
        self.msg = msg
        self.region = region


def _plain(x):
    if isinstance(x, np.generic):
        return x.item()
    return x


def same(a, b):
    if isinstance(a, (list, tuple, np.ndarray)) or isinstance(b, (list, tuple, np.ndarray)):
        try:
            a, b = np.asarray(a, dtype=float), np.asarray(b, dtype=float)
        except (TypeError, ValueError):
            return False
        return a.shape == b.shape and bool(np.array_equal(a, b))
    a, b = _plain(a), _plain(b)
    if isinstance(a, str) != isinstance(b, str):
        return False
    try:
        return bool(a == b)
    except Exception:  # noqa: BLE001
        return False


def ids_of(obj, what='object'):
    """(positions of the RDMs, positions of the conditions) decoded from the hidden ids"""
    try:
        rid = [int(_plain(x)) - RID0 for x in obj.rdm_descriptors['_rid']]
        cid = [int(_plain(x)) - CID0 for x in obj.pattern_descriptors['_cid']]
    except KeyError as e:
        raise Trace('%s lost the descriptor %s' % (what, e), 'descriptor-lost')
    return rid, cid


def trace(obj, side, what='sample'):
    """full identity invariant of DESIGN 1.5 for an object derived from the source:
    shapes consistent, every descriptor value equals the source value of that id, every
    dissimilarity equals the source entry of (rid, {cid, cid'}) and is NaN for two copies of
    one condition (or where the source is NaN) and nowhere else.  returns (rid, cid)."""
    rid, cid = ids_of(obj, what)
    nr, nc = len(rid), len(cid)
    d = np.asarray(obj.dissimilarities, dtype=float)
    if obj.n_rdm != nr or obj.n_cond != nc or d.shape != (nr, ref.n_pairs(nc)):
        raise Trace('%s: n_rdm=%s n_cond=%s dissimilarities %s but %d RDM ids and %d condition ids'
                    % (what, obj.n_rdm, obj.n_cond, d.shape, nr, nc), 'shape')
    for i in rid:
        if not 0 <= i < side['n_rdm']:
            raise Trace('%s: unknown RDM id %d' % (what, i + RID0), 'unknown-id')
    for j in cid:
        if not 0 <= j < side['n_cond']:
            raise Trace('%s: unknown condition id %d' % (what, j + CID0), 'unknown-id')
    for name, table, ids, have in (('rdm', side['rdm_desc'], rid, obj.rdm_descriptors),
                                   ('pattern', side['pat_desc'], cid, obj.pattern_descriptors)):
        for key, src in table.items():
            if key not in have:
                raise Trace('%s: %s descriptor %r missing' % (what, name, key), 'descriptor-lost')
            got = list(have[key])
            if len(got) != len(ids):
                raise Trace('%s: %s descriptor %r has %d values for %d items'
                            % (what, name, key, len(got), len(ids)), 'descriptor-length')
            for pos, i in enumerate(ids):
                if not same(got[pos], src[i]):
                    raise Trace('%s: %s descriptor %r at position %d is %r, source value of that '
                                'item is %r' % (what, name, key, pos, got[pos], src[i]),
                                'descriptor-value:' + name)
    expect = ref.sample_rdm_vectors(side['vecs'], side['n_cond'], rid, cid)
    if nr and expect.size:
        en, gn = np.isnan(expect), np.isnan(d)
        if not np.array_equal(en, gn):
            i, k = [int(x[0]) for x in np.nonzero(en != gn)]
            a, b = ref.pairs(nc)[k]
            if gn[i, k]:
                raise Trace('%s: entry (RDM id %d, conditions %d,%d) is NaN but the source value '
                            'is %r' % (what, rid[i] + RID0, cid[a] + CID0, cid[b] + CID0,
                                       float(expect[i, k])), 'nan-extra')
            raise Trace('%s: entry (RDM id %d, conditions %d,%d) is %r, expected NaN (%s)'
                        % (what, rid[i] + RID0, cid[a] + CID0, cid[b] + CID0, float(d[i, k]),
                           'two copies of one condition' if cid[a] == cid[b] else 'source is NaN'),
                        'nan-missing')
        bad = ~en & (expect != d)
        if bad.any():
            i, k = [int(x[0]) for x in np.nonzero(bad)]
            a, b = ref.pairs(nc)[k]
            raise Trace('%s: entry (RDM id %d, conditions %d,%d) is %r, source value is %r'
                        % (what, rid[i] + RID0, cid[a] + CID0, cid[b] + CID0, float(d[i, k]),
                           float(expect[i, k])), 'value')
    return rid, cid


def members(groups, values):
    """positions whose group label is one of `values`, with the multiplicity of `values`"""
    out = []
    for v in values:
        out += [i for i, g in enumerate(groups) if same(g, v)]
    return out


def multiset(xs):
    return Counter(xs)
