"""C09 - bootstrap samples are faithful with-replacement resamples of whole groups."""
import itertools
import math

import numpy as np
from hypothesis import strategies as st

from vf import core, gen, ref, rng
from vf.core import SubCheck, Enumeration, Violation, Reject, lib, require
from vf.props import c09_stack as S

from rsatoolbox.rdm import RDMs
from rsatoolbox.inference.bootstrap import (bootstrap_sample, bootstrap_sample_rdm,
                                            bootstrap_sample_pattern)

SAMPLERS = {'both': (bootstrap_sample, ('rdm', 'pat')),
            'rdm': (bootstrap_sample_rdm, ('rdm',)),
            'pattern': (bootstrap_sample_pattern, ('pat',))}

N_UNIFORM = 4000
SIGMA = 6.0

RULE = ("Hypothesis-generated RDM stacks (1-6 RDMs x 2-8 conditions; every entry distinct and "
        "encoding its RDM and pair; optional NaN entries in the source) carrying hidden ids _rid / "
        "_cid and a second non-unique descriptor; grouping per dimension by the default index, by "
        "an overridden integer 'index' with repeats (object that is itself a resample) or by a "
        "named descriptor (int / str labels, bool labels in sample_bool, unique or repeated, list or ndarray, appearance order "
        "!= sorted order); all three samplers; the outcomes of numpy.random.randint are generated "
        "integer lists injected for the duration of the call. Oracle: identity tracing through the "
        "library's own descriptors (multiset of drawn groups' members, every descriptor value, "
        "every entry bit-identical to the source entry of the same RDM and condition pair, NaN "
        "exactly for copy pairs / source NaN), index arrays of length #groups, order equality "
        "with model.subsample_pattern(returned indices). Enumeration: all group structures of <=4 "
        "(both: <=3) items in <=3 groups x the complete outcome space of the draws, where "
        "outcome -> returned index arrays must be a bijection. Uniformity: real generator seeded "
        "from the case, 4000 draws, each group's selection count within 6 sigma. Non-trivial: "
        "some group drawn at least twice and some drawn group with >= 2 members; distinct by SHA1.")

ASSUMPTIONS = [
    "the samplers draw through numpy.random.randint / choice / permutation / shuffle of the global "
    "generator (that is what is intercepted); a call that consumes no injected draw is counted as "
    "rejected (bypass) and would trip the reject-fraction alarm",
    "the mapping from a draw outcome to the group it selects is not prescribed: the injected "
    "sub-checks only use the returned index arrays; that every outcome selects a different "
    "tuple of groups (hence uniform draws give uniform group selection) is decided exactly by "
    "the enumeration sub-checks for <= 3 groups",
    "order of RDMs inside a sample is not asserted (multiset only); order of conditions is asserted "
    "only relative to model.subsample_pattern(descriptor, returned pattern indices) and, for the "
    "RDM-only sampler, relative to the source (eval_bootstrap_rdm compares without resampling)",
    "uniformity is the only statistical oracle: selection count of a group over 4000 draws ~ "
    "Binomial(4000*G, 1/G); acceptance |count-4000| <= 6*sqrt(4000*(1-1/G)); exact binomial "
    "two-sided tail <= 2.3e-9 per group for G=2..10, <= 14 groups per case => <= 3.2e-8 per case, "
    "<= 4e-7 per quick run (12 cases), <= 7e-6 per thorough run (200 cases). The generator seed is "
    "part of the case and the runner's Hypothesis seed is fixed by VERIF_SEED, so for a given "
    "VERIF_SEED the verdict is deterministic and a replay reproduces it bit for bit (no flaking)",
    "group labels are ints, strs or bools of one type per descriptor (np.unique must be able to sort them)",
]


# ---- oracle -------------------------------------------------------------------

def _v(msg, sig):
    raise Violation(msg, sig)


def check_index_array(idx, groups, what, sig_dim):
    """index array: ndarray, one entry per distinct group, every entry a group value"""
    distinct = S.distinct_sorted(groups)
    require(isinstance(idx, np.ndarray), '%s is %s, not an index array' % (what, type(idx).__name__),
            'index-type:' + sig_dim)
    require(idx.ndim == 1 and len(idx) == len(distinct),
            '%s has shape %s but there are %d distinct groups' % (what, idx.shape, len(distinct)),
            'n-drawn:' + sig_dim)
    for v in idx:
        require(any(S.same(v, g) for g in distinct), '%s contains %r which is not a group value %r'
                % (what, v, distinct), 'index-value:' + sig_dim)
    return [S._plain(v) for v in idx]


def check_sample(spec, side, sampler, out, source):
    """everything C09 states about one returned tuple; returns (rdm_idx, pattern_idx) as lists"""
    fn, dims = SAMPLERS[sampler]
    n_out = 1 + len(dims)
    require(isinstance(out, tuple) and len(out) == n_out,
            '%s returned %s, expected a %d-tuple' % (fn.__name__, type(out).__name__, n_out),
            'return-shape:' + sampler)
    sample = out[0]
    rdm_idx = pattern_idx = None
    if 'rdm' in dims:
        rdm_idx = check_index_array(out[1], side['rgroup'], 'rdm_idx', 'rdm')
    if 'pat' in dims:
        pattern_idx = check_index_array(out[-1], side['pgroup'], 'pattern_idx', 'pattern')
    try:
        rid, cid = S.trace(sample, side, 'sample')
    except S.Trace as t:
        _v(t.msg, '%s:%s' % (t.region, sampler))
    # multiset of members of the drawn groups, with the drawn multiplicity
    exp_r = S.members(side['rgroup'], rdm_idx) if rdm_idx is not None else list(range(side['n_rdm']))
    exp_c = S.members(side['pgroup'], pattern_idx) if pattern_idx is not None \
        else list(range(side['n_cond']))
    if S.multiset(rid) != S.multiset(exp_r):
        _v('sample contains RDMs %s (positions in the source); drawn groups %s have members %s'
           % (sorted(rid), rdm_idx, sorted(exp_r)), 'members:rdm:' + sampler)
    if S.multiset(cid) != S.multiset(exp_c):
        _v('sample contains conditions %s (positions in the source); drawn groups %s have members %s'
           % (sorted(cid), pattern_idx, sorted(exp_c)), 'members:pattern:' + sampler)
    # order agreement with index-based resampling of a model prediction
    if pattern_idx is not None:
        by = S.desc_name(spec, 'pat')
        model = RDMs(np.arange(1, ref.n_pairs(side['n_cond']) + 1, dtype=float)[None, :],
                     pattern_descriptors={k: list(v) for k, v in side['pat_desc'].items()})
        pred = lib(model.subsample_pattern, by, out[-1], on_error='violation',
                   sig='raises:model.subsample_pattern')
        pc = [int(x) - S.CID0 for x in pred.pattern_descriptors['_cid']]
        if by == 'index' and S.group_values(spec, 'pat') == list(range(side['n_cond'])):
            # a fixed model built on an RDMs object that an earlier subset left with other 'index'
            # labels numbers its conditions by position (documented behaviour of ModelFixed since
            # ever): its prediction is resampled with the positions the data sample reports
            from rsatoolbox.model import ModelFixed
            weird = RDMs(np.arange(1, ref.n_pairs(side['n_cond']) + 1, dtype=float)[None, :],
                         pattern_descriptors={'_cid': list(side['pat_desc']['_cid']),
                                              'index': [3 * j + 2 for j in range(side['n_cond'])]})
            mp = lib(lambda: ModelFixed('m', weird).predict_rdm().subsample_pattern('index', out[-1]),
                     on_error='violation', sig='raises:ModelFixed.predict_rdm.subsample_pattern')
            mc = [int(x) - S.CID0 for x in mp.pattern_descriptors['_cid']]
            if mc != cid:
                _v('prediction of a ModelFixed built on an object with index labels %s, resampled with '
                   'the returned pattern_idx: conditions %s, the sample holds %s' % (
                       [3 * j + 2 for j in range(side['n_cond'])], mc, cid),
                   'order:fixed-model-prediction:' + sampler)
        if pc != cid:
            _v('conditions of the sample %s differ in order from model.subsample_pattern(%r, '
               'pattern_idx) %s' % (cid, by, pc), 'order:prediction:' + sampler)
        # the same resampling of model predictions held as integer or boolean vectors
        # (categorical model RDMs): source value per pair, NaN exactly between two copies
        n_c = side['n_cond']
        prs = ref.pairs(n_c)
        for dt, vals in (('int', [i + 3 * j for (i, j) in prs]),
                         ('bool', [(i + j) % 2 == 1 for (i, j) in prs])):
            if not prs:
                continue
            arr = np.array([vals], dtype=np.int64 if dt == 'int' else bool)
            mod = RDMs(arr, pattern_descriptors={k: list(v) for k, v in side['pat_desc'].items()})
            pr = lib(mod.subsample_pattern, by, out[-1], on_error='violation',
                     sig='raises:model.subsample_pattern:' + dt)
            got = np.asarray(pr.get_vectors(), dtype=float)[0]
            ids = [int(x) - S.CID0 for x in pr.pattern_descriptors['_cid']]
            sq = ref.to_square(np.array(vals, dtype=float), n_c)
            for k, (a, b) in enumerate(ref.pairs(len(ids))):
                want = float('nan') if ids[a] == ids[b] else float(sq[ids[a], ids[b]])
                if not core.close(got[k], want, rtol=0, atol=0):
                    _v('%s-typed model prediction resampled with the returned indices: pair of '
                       'conditions (%d, %d) is %r, expected %r' % (dt, ids[a], ids[b], float(got[k]),
                                                                   want),
                       'prediction-value:%s:%s' % (dt, sampler))
    else:
        if cid != list(range(side['n_cond'])):
            _v('RDM-only sample has conditions %s, source order is 0..%d' % (cid, side['n_cond'] - 1),
               'order:rdm-sampler')
    # the source itself is what the sample is compared with: it must still be what was built
    if not np.array_equal(np.asarray(source.dissimilarities), side['vecs'], equal_nan=True):
        _v('%s changed the dissimilarities of its input' % fn.__name__, 'source-mutated:' + sampler)
    try:
        S.trace(source, side, 'source after the call')
    except S.Trace as t:
        _v(t.msg, 'source-mutated:' + sampler)
    return rdm_idx, pattern_idx


def call_sampler(spec, sampler, draws, fallback_seed=0):
    fn, dims = SAMPLERS[sampler]
    source, side = S.build(spec, RDMs)
    if (spec['n_rdm'] + spec['n_cond']) % 2 == 0:
        # "equals the source dissimilarity" means the source as it is when the sample is drawn:
        # look at the square form first, then put the values in place through the public array
        # (a deterministic half of the cases; a form computed earlier must not be served again)
        final = np.array(source.dissimilarities, dtype=float)
        source.dissimilarities[...] = np.where(np.isnan(final), final, final + 1.0)
        source.get_matrices()
        source.get_vectors()
        # (an earlier resample of the same object with the earlier values, too)
        lib(source.subsample_pattern, 'index', list(source.pattern_descriptors['index'])[:2],
            on_error='reject')
        lib(source.subsample, 'index', list(source.rdm_descriptors['index'])[:1], on_error='reject')
        source.dissimilarities[...] = final
    kw = S.kwargs_for(spec, dims)
    with rng.Injected(draws, fallback_seed) as rec:
        out = lib(fn, source, on_error='violation', sig='raises:' + fn.__name__, **kw)
    if rec.used == 0 and rec.fallback == 0:
        raise Reject('no injected draw consumed', 'injection-bypassed')
    return source, side, out, rec


# ---- sub-checks 1-3: injected draws -----------------------------------------------

def injected_case(sampler):
    @st.composite
    def strat(draw):
        spec = draw(S.stack())
        # outcomes: a full list of generated draws; skewed towards repeats
        style = draw(st.sampled_from(['free', 'free', 'free', 'few', 'constant']))
        n = spec['n_rdm'] + spec['n_cond']
        if style == 'free':
            draws = draw(st.lists(st.integers(0, 63), min_size=n, max_size=n))
        elif style == 'few':
            pool = draw(st.lists(st.integers(0, 7), min_size=1, max_size=2))
            draws = draw(st.lists(st.sampled_from(pool), min_size=n, max_size=n))
        else:
            draws = [draw(st.integers(0, 7))] * n
        return dict(sampler=sampler, stack=spec, draws=draws, fallback_seed=draw(st.integers(0, 999)))
    return strat()


def check_injected(case):
    spec, sampler = case['stack'], case['sampler']
    source, side, out, rec = call_sampler(spec, sampler, case['draws'], case['fallback_seed'])
    check_sample(spec, side, sampler, out, source)
    # the sample is the caller's: putting it into another order in place must not reach the data
    # the next sample is drawn from (a deterministic third of the cases)
    sample = out[0]
    if (spec['n_rdm'] + 2 * spec['n_cond']) % 3 == 0 and sample.n_cond >= 2:
        lib(sample.reorder, np.arange(sample.n_cond - 1, -1, -1), on_error='reject')
        try:
            S.trace(source, side, 'source after the sample was reordered in place')
        except S.Trace as t:
            _v(t.msg, 'source-follows-sample:' + sampler)
        if not np.array_equal(np.asarray(source.dissimilarities), side['vecs'], equal_nan=True):
            _v('reordering the sample in place changed the dissimilarities of the source',
               'source-follows-sample:' + sampler)


def _canonical_selection(case):
    """what the draws select if draw d picks the (d mod G)-th sorted group (classification only)"""
    spec = case['stack']
    pos = 0
    sel = {}
    for dim in SAMPLERS[case['sampler']][1]:
        groups = spec[dim]['values']
        distinct = S.distinct_sorted(groups)
        g = len(distinct)
        d = (list(case['draws']) + [0] * g)[pos:pos + g]
        pos += g
        sel[dim] = [distinct[x % g] for x in d]
    return sel


def classify_injected(case):
    spec = case['stack']
    labels = ['sampler:' + case['sampler']]
    nt_rep = nt_grp = False
    sel = _canonical_selection(case)
    for dim in SAMPLERS[case['sampler']][1]:
        g = spec[dim]
        vals = g['values']
        distinct = S.distinct_sorted(vals)
        labels.append('%s:by=%s' % (dim, g['by']))
        if g['by'] != 'default':
            labels.append('%s:%s/%s' % (dim, g['kind'], g['container']))
            labels.append('%s:%s' % (dim, 'repeated' if len(distinct) < len(vals) else 'unique'))
            if vals != sorted(vals):
                labels.append(dim + ':unsorted')
        if len(distinct) == 1:
            labels.append(dim + ':one-group')
        cnt = {}
        for v in sel[dim]:
            cnt[v] = cnt.get(v, 0) + 1
        if cnt and max(cnt.values()) >= 2:
            nt_rep = True
            labels.append(dim + ':group-drawn-twice')
        if any(sum(1 for x in vals if x == v) >= 2 for v in cnt):
            nt_grp = True
            labels.append(dim + ':multi-member-group-drawn')
        if len(cnt) == 1 and len(distinct) > 1:
            labels.append(dim + ':all-draws-equal')
    if spec['nans']:
        labels.append('source-nan')
    return labels, nt_rep and nt_grp


# ---- sub-check 4/5: complete outcome space for <= 3 groups -----------------------

def _assignments(n, g):
    """all surjective maps of n items onto g group slots"""
    return [a for a in itertools.product(range(g), repeat=n) if len(set(a)) == g]


LABELS3 = {'int': [7, -2, 10], 'str': ['b9', 'b10', 'a']}   # appearance order != sorted order


def _enum_spec(ra, pa, kind_r, kind_p):
    r, c = len(ra), len(pa)
    p = ref.n_pairs(c)
    return dict(
        n_rdm=r, n_cond=c, vals=[[((i * 7 + k * 3) % 17) / 8.0 for k in range(p)] for i in range(r)],
        nans=[],
        rdm=dict(by='grp', kind=kind_r, container='array' if kind_r == 'int' else 'list',
                 values=[LABELS3[kind_r][a] for a in ra]),
        pat=dict(by='grp', kind=kind_p, container='list' if kind_p == 'int' else 'array',
                 values=[LABELS3[kind_p][a] for a in pa]),
        rother=['s1', 's2', 's1', 'x'][:r], pother=['x', 's1', 's1', 's2'][:c])


def enumerate_single(tier, seed):
    fixed_r = (0, 1, 0)
    fixed_p = (1, 0, 1)
    for n in range(1, 5):
        for g in range(1, min(n, 3) + 1):
            for a in _assignments(n, g):
                kind = 'int' if (sum(a) + n) % 2 == 0 else 'str'
                yield dict(sampler='rdm', stack=_enum_spec(a, fixed_p, kind, 'int'))
                if n >= 2:
                    yield dict(sampler='pattern', stack=_enum_spec(fixed_r, a, 'str', kind))


def enumerate_both(tier, seed):
    structs = []
    for n in range(1, 4):
        for g in range(1, n + 1):
            structs += _assignments(n, g)
    for ra in structs:
        for pa in structs:
            if len(pa) < 2:
                continue
            yield dict(sampler='both', stack=_enum_spec(ra, pa, 'int', 'str'))


def check_all_outcomes(case):
    spec, sampler = case['stack'], case['sampler']
    fn, dims = SAMPLERS[sampler]
    sizes = [len(S.distinct_sorted(spec[d]['values'])) for d in dims]
    spaces = [list(itertools.product(range(g), repeat=g)) for g in sizes]
    seen = {}
    n_out = 0
    for combo in itertools.product(*spaces):
        draws = [x for part in combo for x in part]
        source, side, out, rec = call_sampler(spec, sampler, draws, 0)
        if rec.fallback:
            raise Reject('sampler consumed more draws than one per group', 'injection-exhausted')
        ri, pi = check_sample(spec, side, sampler, out, source)
        key = (tuple(ri) if ri is not None else None, tuple(pi) if pi is not None else None)
        n_out += 1
        if key in seen:
            _v('outcomes %s and %s of the draws select the same groups %s: selection is not '
               'uniform over groups' % (seen[key], draws, key), 'outcome-map:' + sampler)
        seen[key] = draws
    expected = 1
    for g in sizes:
        expected *= g ** g
    require(n_out == expected and len(seen) == expected,
            'enumerated %d outcomes, %d distinct selections, expected %d' % (n_out, len(seen), expected),
            'outcome-map:' + sampler)


def classify_all_outcomes(case):
    spec = case['stack']
    dims = SAMPLERS[case['sampler']][1]
    sizes = [len(S.distinct_sorted(spec[d]['values'])) for d in dims]
    multi = any(len(spec[d]['values']) > len(set(spec[d]['values'])) for d in dims)
    return (['sampler:' + case['sampler'], 'groups:' + 'x'.join(str(s) for s in sizes)],
            max(sizes) >= 2 and multi)


# ---- sub-check 6: uniformity (real generator, seeded from the case) ---------------

@st.composite
def uniform_case(draw):
    sampler = draw(st.sampled_from(['both', 'rdm', 'pattern']))
    spec = draw(S.stack(n_rdm=(2, 6), n_cond=(2, 8), allow_nan=False))
    return dict(sampler=sampler, stack=spec, seed=draw(st.integers(0, 2 ** 31 - 1)))


def check_uniform(case):
    spec, sampler = case['stack'], case['sampler']
    fn, dims = SAMPLERS[sampler]
    source, side = S.build(spec, RDMs)
    kw = S.kwargs_for(spec, dims)
    groups = {'rdm': S.distinct_sorted(side['rgroup']), 'pat': S.distinct_sorted(side['pgroup'])}
    counts = {d: {g: 0 for g in groups[d]} for d in dims}
    with rng.Seeded(case['seed']):
        for _ in range(N_UNIFORM):
            out = lib(fn, source, on_error='violation', sig='raises:' + fn.__name__, **kw)
            for pos, d in enumerate(dims):
                for v in out[1 + pos]:
                    v = S._plain(v)
                    if v not in counts[d]:
                        _v('%s drew %r which is not a group value' % (fn.__name__, v),
                           'index-value:' + ('rdm' if d == 'rdm' else 'pattern'))
                    counts[d][v] += 1
    for d in dims:
        g = len(groups[d])
        total = sum(counts[d].values())
        require(total == N_UNIFORM * g, '%s: %d selections in %d draws, expected %d per draw'
                % (d, total, N_UNIFORM, g), 'n-drawn:' + ('rdm' if d == 'rdm' else 'pattern'))
        sd = math.sqrt(N_UNIFORM * (1.0 - 1.0 / g))
        for v, c in counts[d].items():
            if abs(c - N_UNIFORM) > SIGMA * sd:
                _v('%s group %r selected %d times in %d draws of %d groups; expected %d +- %.1f '
                   '(6 sigma = %.1f)' % (d, v, c, N_UNIFORM, g, N_UNIFORM, sd, SIGMA * sd),
                   'uniformity:' + ('rdm' if d == 'rdm' else 'pattern'))


def classify_uniform(case):
    spec = case['stack']
    dims = SAMPLERS[case['sampler']][1]
    sizes = [len(S.distinct_sorted(spec[d]['values'])) for d in dims]
    labels = ['sampler:' + case['sampler']] + ['%s:groups=%d' % (d, s) for d, s in zip(dims, sizes)]
    return labels, max(sizes) >= 2


# ---- sub-check: the draws stay random when models are fitted in between -----------------------------

@st.composite
def after_fit_case(draw):
    return dict(seeds=draw(st.lists(st.integers(0, 2 ** 31 - 1), min_size=4, max_size=4, unique=True)),
                n_rdm=draw(st.integers(8, 12)), sampler=draw(st.sampled_from(['rdm', 'pattern', 'both'])))


def check_after_fit(case):
    """bootstrap -> fit a weighted model with its default fitter -> bootstrap, the usual loop of the
    cross-validated evaluations.  The draw after the fit comes from the same global stream: started
    from four different seeds, the four draws are not all the same (chance of a coincidence below
    1e-20); a fit that re-seeds or rewinds the generator makes them identical"""
    from rsatoolbox.model import ModelWeighted
    n_rdm, n_cond = case['n_rdm'], 8
    P = ref.n_pairs(n_cond)
    base = np.arange(1, P + 1, dtype=float)
    data = RDMs(np.array([base * (1 + 0.01 * r) + ((7 * r + np.arange(P)) % 5) for r in range(n_rdm)]))
    model = ModelWeighted('w', np.array([base, (3 * np.arange(P)) % 11 + 1.0]))
    fn, dims = SAMPLERS[case['sampler']]
    seen = []
    for sd in case['seeds']:
        np.random.seed(sd)
        with core.watchdog(30):
            lib(model.fit, data, on_error='reject')
        out = lib(fn, data, on_error='violation', sig='raises:' + fn.__name__)
        seen.append(tuple(tuple(int(v) for v in np.asarray(o).ravel()) for o in out[1:]))
    require(len(set(seen)) > 1, 'the %s draw taken right after fitting a weighted model is the same for '
            'the seeds %s: %s' % (case['sampler'], case['seeds'], seen[0]), 'draw-after-fit:not-random')


def classify_after_fit(case):
    return ['sampler:' + case['sampler'], 'n_rdm=%d' % case['n_rdm']], True


# ---- sub-check: boolean group labels (patient / control, left / right) -------------------------

def _boolify(g, flip):
    """the same grouping with its labels replaced by True / False (<= 2 groups; members of one
    group stay together, appearance order generated through `flip`)"""
    distinct = S.distinct_sorted(g['values'])
    rank = {v: i for i, v in enumerate(distinct)}
    return dict(by='grp', kind='bool', container=g['container'],
                values=[bool((rank[v] + flip) % 2) for v in g['values']], as_none=False)


@st.composite
def bool_case(draw):
    sampler = draw(st.sampled_from(['rdm', 'rdm', 'both', 'both', 'pattern']))
    spec = dict(draw(S.stack(n_rdm=(2, 6))))
    draws = draw(st.lists(st.integers(0, 63), min_size=4, max_size=4))
    which = {'rdm': ['rdm'], 'pattern': ['pat'],
             'both': draw(st.sampled_from([['rdm'], ['rdm', 'pat'], ['pat']]))}[sampler]
    for dim in which:
        spec[dim] = _boolify(spec[dim], draw(st.integers(0, 1)))
    # 'both' draws one outcome per group of either dimension: pad for the dimension left as generated
    draws = draws + draw(st.lists(st.integers(0, 63), min_size=spec['n_rdm'] + spec['n_cond'],
                                  max_size=spec['n_rdm'] + spec['n_cond']))
    return dict(sampler=sampler, stack=spec, draws=draws, fallback_seed=draw(st.integers(0, 999)))


def classify_bool(case):
    labels, nt = classify_injected(case)
    return labels, nt


SUBCHECKS = [
    SubCheck('sample_both', injected_case('both'), check_injected, classify_injected, quick=600,
             doc='bootstrap_sample with injected draws: members, descriptors, entries, NaN placement, '
                 'order vs model.subsample_pattern'),
    SubCheck('sample_rdm', injected_case('rdm'), check_injected, classify_injected, quick=500,
             doc='bootstrap_sample_rdm with injected draws'),
    SubCheck('sample_pattern', injected_case('pattern'), check_injected, classify_injected, quick=500,
             doc='bootstrap_sample_pattern with injected draws'),
    Enumeration('outcomes_single', enumerate_single, check_all_outcomes, classify_all_outcomes,
                doc='all group structures of <=4 items in <=3 groups x all G^G outcomes of the '
                    'draws (rdm-only and pattern-only samplers); outcome -> selection is a bijection',
                tiers=('quick', 'thorough')),
    Enumeration('outcomes_both', enumerate_both, check_all_outcomes, classify_all_outcomes,
                doc='all pairs of group structures of <=3 RDMs and 2-3 conditions x all outcomes '
                    '(up to 27 x 27) of bootstrap_sample', tiers=('thorough',)),
    SubCheck('uniformity', uniform_case(), check_uniform, classify_uniform, quick=12, thorough=200,
             doc='real numpy generator seeded from the case, 4000 draws, per-group selection '
                 'count within 6 sigma of 4000'),
    SubCheck('draw_after_fit', after_fit_case(), check_after_fit, classify_after_fit, quick=6, thorough=40,
             doc='bootstrap draw right after fitting a weighted model with its default fitter, from four '
                 'different seeds: the draws are not all identical'),
    SubCheck('sample_bool', bool_case(), check_injected, classify_bool, quick=150, thorough=600,
             doc='the three samplers with boolean group labels (python bools in a list or a bool '
                 'ndarray) in the RDM and/or condition dimension, injected draws; same oracle'),
]
