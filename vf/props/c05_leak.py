"""C05 part B: test data never influence fitting, training data never influence the score
(metamorphic non-dependence, bit-exact).  Helpers for c05.py."""
import copy

import numpy as np
from hypothesis import strategies as st

from vf import core, ref, rng
from vf.core import Violation, Reject, lib, require
from vf.props import c09_stack as S
from vf.props import c05_sets as A

from rsatoolbox.rdm import RDMs
from rsatoolbox.model import ModelFixed, ModelSelect, ModelWeighted, ModelInterpolate
from rsatoolbox.model import fitter as F
from rsatoolbox.inference.evaluate import crossval
import rsatoolbox.inference.evaluate as EV
from rsatoolbox.inference.bootstrap import bootstrap_sample

MODEL_TYPES = {
    'fixed': (ModelFixed, ['default']),
    'select': (ModelSelect, ['default']),
    'weighted': (ModelWeighted, ['regress', 'regress_nn', 'regress', 'optimize']),
    'interp': (ModelInterpolate, ['default']),
}
FITTERS = {'regress': F.fit_regress, 'regress_nn': F.fit_regress_nn, 'optimize': F.fit_optimize,
           'default': None}
METHODS_ANY = ['cosine', 'corr', 'spearman']
METHODS_LIN = ['cosine', 'corr']


FAMILIES = {'rdm': ['k_fold_rdm', 'loo_rdm', 'of_k_rdm'],
            'pattern': ['k_fold_pattern', 'loo_pattern', 'of_k_pattern'],
            'both': ['k_fold', 'random'],
            'boot': ['k_fold']}


def _v(msg, sig):
    raise Violation(msg, sig)


# ---- case generation ----------------------------------------------------------------

@st.composite
def model_spec(draw, n_cond):
    typ = draw(st.sampled_from(['weighted', 'weighted', 'interp', 'select', 'fixed']))
    n = 1 if typ == 'fixed' else draw(st.integers(2, 3))
    p = ref.n_pairs(n_cond)
    vals = draw(st.lists(st.lists(st.integers(1, 64).map(lambda k: k / 8.0), min_size=p, max_size=p),
                         min_size=n, max_size=n))
    fit = draw(st.sampled_from(MODEL_TYPES[typ][1]))
    return dict(type=typ, vals=vals, fitter=fit)


@st.composite
def pattern_side(draw, style):
    """condition grouping whose folds stay evaluable (crossval skips folds with <= 2 conditions):
    'blocks' 2-3 groups of 3-4 conditions; 'unique' 6-10 single conditions;
    'boot' 7-10 groups of 1-2 conditions (a bootstrap sample of them keeps >= 6 groups)"""
    if style == 'blocks':
        sizes = draw(st.lists(st.integers(3, 4), min_size=2, max_size=3))
    elif style == 'unique':
        sizes = [1] * draw(st.integers(6, 10))
    else:
        g = draw(st.integers(7, 10))
        sizes = [1] * g
        if draw(st.booleans()):
            sizes[draw(st.integers(0, g - 1))] = 2
    g = len(sizes)
    # no overridden 'index' here: ModelFixed resets 'index' on its own RDM to 0..n-1, so a model
    # cannot carry a non-default 'index' grouping (precondition of crossval, not a C05 matter)
    by = draw(st.sampled_from(['grp', 'grp', 'default'] if max(sizes) == 1 else ['grp']))
    n = sum(sizes)
    if by == 'default':
        return dict(by='default', kind='int', container='list', values=list(range(n)))
    kind = 'int' if by == 'index' else draw(st.sampled_from(['int', 'str']))
    from vf import gen
    _, labs = draw(gen.label_set(g, kinds=(kind,)))
    vals = []
    for lab, k in zip(labs, sizes):
        vals += [lab] * k
    perm = draw(gen.permutation(n))
    return dict(by=by, kind=kind, container=draw(gen.container), values=[vals[i] for i in perm])


@st.composite
def leak_case(draw, mode='both'):
    gen_name = draw(st.sampled_from(FAMILIES[mode]))
    dims = A.GENS[gen_name][1]
    one_rdm = draw(st.integers(0, 4)) == 4
    one_pat = draw(st.integers(0, 4)) == 4
    if gen_name != 'k_fold' and gen_name != 'random':
        one_rdm = one_pat = False        # single-dimension generators: always cross-validate
    elif one_rdm and one_pat:
        one_pat = False
    a_rdm, a_pat = draw(st.integers(0, 9)), draw(st.integers(0, 9))
    none_pat = draw(st.integers(0, 5)) == 5
    if mode == 'boot':
        pat = draw(pattern_side('boot'))
    elif 'pat' in dims:
        style = 'blocks' if gen_name == 'loo_pattern' else draw(st.sampled_from(['blocks', 'unique']))
        pat = draw(pattern_side(style))
        if style == 'unique':
            n = len(pat['values'])
            if gen_name in ('k_fold', 'k_fold_pattern'):
                a_pat = draw(st.integers(0, 1)) if n >= 9 else 0      # k = 2 (or 3)
            else:
                a_pat = 2                                             # 3 conditions per test fold
                none_pat = False if gen_name == 'of_k_pattern' else none_pat
    else:
        n = draw(st.integers(4, 8))
        pat = dict(by='default', kind='int', container='list', values=list(range(n)))
    c = len(pat['values'])
    r = draw(st.integers(3, 6)) if mode == 'boot' else draw(st.integers(2, 6))
    p = ref.n_pairs(c)
    spec = dict(
        n_rdm=r, n_cond=c, numeric=True, nans=[],
        vals=draw(st.lists(st.lists(st.integers(0, 64).map(lambda k: k / 8.0), min_size=p, max_size=p),
                           min_size=r, max_size=r)),
        rdm=draw(S.grouping(r, min_groups=2)), pat=pat,
        rother=draw(st.lists(st.sampled_from(S.OTHER_POOL), min_size=r, max_size=r)),
        pother=draw(st.lists(st.sampled_from(S.OTHER_POOL), min_size=c, max_size=c)))
    params = dict(a_rdm=a_rdm, a_pat=a_pat, none_rdm=draw(st.integers(0, 5)) == 5, none_pat=none_pat,
                  one_rdm=one_rdm, one_pat=one_pat, random=draw(st.booleans()),
                  n_cv=draw(st.integers(1, 2)), explicit_names=draw(st.booleans()))
    draws = draw(st.lists(st.integers(0, 63), min_size=0, max_size=60))
    if mode == 'boot':
        # bootstrap outcome by construction: >= 2 distinct RDM groups, >= 6 distinct condition groups
        g_r = len(set(spec['rdm']['values']))
        g_p = len(set(pat['values']))
        d_r = [0, 1] + draw(st.lists(st.integers(0, 7), min_size=g_r - 2, max_size=g_r - 2))
        d_p = list(range(g_p))
        for _ in range(draw(st.integers(1, g_p - 6))):
            i, j = draw(st.integers(0, g_p - 1)), draw(st.integers(0, g_p - 1))
            if len(set(d_p[:i] + [d_p[j]] + d_p[i + 1:])) >= 6:
                d_p[i] = d_p[j]
        d_p = [d_p[i] for i in draw(st.permutations(list(range(g_p))))]
        draws = d_r + d_p + draws
    n_models = draw(st.integers(1, 2))
    models = [draw(model_spec(c)) for _ in range(n_models)]
    lin = any(m['fitter'] in ('regress', 'regress_nn') for m in models)
    method = draw(st.sampled_from(METHODS_LIN if lin else METHODS_ANY))
    return dict(mode=mode, gen=gen_name, stack=spec, params=params, draws=draws,
                fallback_seed=draw(st.integers(0, 999)), seed=draw(st.integers(0, 9999)),
                models=models, method=method, fold=draw(st.integers(0, 11)),
                pert=dict(mask=draw(st.lists(st.booleans(), min_size=1, max_size=8)),
                          factors=draw(st.lists(st.integers(1, 12), min_size=1, max_size=5))))


# ---- building ------------------------------------------------------------------------

def make_models(case, pat_desc):
    out = []
    for i, m in enumerate(case['models']):
        cls = MODEL_TYPES[m['type']][0]
        vals = np.array(m['vals'], dtype=float)
        # rows made linearly independent by construction (fit_regress solves with their Gram matrix)
        for a in range(vals.shape[0]):
            for b in range(vals.shape[1]):
                vals[a, b] += ((a + 1) * (b + 1)) % 7
        rd = RDMs(vals,
                  pattern_descriptors={k: list(v) for k, v in pat_desc.items()})
        out.append(cls('m%d' % i, rd))
    return out


class Recorder:
    """wraps the fitters: records every theta in call order, or replays recorded thetas"""

    def __init__(self, case, models, replay=None):
        self.calls = []
        self.replay = replay
        self.fitters = [self._make(j, m, case['models'][j]['fitter']) for j, m in enumerate(models)]

    def _make(self, j, model, name):
        real = FITTERS[name] or model.default_fitter

        def fit(mod, data, method='cosine', pattern_idx=None, pattern_descriptor=None, **kw):
            n = len(self.calls)
            if self.replay is not None:
                if n >= len(self.replay):
                    raise Reject('more fitter calls than recorded', 'harness:call-count')
                theta = copy.deepcopy(self.replay[n][2])
            else:
                theta = real(mod, data, method=method, pattern_idx=pattern_idx,
                             pattern_descriptor=pattern_descriptor, **kw)
            self.calls.append((j, np.array(theta, copy=True), copy.deepcopy(theta)))
            return theta
        return fit


def skipped(train, test):
    return (train[0].n_rdm == 0 or test[0].n_rdm == 0 or train[0].n_cond <= 2
            or test[0].n_cond <= 2)


def positions(obj, rkey, ckey, r0, c0):
    rid = [int(S._plain(x)) - r0 for x in obj.rdm_descriptors[rkey]]
    cid = [int(S._plain(x)) - c0 for x in obj.pattern_descriptors[ckey]]
    return rid, cid


def entries_of(rids, cids, n_cond):
    """set of (r, k) source entries contained in an object with these RDMs and conditions"""
    pair_index = {p: k for k, p in enumerate(ref.pairs(n_cond))}
    out = set()
    cs = sorted(set(cids))
    for r in set(rids):
        for x in range(len(cs)):
            for y in range(x + 1, len(cs)):
                out.add((r, pair_index[(cs[x], cs[y])]))
    return out


def perturb(vecs, entries, pert):
    """multiply the selected entries by 1 + f/4 (positive data stay positive and change)"""
    v = vecs.copy()
    mask, fac = pert['mask'], pert['factors']
    n = 0
    for idx, (r, k) in enumerate(sorted(entries)):
        if np.isnan(v[r, k]):
            continue
        if n == 0 or mask[idx % len(mask)]:
            v[r, k] = v[r, k] * (1.0 + fac[idx % len(fac)] / 4.0)
            n += 1
    return v, n


def same_theta(a, b):
    a, b = np.asarray(a), np.asarray(b)
    return a.shape == b.shape and np.array_equal(a, b, equal_nan=(a.dtype.kind == 'f'))


# ---- plain mode: public set generators + crossval ------------------------------------------

def run_plain(case, side, vecs, replay=None):
    spec = case['stack']
    fn, dims, _ = A.GENS[case['gen']]
    s2 = dict(side, vecs=vecs)
    source = rebuild(spec, s2)
    kw, req = A.resolve(case, side)
    with rng.Injected(case['draws'], case['fallback_seed']):
        train_set, test_set, ceil_set = lib(fn, source, **kw)
    models = make_models(case, side['pat_desc'])
    rec = Recorder(case, models, replay)
    pd = S.desc_name(spec, 'pat') if 'pat' in dims else 'index'
    with rng.Seeded(case['seed']):
        res = lib(crossval, models, source, train_set, test_set, method=case['method'],
                  fitter=list(rec.fitters), pattern_descriptor=pd, calc_noise_ceil=False)
    folds = []
    for tr, te in zip(train_set, test_set):
        folds.append(dict(train=positions(tr[0], '_rid', '_cid', S.RID0, S.CID0),
                          test=positions(te[0], '_rid', '_cid', S.RID0, S.CID0),
                          skipped=skipped(tr, te)))
    return folds, rec.calls, np.array(res.evaluations, copy=True)


def rebuild(spec, side):
    from vf import gen
    rd = {k: list(v) for k, v in side['rdm_desc'].items() if k != 'index'}
    pd = {k: list(v) for k, v in side['pat_desc'].items() if k != 'index'}
    for dim, d in (('rdm', rd), ('pat', pd)):
        g = spec[dim]
        if g['by'] != 'default':
            d[S.desc_name(spec, dim)] = gen.as_desc(list(g['values']), g['container'])
    return RDMs(side['vecs'].copy(), dissimilarity_measure='test', descriptors={'subj': 'a'},
                rdm_descriptors=rd, pattern_descriptors=pd)


# ---- boot mode: bootstrap sample + _internal_cv (fold ids expanded by _concat_sampling) ------

def boot_setup(case, side):
    """draw the bootstrap sample once (injected draws); returns its description"""
    spec = case['stack']
    source = rebuild(spec, side)
    kw = S.kwargs_for(spec, ('rdm', 'pat'))
    g_r = len(S.distinct_sorted(side['rgroup']))
    g_p = len(S.distinct_sorted(side['pgroup']))
    with rng.Injected(case['draws'][:g_r + g_p], case['fallback_seed']):
        sample, rdm_idx, pattern_idx = lib(bootstrap_sample, source, **kw)
    return dict(vecs=np.array(sample.dissimilarities, copy=True),
                rdm_desc={k: list(v) for k, v in sample.rdm_descriptors.items()},
                pat_desc={k: list(v) for k, v in sample.pattern_descriptors.items()},
                rdm_idx=rdm_idx, pattern_idx=pattern_idx, n_cond=sample.n_cond, n_rdm=sample.n_rdm,
                used=g_r + g_p)


def boot_ks(case, bs):
    p = case['params']
    u_r = len(set(S._plain(x) for x in bs['rdm_idx']))
    u_p = len(set(S._plain(x) for x in bs['pattern_idx']))
    k_rdm = 1 if (p['one_rdm'] or u_r < 2) else 2 + (p['a_rdm'] % 2 if u_r >= 3 else 0)
    k_pat = 1 if (p['one_pat'] or u_p < 6) else 2
    if k_rdm == 1 and k_pat == 1:
        if u_p >= 6:
            k_pat = 2
        elif u_r >= 2:
            k_rdm = 2
    # bootstrap_crossval only runs _internal_cv when these hold
    if not (u_r >= k_rdm and u_p >= 3 * k_pat):
        raise Reject('sample too small for the requested folds', 'harness:precondition')
    return k_rdm, k_pat


def run_boot(case, side, bs, vecs, replay=None):
    spec = case['stack']
    rd = dict(bs['rdm_desc'])
    pd = dict(bs['pat_desc'])
    rd['_rpos'] = list(range(bs['n_rdm']))
    pd['_cpos'] = list(range(bs['n_cond']))
    sample = RDMs(vecs.copy(), dissimilarity_measure='test', descriptors={'subj': 'a'},
                  rdm_descriptors={k: list(v) for k, v in rd.items()},
                  pattern_descriptors={k: list(v) for k, v in pd.items()})
    models = make_models(case, side['pat_desc'])
    rec = Recorder(case, models, replay)
    k_rdm, k_pat = boot_ks(case, bs)
    captured = {}
    real_sets = EV.sets_k_fold

    def capture(*a, **k):
        out = real_sets(*a, **k)
        captured['train'] = [(t[0], list(t[1])) for t in out[0]]
        captured['test'] = [(t[0], list(t[1])) for t in out[1]]
        return out
    EV.sets_k_fold = capture
    try:
        with rng.Injected(case['draws'][bs['used']:], case['fallback_seed']):
            evals, nc = lib(EV._internal_cv, models, sample, S.desc_name(spec, 'pat'),
                            S.desc_name(spec, 'rdm'), bs['pattern_idx'], k_pat, k_rdm,
                            case['method'], list(rec.fitters))
    finally:
        EV.sets_k_fold = real_sets
    if 'train' not in captured:
        raise Reject('sets_k_fold not called', 'harness:capture')
    folds = []
    rgrp = [S._plain(x) for x in rd[S.desc_name(spec, 'rdm')]]
    pgrp = [S._plain(x) for x in pd[S.desc_name(spec, 'pat')]]
    for f, (tr, te) in enumerate(zip(captured['train'], captured['test'])):
        fold = dict(train=positions(tr[0], '_rpos', '_cpos', 0, 0),
                    test=positions(te[0], '_rpos', '_cpos', 0, 0), skipped=skipped(tr, te))
        folds.append(fold)
        # the partition predicates of part A on a real bootstrap sample: every copy of a group on
        # one side, test groups disjoint from training groups in each cross-validated dimension
        for dim, grp, k, i in (('rdm', rgrp, k_rdm, 0), ('pat', pgrp, k_pat, 1)):
            for side_name in ('train', 'test'):
                ids = fold[side_name][i]
                present = set(grp[x] for x in ids)
                full = sorted(x for x in range(len(grp)) if grp[x] in present)
                if sorted(ids) != full:
                    _v('bootstrap sample, fold %d: %s set holds %s positions %s but the groups %s '
                       'present in it occupy positions %s (copies of a group split)' % (
                           f, side_name, dim, sorted(ids), sorted(present), full),
                       'group-split:%s:boot' % dim)
            if k > 1:
                both = set(grp[x] for x in fold['train'][i]) & set(grp[x] for x in fold['test'][i])
                if both:
                    _v('bootstrap sample, fold %d: %s groups %s are in the training and in the '
                       'test set' % (f, dim, sorted(both)), 'overlap:%s:boot' % dim)
    return folds, rec.calls, np.array(evals, copy=True)


# ---- the metamorphic check --------------------------------------------------------------------

def check_leak(case):
    # fit_regress_nn's active-set loop can cycle forever on some inputs (a fitter matter, C08):
    # such a case is inconclusive here
    with core.watchdog(WATCHDOG_S):
        _check_leak(case)


WATCHDOG_S = 3      # a fit takes milliseconds; the NNLS non-termination (DESIGN 6.4) is cut off here


def _check_leak(case):
    spec = case['stack']
    side = S.side_table(spec)
    side['vecs'] = A.apply_copies(spec, side)
    if case['mode'] == 'boot':
        bs = boot_setup(case, side)
        base_vecs, n_cond = bs['vecs'], bs['n_cond']

        def run(vecs, replay=None):
            with rng.Seeded(case['seed']):
                return run_boot(case, side, bs, vecs, replay)
    else:
        base_vecs, n_cond = side['vecs'], side['n_cond']

        def run(vecs, replay=None):
            return run_plain(case, side, vecs, replay)
    tag = case['mode'] if case['mode'] == 'boot' else case['gen']
    folds, calls, evals = run(base_vecs)
    live = [i for i, f in enumerate(folds) if not f['skipped']]
    n_models = len(case['models'])
    if len(calls) != len(live) * n_models:
        raise Reject('%d fitter calls for %d evaluated folds x %d models' % (
            len(calls), len(live), n_models), 'harness:call-count')
    if not live:
        raise Reject('every fold has <= 2 conditions or no RDMs on one side', 'no-evaluable-fold')
    f = live[case['fold'] % len(live)]
    slot = live.index(f) * n_models
    tr_r, tr_c = folds[f]['train']
    te_r, te_c = folds[f]['test']
    # (1) alter everything that involves a test-only condition or a test-only RDM
    only_c = set(te_c) - set(tr_c)
    only_r = set(te_r) - set(tr_r)
    e1 = set()
    for k, (a, b) in enumerate(ref.pairs(n_cond)):
        touches = a in only_c or b in only_c
        for r in range(base_vecs.shape[0]):
            if touches or r in only_r:
                e1.add((r, k))
    v1, n1 = perturb(base_vecs, e1, case['pert'])
    if n1:
        folds1, calls1, evals1 = run(v1)
        if [(x['train'], x['test']) for x in folds1] != [(x['train'], x['test']) for x in folds]:
            raise Reject('folds changed although descriptors and shuffles are the same',
                         'harness:folds-changed')
        if len(calls1) != len(calls):
            raise Reject('number of fitter calls changed', 'harness:call-count')
        for j in range(n_models):
            t0, t1 = calls[slot + j][1], calls1[slot + j][1]
            if not same_theta(t0, t1):
                _v('fold %d, model %d (%s/%s, %s): parameters %s became %s after altering %d '
                   'dissimilarities that involve only test-only conditions %s / test-only RDMs %s'
                   % (f, j, case['models'][j]['type'], case['models'][j]['fitter'], case['method'],
                      np.asarray(t0).tolist(), np.asarray(t1).tolist(), n1, sorted(only_c),
                      sorted(only_r)), 'theta-depends-on-test:' + tag)
    # (2) thetas held fixed, alter training-only entries: the fold's score must not move
    e_train = entries_of(tr_r, tr_c, n_cond)
    e_test = entries_of(te_r, te_c, n_cond)
    e2 = e_train - e_test
    v2, n2 = perturb(base_vecs, e2, case['pert'])
    if n2:
        folds2, calls2, evals2 = run(v2, replay=calls)
        if [(x['train'], x['test']) for x in folds2] != [(x['train'], x['test']) for x in folds]:
            raise Reject('folds changed although descriptors and shuffles are the same',
                         'harness:folds-changed')
        s0 = np.asarray(evals)[0, :, f]
        s2 = np.asarray(evals2)[0, :, f]
        if not np.array_equal(s0, s2, equal_nan=True):
            _v('fold %d (%s): score %s became %s after altering %d training-only dissimilarities '
               'with the fitted parameters held fixed' % (f, case['method'], s0.tolist(), s2.tolist(),
                                                          n2), 'score-depends-on-train:' + tag)
    if not n1 and not n2:
        raise Reject('nothing to perturb', 'no-perturbation')


def classify_leak(case):
    spec = case['stack']
    labels = ['mode:' + case['mode'], 'gen:' + case['gen'], 'method:' + case['method']]
    for m in case['models']:
        labels.append('model:%s/%s' % (m['type'], m['fitter']))
    if spec.get('copies'):
        labels.append('bootstrap-copies')
    for dim in ('rdm', 'pat'):
        vals = spec[dim]['values']
        labels.append('%s:%s' % (dim, 'repeated' if len(set(vals)) < len(vals) else 'unique'))
    continuous = any(m['fitter'] in ('regress', 'regress_nn', 'optimize') or m['type'] == 'interp'
                     for m in case['models'])
    return labels, continuous
