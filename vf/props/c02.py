"""C02 - cross-validated distances are the mean of between-fold products only."""
import os
import sys

import numpy as np
from hypothesis import strategies as st

from vf import core, gen, ref
from vf.core import SubCheck, Violation, Reject, lib, require
from vf.props import c01_util as U

from rsatoolbox.data.dataset import Dataset
from rsatoolbox.rdm import calc_rdm
from rsatoolbox.rdm.calc import calc_rdm_crossnobis, calc_rdm_poisson_cv

THOROUGH = ('thorough' in sys.argv) or os.environ.get('VERIF_TIER') == 'thorough'
MAX_FOLDS = 8 if THOROUGH else 5

RULE = ("Hypothesis-generated fold-balanced designs: 2-5 conditions x M=2-5 folds (thorough: 8) x 1-3 "
        "repetitions per (condition, fold) (per-condition repetition counts may differ), 1-6 "
        "channels, rows permuted, int/str condition labels, int/str fold labels whose sorted order "
        "differs from appearance order, list/array descriptors, int/float data; explicit fold "
        "descriptor or the default one (k-th occurrence of a condition = fold k, 2-12 repetitions, "
        "including width-1 string labels with >= 10 repetitions); crossnobis with precision none / "
        "one SPD / one SPD per fold and remove_mean, poisson_cv with 6 prior settings; data modes "
        "free / only one fold carries condition differences / only two folds do. Oracle: fold-wise "
        "condition means -> mean over ordered pairs of distinct folds, looked up by label; closed "
        "forms for the two structured modes; second library call with channels permuted (precision "
        "alike), folds renamed (order-reversing bijection, per-fold precisions re-indexed) and "
        "rows reversed. Non-trivial: M >= 3 or >= 2 repetitions per fold or default fold "
        "descriptor; distinct by SHA1 of the case.")
ASSUMPTIONS = [
    "a list of precisions is indexed by the sorted fold value (explicit folds; only fold names "
    "whose lexicographic and natural order agree are combined with per-fold precisions) and by "
    "occurrence number for the default fold descriptor",
    "with one precision per fold the pair (m,n) uses inv((inv N_m + inv N_n)/2)",
    "poisson prior convention as in C01: rate = (fold mean + lambda*w)/(1+w); normalisation /P "
    "as in the property statement (docs carry an extra 1/2)",
    "numpy.linalg.inv is trusted for SPD matrices with condition number <= ~1e4",
]

ONE_CHAR = ['b', 'a', 'x', 'c', 'Z', 'q']
FOLD_INT = [3, -2, 10, 0, 7, 21, 5, 100]
# session dates / acquisition time stamps as fold names: large numbers that differ in the last digits
FOLD_DATE = [20240311, 20240312, 20240105, 20240112, 20231230, 1700000060, 1700000000, 20240313]
FOLD_STR_AMBIG = ['b10', 'a', 'b9', 'c', 'B', 'zz', 'a1', 'run']
FOLD_STR_PLAIN = ['r3', 'r1', 'r7', 'r2', 'r9', 'r5', 'r4', 'r8']


# ---------------------------------------------------------------------------
# reference

def default_folds(conds):
    """k-th occurrence of a condition (in row order) belongs to fold k"""
    seen, out = [], []
    for c in conds:
        k = sum(1 for s in seen if U.same_label(s, c))
        seen.append(c)
        out.append(k)
    return out


def fold_means(meas, conds, folds):
    """labels, sorted fold values, x[a][m] = mean pattern of condition a in fold m"""
    meas = np.asarray(meas, dtype=float)
    labels = U.distinct(conds)
    fvals = sorted(U.distinct(folds))
    x = []
    for a in labels:
        row = []
        for m in fvals:
            idx = [i for i in range(len(conds))
                   if U.same_label(conds[i], a) and U.same_label(folds[i], m)]
            if not idx:
                raise Reject('condition %r missing in fold %r' % (a, m), 'harness:unbalanced')
            acc = np.zeros(meas.shape[1])
            for i in idx:
                acc = acc + meas[i]
            row.append(acc / len(idx))
        x.append(row)
    return labels, fvals, x


def pair_precision(noise, m, n, p):
    if noise is None:
        return np.eye(p)
    nz = np.asarray(noise, dtype=float)
    if nz.ndim == 2:
        return nz
    return np.linalg.inv((np.linalg.inv(nz[m]) + np.linalg.inv(nz[n])) / 2.0)


def bilinear(method, xa_m, xb_m, xa_n, xb_n, prec, prior):
    """one between-fold product for the condition pair (a,b), folds (m,n), divided by P"""
    p = len(xa_m)
    if method == 'crossnobis':
        d1 = np.asarray(xa_m) - np.asarray(xb_m)
        d2 = np.asarray(xa_n) - np.asarray(xb_n)
        tot = 0.0
        for i in range(p):
            for j in range(p):
                tot += d1[i] * prec[i, j] * d2[j]
        return tot / p
    la_m, lb_m = U.rates(xa_m, *prior), U.rates(xb_m, *prior)
    la_n, lb_n = U.rates(xa_n, *prior), U.rates(xb_n, *prior)
    tot = 0.0
    for k in range(p):
        tot += (la_m[k] - lb_m[k]) * (np.log(la_n[k]) - np.log(lb_n[k]))
    return tot / p


def ref_cv(method, x, noise, prior, remove_mean, fold_pairs=None):
    """mean over ordered pairs of distinct folds (or the given ordered pairs)"""
    n_c, n_f = len(x), len(x[0])
    p = len(x[0][0])
    if method == 'crossnobis' and remove_mean:
        x = [[U.demean(v) for v in row] for row in x]
    if fold_pairs is None:
        fold_pairs = [(m, n) for m in range(n_f) for n in range(n_f) if m != n]
    out = np.zeros((n_c, n_c))
    for a in range(n_c):
        for b in range(a + 1, n_c):
            tot = 0.0
            for (m, n) in fold_pairs:
                prec = pair_precision(noise, m, n, p) if method == 'crossnobis' else None
                tot += bilinear(method, x[a][m], x[b][m], x[a][n], x[b][n], prec, prior)
            out[a, b] = out[b, a] = tot / len(fold_pairs)
    return out


def cv_atol(method, x, noise, prior):
    flat = np.array([v for row in x for v in row], dtype=float)
    if method == 'poisson_cv':
        return U.gram_atol('poisson', flat, None, prior)
    return U.gram_atol('mahalanobis' if noise is not None else 'euclidean', flat, noise, prior)


# ---------------------------------------------------------------------------
# generator

@st.composite
def cv_case(draw, method, modes):
    mode = draw(st.sampled_from(modes))
    label_kind = draw(st.sampled_from(['int', 'str', 'char']))
    if mode == 'default-many':
        n_cond = draw(st.integers(2, 3))
        p = draw(st.integers(1, 3))
        n_fold = draw(st.integers(10, 12))
        label_kind = draw(st.sampled_from(['char', 'char', 'str', 'int']))
    else:
        n_cond = draw(st.integers(2, 5))
        p = draw(st.integers(1, 6))
        n_fold = draw(st.integers(2, MAX_FOLDS))
    if label_kind == 'char':
        idx = draw(st.lists(st.integers(0, len(ONE_CHAR) - 1), min_size=n_cond, max_size=n_cond,
                            unique=True))
        conds = [ONE_CHAR[i] for i in idx]
    else:
        _, conds = draw(gen.label_set(n_cond, kinds=(label_kind,)))
    cfg = draw(U.method_config(p, methods=[method], n_noise=n_fold))
    noise_list = cfg.get('noise_form') == 'list'
    rows = []
    if mode == 'explicit':
        fold_kind = draw(st.sampled_from(['int', 'str', 'date']))
        pool = FOLD_INT if fold_kind == 'int' else FOLD_DATE if fold_kind == 'date' else \
            (FOLD_STR_PLAIN if noise_list else FOLD_STR_AMBIG)
        fi = draw(st.lists(st.integers(0, len(pool) - 1), min_size=n_fold, max_size=n_fold, unique=True))
        fnames = [pool[i] for i in fi]
        same_reps = draw(st.sampled_from([True, True, False]))
        r0 = draw(st.integers(1, 3))
        reps = [r0] * n_cond if same_reps else draw(
            st.lists(st.integers(1, 3), min_size=n_cond, max_size=n_cond))
        for f in fnames:
            for c, r_ in zip(conds, reps):
                rows += [(c, f)] * r_
    else:
        fold_kind = 'default'
        fnames = list(range(n_fold))
        reps = [1] * n_cond
        for c in conds:
            rows += [(c, None)] * n_fold
    perm = draw(gen.permutation(len(rows)))
    rows = [rows[i] for i in perm]
    cond_col = [r[0] for r in rows]
    fold_col = [r[1] for r in rows] if mode == 'explicit' else default_folds(cond_col)
    n = len(rows)
    meas, kind = draw(U.data_matrix(n, p, 'poisson' if method == 'poisson_cv' else method,
                                      positive=cfg['prior'][0] == 0))
    data_mode = draw(st.sampled_from(['free', 'free', 'one_fold', 'two_folds']))
    hot = []
    if data_mode != 'free':
        k_hot = 1 if data_mode == 'one_fold' else 2
        hot = draw(st.lists(st.integers(0, n_fold - 1), min_size=k_hot, max_size=k_hot, unique=True))
        fsorted = sorted(U.distinct(fold_col))
        hot_vals = [fsorted[h] for h in hot]
        base, _ = draw(U.data_matrix(n_fold, p, 'poisson' if method == 'poisson_cv' else method,
                                     kind=kind, positive=cfg['prior'][0] == 0))
        for i in range(n):
            if not any(U.same_label(fold_col[i], h) for h in hot_vals):
                rank = [j for j, f in enumerate(fsorted) if U.same_label(f, fold_col[i])][0]
                meas[i] = list(base[rank])
    return dict(method=method, cfg=cfg, mode=mode, conds=cond_col,
                folds=fold_col if mode == 'explicit' else None, meas=meas, kind=kind,
                label_kind=label_kind, fold_kind=fold_kind, data_mode=data_mode, hot=sorted(hot),
                reps=reps, n_fold=n_fold,
                container=draw(gen.container), dtype=draw(st.sampled_from(['float', 'int'])),
                api=draw(st.sampled_from(['calc_rdm', 'direct'])),
                chan_perm=draw(gen.permutation(p)))


# ---------------------------------------------------------------------------
# check

def _call(case, meas, conds, folds, noise, container, dtype, what, relib=False, eq_atol=0.0):
    cfg, method = case['cfg'], case['method']
    od = {'cond': gen.as_desc(conds, container)}
    if folds is not None:
        od['fold'] = gen.as_desc(folds, container)
        if len(conds) % 2 == 1:
            # the same labels under a second name, bound to the very same object (run = fold)
            od['run'] = od['fold']
    ds = Dataset(U.np_data(meas, dtype), obs_descriptors=od, descriptors={'subj': 's1'})
    if relib and folds is not None:
        # the same rows taken apart by fold and put together again by the library (rows grouped by
        # fold, descriptors in the containers the library makes)
        from rsatoolbox.data.ops import merge_datasets
        ds = lib(lambda: merge_datasets(ds.split_obs('fold')), on_error='reject')
        od = dict(ds.obs_descriptors)
    before = np.array(ds.measurements, copy=True)
    cvd = 'fold' if folds is not None else None
    nz = None
    if noise is not None:
        a = np.array(noise, dtype=float)
        nz = [m.copy() for m in a] if a.ndim == 3 else a
    sig = 'raises:%s:%s' % (method, 'explicit-folds' if folds is not None else 'default-folds')
    # a deterministic half of the calc_rdm calls hand over a list of two datasets (the same data
    # twice; one shared precision at most): one RDM per dataset, each the single-dataset value
    as_list = case['api'] == 'calc_rdm' and (nz is None or isinstance(nz, np.ndarray)) \
        and len(conds) % 2 == 0 and not relib
    if as_list:
        ds_arg = [ds, Dataset(U.np_data(meas, dtype), obs_descriptors={k: gen.as_desc(list(v), container)
                                                                        for k, v in od.items()},
                              descriptors={'subj': 's2'})]
        ds, ds_single = ds_arg, ds
    if method == 'crossnobis':
        if case['api'] == 'calc_rdm':
            r = lib(calc_rdm, ds, method='crossnobis', descriptor='cond', noise=nz,
                    cv_descriptor=cvd, remove_mean=cfg['remove_mean'], on_error='violation', sig=sig)
        else:
            r = lib(calc_rdm_crossnobis, ds, 'cond', nz, cvd, cfg['remove_mean'],
                    on_error='violation', sig=sig)
    else:
        lam, w = cfg['prior']
        if case['api'] == 'calc_rdm':
            r = lib(calc_rdm, ds, method='poisson_cv', descriptor='cond', cv_descriptor=cvd,
                    prior_lambda=lam, prior_weight=w, remove_mean=cfg['remove_mean'],
                    on_error='violation', sig=sig)
        else:
            r = lib(calc_rdm_poisson_cv, ds, 'cond', prior_lambda=lam, prior_weight=w,
                    cv_descriptor=cvd, on_error='violation', sig=sig)
    if as_list:
        ds = ds_single
        require(r.n_rdm == 2, '%s: %d RDMs for a list of two datasets' % (what, r.n_rdm), 'list:n_rdm')
        d = np.asarray(r.dissimilarities, dtype=float)
        require(core.close(d[0], d[1], 1e-12, 2 * eq_atol), '%s: two datasets with the same data and folds in one '
                'list give different RDMs (max diff %.3g)' % (what, core.maxdiff(d[0], d[1])),
                'list:rdm-differs')
        r = r[0]
    require(np.array_equal(before, ds.measurements), what + ': dataset measurements modified',
            'input-mutated')
    require(list(ds.obs_descriptors.keys()) == list(od.keys()),
            what + ': obs descriptors of the input dataset changed to %s' % list(ds.obs_descriptors),
            'input-mutated')
    return r


def _lookup(r, labels, what):
    require(r.n_rdm == 1, '%s: %d RDMs' % (what, r.n_rdm), 'n_rdm')
    require('cond' in r.pattern_descriptors, '%s: no pattern descriptor cond' % what, 'labels')
    pos = U.check_label_set(r.pattern_descriptors['cond'], labels, what, 'labels')
    sq = U.square(np.asarray(r.dissimilarities, dtype=float)[0], len(labels), what, 'shape')
    m = sq[np.ix_(pos, pos)]
    n = len(labels)
    return np.array([m[i, j] for i in range(n) for j in range(i + 1, n)], dtype=float)


def _vec(m):
    n = m.shape[0]
    return np.array([m[i, j] for i in range(n) for j in range(i + 1, n)], dtype=float)


def check_cv(case):
    cfg, method = case['cfg'], case['method']
    noise, prior, rm = cfg['noise'], cfg['prior'], cfg['remove_mean']
    conds = case['conds']
    explicit = case['mode'] == 'explicit'
    folds = case['folds'] if explicit else default_folds(conds)
    meas = np.array(case['meas'], dtype=float)
    p = meas.shape[1]
    labels, fvals, x = fold_means(meas, conds, folds)
    n_f = len(fvals)
    modesig = 'explicit-folds' if explicit else 'default-folds'
    what = '%s(%s, %d conditions, %d folds [%s], noise=%s, remove_mean=%s, prior=%s)' % (
        method, case['api'], len(labels), n_f, 'cv_descriptor' if explicit else 'default',
        cfg.get('noise_form', 'n/a'), rm, prior)
    om = _vec(ref_cv(method, x, noise, prior, rm))
    atol = cv_atol(method, x, noise, prior)
    rtol = 1e-9

    r = _call(case, case['meas'], conds, folds if explicit else None, noise, case['container'],
              case['dtype'], what, eq_atol=atol)
    lv = _lookup(r, labels, what)
    dm = r.dissimilarity_measure
    require(isinstance(dm, str) and dm, '%s: dissimilarity_measure %r' % (what, dm), 'measure')

    # region naming for a value mismatch
    def value_sig():
        if method == 'poisson_cv':
            last = _vec(ref_cv(method, x, noise, prior, rm,
                               fold_pairs=[(m, n_f - 1) for m in range(n_f - 1)]))
            if core.close(lv, last, 1e-7, 1e-9):
                return 'poisson_cv:last-fold-only'
        str_labels = isinstance(U.py(labels[0]), str)
        if not explicit and str_labels and n_f >= 10:
            return 'default-cv-descriptor:string-typed'
        return 'value:%s:%s' % (method, modesig)

    # structural: within-fold products never contribute
    if case['data_mode'] == 'one_fold':
        if not core.close(lv, np.zeros_like(lv), 0, atol):
            raise Violation('%s: only fold %r carries condition differences, every between-fold '
                            'product vanishes, but the library reports %s' % (
                                what, fvals[case['hot'][0]], core._short(lv)),
                            value_sig() if value_sig().startswith(('default-cv', 'poisson_cv:last'))
                            else 'within-fold-product:%s' % method)
    # structural: every pair of folds contributes
    if case['data_mode'] == 'two_folds':
        m0, m1 = case['hot']
        xs = [[U.demean(v) for v in row] for row in x] if (method == 'crossnobis' and rm) else x
        exp = []
        for a in range(len(labels)):
            for b in range(a + 1, len(labels)):
                prec = pair_precision(noise, m0, m1, p) if method == 'crossnobis' else None
                t = bilinear(method, xs[a][m0], xs[b][m0], xs[a][m1], xs[b][m1], prec, prior) \
                    + bilinear(method, xs[a][m1], xs[b][m1], xs[a][m0], xs[b][m0], prec, prior)
                exp.append(t / (n_f * (n_f - 1)))
        exp = np.array(exp)
        if not core.close(lv, exp, rtol, atol):
            s = value_sig()
            raise Violation('%s: only folds %r and %r carry condition differences; expected '
                            '2/(M(M-1)) * sym. product = %s, library %s' % (
                                what, fvals[m0], fvals[m1], core._short(exp), core._short(lv)),
                            s if s.startswith(('default-cv', 'poisson_cv:last'))
                            else 'fold-contribution:%s' % method)
    # the definition
    if not core.close(lv, om, rtol, atol):
        raise Violation('%s: library %s vs mean over ordered pairs of distinct folds %s '
                        '(max diff %.3g)' % (what, core._short(lv), core._short(om),
                                             core.maxdiff(lv, om)), value_sig())

    # invariance: channel order (precision alike), fold names, row order, containers
    cp = case['chan_perm']
    meas2 = meas[:, cp]
    noise2 = None
    if noise is not None:
        nz = np.asarray(noise, dtype=float)
        noise2 = nz[..., cp, :][..., :, cp]
    order = list(range(len(conds)))
    folds2 = None
    if explicit:
        order = order[::-1]
        ren = {repr(f): fvals[n_f - 1 - k] for k, f in enumerate(fvals)}   # reverses the sort order
        folds2 = [ren[repr([f for f in fvals if U.same_label(f, folds[i])][0])] for i in order]
        if noise2 is not None and noise2.ndim == 3:
            noise2 = noise2[::-1]
    conds2 = [conds[i] for i in order]
    meas2 = meas2[order]
    cont2 = 'list' if case['container'] == 'array' else 'array'
    r2 = _call(case, meas2.tolist(), conds2, folds2, None if noise2 is None else noise2.tolist(),
               cont2, 'float' if case['dtype'] == 'int' else 'int', what + ' [permuted]', eq_atol=atol)
    lv2 = _lookup(r2, labels, what + ' [permuted]')
    if not core.close(lv2, lv, rtol, 2 * atol):
        raise Violation('%s: result changes under channel permutation %r%s: %s vs %s' % (
            what, cp, ', fold renaming (order reversed) and row reversal' if explicit else '',
            core._short(lv2), core._short(lv)), 'invariance:%s:%s' % (method, modesig))
    if explicit and len(conds) % 3 == 0:
        r3 = _call(case, case['meas'], conds, folds, noise, case['container'], case['dtype'],
                   what + ' [split by fold and merged]', relib=True, eq_atol=atol)
        lv3 = _lookup(r3, labels, what + ' [split by fold and merged]')
        if not core.close(lv3, lv, rtol, 2 * atol):
            raise Violation('%s: result changes when the dataset is split by fold and merged again '
                            'by the library: %s vs %s' % (what, core._short(lv3), core._short(lv)),
                            'invariance:library-object:%s' % method)


def classify_cv(case):
    cfg = case['cfg']
    labels = ['method:' + case['method'], 'mode:' + case['mode'], 'labels:' + case['label_kind'],
              'folds:' + case['fold_kind'], 'M=%s' % (case['n_fold'] if case['n_fold'] < 10 else '10+'),
              'data:' + case['data_mode'], 'api:' + case['api'], 'desc:' + case['container'],
              'reps:' + ('1' if max(case['reps']) == 1 else
                         'equal' if len(set(case['reps'])) == 1 else 'per-condition'),
              'n_cond:%d' % len(case['reps'])]
    if case['method'] == 'crossnobis':
        labels += ['noise:' + cfg.get('noise_form', 'none'), 'remove_mean:%s' % cfg['remove_mean']]
    if case['mode'] != 'explicit' and case['label_kind'] == 'char' and case['n_fold'] >= 10:
        labels.append('width1-labels-10+reps')
    nt = case['n_fold'] >= 3 or max(case['reps']) >= 2 or case['mode'] != 'explicit'
    return labels, nt


EXPLICIT = ['explicit']
DEFAULT = ['default', 'default-many']

SUBCHECKS = [
    SubCheck('crossnobis', cv_case('crossnobis', EXPLICIT), check_cv, classify_cv, quick=700,
             doc='crossnobis with an explicit fold descriptor (none / one / per-fold precision, '
                 'remove_mean) == mean over ordered pairs of distinct folds; one-fold and two-fold '
                 'structural forms; invariance to channel order, fold names, row order'),
    SubCheck('crossnobis_default', cv_case('crossnobis', DEFAULT), check_cv, classify_cv, quick=500,
             doc='crossnobis with the default fold descriptor (k-th occurrence = fold k; 2-12 '
                 'repetitions, width-1 string labels): same oracle and structural forms'),
    SubCheck('poisson_cv', cv_case('poisson_cv', EXPLICIT), check_cv, classify_cv, quick=500,
             doc='poisson_cv with an explicit fold descriptor == the same fold-pair mean of '
                 '(l_am-l_bm).(log l_an-log l_bn)/P on prior-regularised rates; structural forms, '
                 'invariances'),
    SubCheck('poisson_cv_default', cv_case('poisson_cv', DEFAULT), check_cv, classify_cv, quick=400,
             doc='poisson_cv with the default fold descriptor'),
]
