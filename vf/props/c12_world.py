"""C12 helpers: JSON recipe pieces -> rsatoolbox objects, fingerprints, follow-up actions.

Everything here is deterministic given the (JSON) case; no RNG of its own.
"""
import os
import tempfile

os.environ.setdefault('TQDM_DISABLE', '1')

import numpy as np  # noqa: E402

from vf import core  # noqa: E402,F401  (puts VERIF_REPO/src on sys.path)

import rsatoolbox  # noqa: E402
from rsatoolbox.rdm.rdms import RDMs  # noqa: E402
from rsatoolbox.data.dataset import Dataset, TemporalDataset  # noqa: E402
from rsatoolbox.data.base import DatasetBase  # noqa: E402
from rsatoolbox.model.model import Model  # noqa: E402
import rsatoolbox.model as rmodel  # noqa: E402
import rsatoolbox.inference as rinf  # noqa: E402

_TMP = None
_TMP_PID = [None]
_TMP_PREFIX = 'vf_c12_'


def tmpdir():
    """per-process scratch directory for save/load arguments"""
    global _TMP
    if _TMP is None or not os.path.isdir(_TMP) or _TMP_PID[0] != os.getpid():
        _TMP = tempfile.mkdtemp(prefix='%s%d_' % (_TMP_PREFIX, os.getpid()))
        _TMP_PID[0] = os.getpid()
    return _TMP


def cleanup_tmp():
    """remove scratch directories of processes that no longer exist (called by the parent at
    the end of a run; pool workers do not run atexit handlers)"""
    import glob
    import shutil
    for d in glob.glob(os.path.join(tempfile.gettempdir(), _TMP_PREFIX + '*')):
        try:
            pid = int(os.path.basename(d)[len(_TMP_PREFIX):].split('_')[0])
        except ValueError:
            continue
        alive = True
        if pid != os.getpid():
            try:
                os.kill(pid, 0)
            except ProcessLookupError:
                alive = False
            except PermissionError:
                pass
        else:
            alive = False        # our own: the run is over
        if not alive:
            shutil.rmtree(d, ignore_errors=True)

# ---------------------------------------------------------------------------
# fingerprints

LIB_INDEX = 'index'     # library-managed descriptor entries are not user content


class Token:
    """stands for a user-supplied object handed back as a whole (not new content)"""

    def __init__(self, n):
        self.n = n


def _fp_float(x):
    return ('f', float(x).hex())


def _fp_desc_dict(d, tokens, depth):
    if not isinstance(d, dict):
        return fp(d, tokens, True, depth + 1)
    return {'__dict__': {str(k): fp(v, tokens, True, depth + 1)
                         for k, v in d.items() if k != LIB_INDEX}}


def _fp_matrices(obj):
    try:
        m = np.asarray(obj.get_matrices(), dtype=float)
    except Exception as e:  # noqa: BLE001
        return ('get_matrices-raises', type(e).__name__)
    return {'__nd__': ('<f8', tuple(m.shape)), 'bytes': np.ascontiguousarray(m).tobytes()}


def fp(obj, tokens=None, via_attr=False, depth=0):
    """structural fingerprint: nested python structure of primitives; arrays bit-exact.

    tokens: {id(obj): n} user objects. A user object reached through plain containers only
    (handed back as a whole) and user *Model* objects reached anywhere are replaced by a
    token - they are the caller's own objects, not new content of the result."""
    if depth > 12:
        return ('deep',)
    if tokens is not None and id(obj) in tokens:
        if (not via_attr) or isinstance(obj, Model):
            return ('user-object', tokens[id(obj)])
    if obj is None or isinstance(obj, (bool, str, bytes)):
        return obj
    if isinstance(obj, int):
        return ('i', obj)
    if isinstance(obj, float):
        return _fp_float(obj)
    if isinstance(obj, complex):
        return ('c', _fp_float(obj.real), _fp_float(obj.imag))
    if isinstance(obj, np.generic):
        return ('np', obj.dtype.str, obj.tobytes())
    if isinstance(obj, np.ndarray):
        if obj.dtype == object:
            return {'__objarray__': obj.shape, 'items': [fp(v, tokens, via_attr, depth + 1)
                                                          for v in obj.ravel().tolist()]}
        return {'__nd__': (obj.dtype.str, tuple(obj.shape)),
                'bytes': np.ascontiguousarray(obj).tobytes()}
    if isinstance(obj, RDMs):
        return {'__cls__': 'RDMs',
                'dissimilarities': fp(obj.dissimilarities, tokens, True, depth + 1),
                'dissimilarity_measure': fp(obj.dissimilarity_measure, tokens, True, depth + 1),
                'descriptors': _fp_desc_dict(obj.descriptors, tokens, depth),
                'rdm_descriptors': _fp_desc_dict(obj.rdm_descriptors, tokens, depth),
                'pattern_descriptors': _fp_desc_dict(obj.pattern_descriptors, tokens, depth),
                # the square form the object reports is part of its labelled content
                'matrices': _fp_matrices(obj)}
    if isinstance(obj, DatasetBase):
        out = {'__cls__': type(obj).__name__}
        for k, v in sorted(vars(obj).items()):
            out[k] = fp(v, tokens, True, depth + 1)
        return out
    if isinstance(obj, dict):
        return {'__dict__': {str(k): fp(v, tokens, via_attr, depth + 1) for k, v in obj.items()}}
    if isinstance(obj, (list, tuple)):
        return {'__seq__': type(obj).__name__,
                'items': [fp(v, tokens, via_attr, depth + 1) for v in obj]}
    if isinstance(obj, (set, frozenset)):
        return {'__set__': sorted(repr(v) for v in obj)}
    if hasattr(obj, 'toarray') and hasattr(obj, 'nnz'):        # scipy sparse
        return {'__sparse__': type(obj).__name__, 'dense': fp(obj.toarray(), tokens, True, depth + 1)}
    try:
        import pandas as pd
        if isinstance(obj, pd.DataFrame):
            return {'__df__': [str(c) for c in obj.columns],
                    'cols': [fp(obj[c].tolist(), tokens, True, depth + 1) for c in obj.columns]}
        if isinstance(obj, pd.Series):
            return {'__series__': fp(obj.tolist(), tokens, True, depth + 1)}
    except ImportError:     # pragma: no cover
        pass
    if callable(obj) and not hasattr(obj, '__dict__'):
        return ('callable', getattr(obj, '__qualname__', repr(type(obj))))
    if callable(obj) and hasattr(obj, '__qualname__') and not isinstance(obj, type) \
            and type(obj).__name__ in ('function', 'builtin_function_or_method', 'method'):
        return ('callable', obj.__qualname__)
    if hasattr(obj, '__dict__'):
        out = {'__cls__': type(obj).__name__}
        for k, v in sorted(vars(obj).items()):
            out[k] = fp(v, tokens, True, depth + 1)
        return out
    if isinstance(obj, range):
        return ('range', obj.start, obj.stop, obj.step)
    return ('repr', repr(obj))


def first_diff(a, b, path=''):
    """path of the first difference between two fingerprints, or None"""
    if type(a) is not type(b):
        return path or '<top>'
    if isinstance(a, dict):
        if set(a.keys()) != set(b.keys()):
            extra = sorted(set(a.keys()) ^ set(b.keys()))
            return '%s{keys %s}' % (path, ','.join(map(str, extra)))
        for k in a:
            if k in ('__dict__', 'items', '__seq__'):
                sub = path
            else:
                sub = (path + '.' + str(k)) if path else str(k)
            d = first_diff(a[k], b[k], sub)
            if d is not None:
                return d
        return None
    if isinstance(a, (list, tuple)):
        if len(a) != len(b):
            return '%s{len %d->%d}' % (path, len(a), len(b))
        for i, (x, y) in enumerate(zip(a, b)):
            d = first_diff(x, y, '%s[%d]' % (path, i))
            if d is not None:
                return d
        return None
    if a != b:
        return path or '<top>'
    return None


KINDS = ['dissimilarities', 'measurements', 'pattern_descriptors', 'rdm_descriptors',
         'obs_descriptors', 'channel_descriptors', 'time_descriptors', 'descriptors',
         'dissimilarity_measure', 'rdm_obj', 'rdm', 'evaluations', 'variances', 'noise_ceiling',
         'models']


def diff_kind(path):
    """stable short name of the region a difference lies in (for signatures)"""
    best, pos = None, -1
    for k in KINDS:
        i = path.rfind(k)
        # longest match at the right-most position; 'descriptors' is a suffix of others
        if i >= 0:
            start_ok = (i == 0) or not (path[i - 1].isalnum() or path[i - 1] == '_')
            if start_ok and (i > pos or (i == pos and len(k) > len(best))):
                best, pos = k, i
    return best or 'value'


# ---------------------------------------------------------------------------
# building objects from recipe pieces

class Env:
    def __init__(self, case):
        self.case = case
        self.args = {}            # param -> built value
        self.user = []            # every object built for a piece (strong refs)
        self.tokens = {}          # id -> n

    def register(self, obj):
        if isinstance(obj, (RDMs, DatasetBase, Model, np.ndarray)) or hasattr(obj, '__dict__'):
            if id(obj) not in self.tokens:
                self.tokens[id(obj)] = len(self.user)
                self.user.append(obj)
        return obj


def _desc(values, cont):
    if cont == 'array':
        return np.array(values)
    return list(values)


def build_rdms(p, env):
    d = np.array(p['vals'], dtype=float)
    if p.get('form') == 'matrix':
        from scipy.spatial.distance import squareform
        d = np.array([squareform(v) for v in d])
    cont = p.get('cont', 'list')
    pd = {k: _desc(v, cont) for k, v in p.get('pdesc', {}).items()}
    rd = {k: _desc(v, cont) for k, v in p.get('rdesc', {}).items()}
    desc = dict(p.get('desc', {}))
    if p.get('p_inv') is not None:
        desc['p_inv'] = np.array(p['p_inv'], dtype=int)
    return RDMs(d, dissimilarity_measure=p.get('measure'),
                descriptors=desc, rdm_descriptors=rd, pattern_descriptors=pd)


def _maybe_view(a):
    """the same values as a view into a longer recording (a slice / a reshaped table), for a
    deterministic half of the shapes: arrays handed to the library often do not own their data"""
    if a.size and (a.shape[0] + a.shape[1]) % 2 == 0:
        big = np.zeros((a.shape[0] + 2,) + a.shape[1:], dtype=a.dtype)
        big[1:-1] = a
        return big[1:-1]
    return a


def build_dataset(p, env):
    cont = p.get('cont', 'array')
    return Dataset(_maybe_view(np.array(p['meas'], dtype=float)),
                   descriptors=dict(p.get('desc', {})),
                   obs_descriptors={k: _desc(v, cont) for k, v in p.get('odesc', {}).items()},
                   channel_descriptors={k: _desc(v, cont) for k, v in p.get('cdesc', {}).items()})


def build_tds(p, env):
    cont = p.get('cont', 'array')
    return TemporalDataset(
        _maybe_view(np.array(p['meas'], dtype=float)),
        descriptors=dict(p.get('desc', {})),
        obs_descriptors={k: _desc(v, cont) for k, v in p.get('odesc', {}).items()},
        channel_descriptors={k: _desc(v, cont) for k, v in p.get('cdesc', {}).items()},
        time_descriptors={k: np.array(v) for k, v in p.get('tdesc', {}).items()})


MODEL_CLASSES = ['ModelFixed', 'ModelWeighted', 'ModelSelect', 'ModelInterpolate']


def build_model(p, env):
    cls = getattr(rmodel, p['cls'])
    src = build(p['rdm'], env)
    return cls(p.get('name', 'm'), src)


FUNCS = {
    'square': lambda x: x ** 2,
    'plus1': lambda x: x + 1.0,
}


def _fn(name):
    if name in FUNCS:
        return FUNCS[name]
    import rsatoolbox.model.fitter  # noqa: F401
    for mod in (rmodel, rinf, rsatoolbox.rdm, rsatoolbox.model.fitter):
        if hasattr(mod, name):
            return getattr(mod, name)
    raise KeyError(name)


def _select(values, mask, form):
    """pick entries of a descriptor by bit mask (non-empty by construction)"""
    vals = list(values)
    uniq = []
    for v in vals:
        v = v.item() if isinstance(v, np.generic) else v
        if v not in uniq:
            uniq.append(v)
    chosen = [v for i, v in enumerate(uniq) if (mask >> i) & 1]
    if not chosen:
        chosen = [uniq[mask % len(uniq)]]
    if form == 'scalar':
        return chosen[0]
    if form == 'array':
        return np.array(chosen)
    return chosen


def build(p, env):
    """recipe piece -> object. Pieces are dicts with 'kind'."""
    kind = p['kind']
    if kind == 'lit':
        return p['v']
    if kind == 'rdms':
        return env.register(build_rdms(p, env))
    if kind == 'dataset':
        return env.register(build_dataset(p, env))
    if kind == 'tds':
        return env.register(build_tds(p, env))
    if kind == 'model':
        return env.register(build_model(p, env))
    if kind == 'array':
        a = np.array(p['v'], dtype=p.get('dtype', 'float'))
        if p.get('inv'):
            # a precision obtained the usual way, as the inverse of a covariance estimate:
            # symmetric only up to rounding
            a = np.linalg.inv(a)
        return env.register(a)
    if kind == 'list':
        return [build(q, env) for q in p['items']]
    if kind == 'tuple':
        return tuple(build(q, env) for q in p['items'])
    if kind == 'dict':
        return {k: build(q, env) for k, q in p['items'].items()}
    if kind == 'fn':
        return _fn(p['name'])
    if kind == 'fitter':
        from rsatoolbox.model.fitter import Fitter
        return env.register(Fitter(_fn(p['name']), **p.get('kwargs', {})))
    if kind == 'wmds':
        from rsatoolbox.util.vis_utils import Weighted_MDS
        return env.register(Weighted_MDS(n_components=2, n_init=1, max_iter=5, random_state=0,
                                         dissimilarity='precomputed'))
    if kind == 'values_of':
        obj = env.args[p['of']]
        if isinstance(obj, (list, tuple)):
            obj = obj[0]
        name = env.args[p['name_from']] if p.get('name_from') else p['name']
        d = getattr(obj, p['attr'])[name]
        return _select(d, p['mask'], p['form'])
    if kind == 'filetype_of':
        ext = env.args[p['of']].rsplit('.', 1)[1]
        return 'pkl' if ext == 'pkl' else 'hdf5'
    if kind == 'index_of':
        # integer / list index into the stack of the referenced object
        obj = env.args[p['of']]
        n = len(obj)
        idx = [i % n for i in p['idx']]
        if p['form'] == 'int':
            return idx[0]
        if p['form'] == 'array':
            return np.array(idx)
        return idx
    if kind == 'perm_of':
        obj = env.args[p['of']]
        n = getattr(obj, p['attr'])
        return _perm(p['perm'], n, p.get('form', 'array'))
    if kind == 'tmpfile':
        path = os.path.join(tmpdir(), 'out.' + p['ext'])
        if os.path.exists(path):
            os.remove(path)
        return path
    if kind == 'savedfile':
        obj = build(p['obj'], Env(env.case))
        path = os.path.join(tmpdir(), 'in.' + p['ext'])
        if os.path.exists(path):
            os.remove(path)
        obj.save(path, file_type=p['ext'] if p['ext'] != 'h5' else 'hdf5')
        return path
    if kind == 'to_dict':
        # the object is private to this piece: the dict (with the arrays inside) is the argument
        return build(p['obj'], Env(env.case)).to_dict()
    if kind == 'dataframe':
        return build(p['obj'], Env(env.case)).to_df()
    if kind == 'cvsets':
        # train/test/ceil sets produced by the library's own (deterministic) generator on a
        # private clone of the data, so that they do not share anything with the `rdms` argument
        from rsatoolbox.inference import sets_k_fold, sets_leave_one_out_rdm
        data = build(p['rdms'], Env(env.case))
        if p['which'] == 'k_fold':
            tr, te, ce = sets_k_fold(data, k_rdm=p.get('k_rdm', 2), k_pattern=p.get('k_pattern', 2),
                                     random=False, pattern_descriptor=p.get('pdesc', 'index'),
                                     rdm_descriptor=p.get('rdesc', 'index'))
        else:
            tr, te, ce = sets_leave_one_out_rdm(data, p.get('rdesc', 'index'))
        env.cv = {'train_set': tr, 'test_set': te, 'ceil_set': ce}
        return env.cv[p['part']]
    if kind == 'result':
        return env.register(build_result(p, env))
    if kind == 'family':
        return env.register(rmodel.ModelFamily(build(p['models'], env))) \
            if hasattr(rmodel, 'ModelFamily') else None
    if kind == 'sparse':
        from scipy.sparse import csr_matrix
        return csr_matrix(np.array(p['v'], dtype=float))
    raise KeyError('unknown piece kind %r' % kind)


def _perm(perm, n, form='array'):
    out = [i for i in perm if i < n]
    for i in range(n):
        if i not in out:
            out.append(i)
    if n >= 2 and out == sorted(out):
        out[0], out[1] = out[1], out[0]
    if form == 'list':
        return out
    return np.array(out, dtype=int)


def build_result(p, env):
    models = build(p['models'], env)
    data = build(p['data'], Env(env.case))
    state = np.random.get_state()
    np.random.seed(p.get('seed', 0))
    try:
        if p['how'] == 'eval_fixed':
            return rinf.eval_fixed(models, data, method=p['method'])
        return rinf.eval_bootstrap_rdm(models, data, method=p['method'], N=6)
    finally:
        np.random.set_state(state)


# ---------------------------------------------------------------------------
# reachable data carriers (objects that have in-place operations / writable data)

def carriers(obj, tokens, out=None, via_attr=False, depth=0, seen=None, path='', skip_user_top=True):
    """list of (path, carrier) for RDMs / Dataset / ndarray reachable from obj.

    With skip_user_top: user objects handed back as a whole through plain containers are not
    new objects and are skipped; user Model objects are atomic anywhere."""
    if out is None:
        out, seen = [], set()
    if depth > 8 or id(obj) in seen:
        return out
    if isinstance(obj, (str, bytes, int, float, bool, type(None), np.generic)):
        return out
    seen.add(id(obj))
    is_user = tokens is not None and id(obj) in tokens
    if skip_user_top and is_user and ((not via_attr) or isinstance(obj, Model)):
        return out
    if isinstance(obj, (RDMs, DatasetBase)):
        out.append((path, obj))
        return out
    if isinstance(obj, np.ndarray):
        if obj.dtype != object:
            out.append((path, obj))
        return out
    if isinstance(obj, dict):
        for k, v in obj.items():
            carriers(v, tokens, out, via_attr, depth + 1, seen, '%s[%r]' % (path, k), skip_user_top)
        return out
    if isinstance(obj, (list, tuple)):
        for i, v in enumerate(obj):
            carriers(v, tokens, out, via_attr, depth + 1, seen, '%s[%d]' % (path, i), skip_user_top)
        return out
    mod = type(obj).__module__ or ''
    if mod.startswith('rsatoolbox') and hasattr(obj, '__dict__'):
        for k, v in sorted(vars(obj).items()):
            carriers(v, tokens, out, True, depth + 1, seen, '%s.%s' % (path, k), skip_user_top)
    return out


# ---------------------------------------------------------------------------
# follow-up in-place actions

ACTIONS = ['reorder', 'sort_by', 'append', 'write', 'write_desc']


def clone_rdms(x):
    """harness-made deep copy (does not use the library's copy())"""
    import copy
    return RDMs(np.array(x.dissimilarities, copy=True),
                dissimilarity_measure=x.dissimilarity_measure,
                descriptors=copy.deepcopy(x.descriptors),
                rdm_descriptors=copy.deepcopy(x.rdm_descriptors),
                pattern_descriptors=copy.deepcopy(x.pattern_descriptors))


def _unsorted_key(desc_dict):
    """name of a non-index descriptor whose values are not already sorted (else any, else None)"""
    names = [k for k in desc_dict if k != LIB_INDEX]
    for k in names:
        v = list(desc_dict[k])
        try:
            order = list(np.argsort(v, kind='stable'))
        except Exception:  # noqa: BLE001
            continue
        if order != list(range(len(v))):
            return k
    for k in names:
        try:
            np.argsort(list(desc_dict[k]))
            return k
        except Exception:  # noqa: BLE001
            continue
    return None


def _desc_dicts(obj):
    if isinstance(obj, RDMs):
        return [('pattern_descriptors', obj.pattern_descriptors),
                ('rdm_descriptors', obj.rdm_descriptors)]
    out = []
    for name in ('obs_descriptors', 'channel_descriptors', 'time_descriptors'):
        d = getattr(obj, name, None)
        if isinstance(d, dict):
            out.append((name, d))
    return out


def _desc_arrays(obj):
    """[(dict name, key, array, j)]: array-valued user descriptors that can be changed by
    assigning element j (different from element 0) to position 0"""
    out = []
    for dname, d in _desc_dicts(obj):
        if not isinstance(d, dict):
            continue
        for k, v in d.items():
            if k == LIB_INDEX or not isinstance(v, np.ndarray) or v.ndim != 1:
                continue
            if not v.flags.writeable or v.dtype.kind not in 'fiubUS' or v.size < 2:
                continue
            js = [j for j in range(1, v.size) if v[j] != v[0]]
            if js:
                out.append((dname, k, v, js[0]))
    return out


def applicable(action, obj):
    if action == 'write_desc':
        return isinstance(obj, (RDMs, DatasetBase)) and bool(_desc_arrays(obj))
    if isinstance(obj, RDMs):
        if action == 'sort_by':
            return _unsorted_key(obj.pattern_descriptors) is not None
        if action == 'write':
            return obj.dissimilarities.size > 0 and obj.dissimilarities.flags.writeable
        return True
    if isinstance(obj, DatasetBase):
        if action == 'sort_by':
            return hasattr(obj, 'sort_by') and _unsorted_key(obj.obs_descriptors) is not None
        if action == 'write':
            return obj.measurements.size > 0 and obj.measurements.flags.writeable
        return False
    if isinstance(obj, np.ndarray):
        return (action == 'write' and obj.size > 0 and obj.flags.writeable
                and obj.dtype.kind in 'fiub')
    return False


def apply_action(action, obj, fu):
    """perform the documented in-place operation `action` on obj. returns a description"""
    if action == 'write_desc':
        cands = _desc_arrays(obj)
        dname, k, v, j = cands[fu.get('pos', 0) % len(cands)]
        v[0] = v[j]
        return '%s[%r][0] = %s[%r][%d]' % (dname, k, dname, k, j)
    if isinstance(obj, RDMs):
        if action == 'reorder':
            order = _perm(fu.get('perm', []), obj.n_cond, 'array')
            obj.reorder(order)
            return 'reorder(%s)' % order.tolist()
        if action == 'sort_by':
            key = _unsorted_key(obj.pattern_descriptors)
            obj.sort_by(**{key: 'alpha'})
            return "sort_by(%s='alpha')" % key
        if action == 'append':
            obj.append(clone_rdms(obj))
            return 'append(copy)'
        if action == 'write':
            a = obj.dissimilarities
            i = fu.get('pos', 0) % a.size
            a.flat[i] = a.flat[i] + 1.0 if np.isfinite(a.flat[i]) else 1.0
            return 'dissimilarities.flat[%d] += 1' % i
    if isinstance(obj, DatasetBase):
        if action == 'sort_by':
            key = _unsorted_key(obj.obs_descriptors)
            obj.sort_by(key)
            return 'sort_by(%r)' % key
        if action == 'write':
            a = obj.measurements
            i = fu.get('pos', 0) % a.size
            a.flat[i] = a.flat[i] + 1.0
            return 'measurements.flat[%d] += 1' % i
    if isinstance(obj, np.ndarray) and action == 'write':
        i = fu.get('pos', 0) % obj.size
        if obj.dtype.kind == 'b':
            obj.flat[i] = not obj.flat[i]
        elif obj.dtype.kind == 'f':
            obj.flat[i] = obj.flat[i] + 1.0 if np.isfinite(obj.flat[i]) else 1.0
        else:
            obj.flat[i] = obj.flat[i] + 1
        return 'array.flat[%d] += 1' % i
    raise TypeError('action %s not applicable to %s' % (action, type(obj).__name__))
