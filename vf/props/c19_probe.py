"""Evaluation function handed to evaluate_models_searchlight by the C19 check.

Lives in its own tiny module so that joblib/loky worker processes can import it
by name (PYTHONPATH is extended by c19.py). It reports which RDM it was given
and in which process it ran, next to the library's own eval_fixed result.
"""
import os


def eval_probe(models, x, method='corr', theta=None):
    from rsatoolbox.inference import eval_fixed
    res = eval_fixed(models, x, method=method, theta=theta)
    return {
        'pid': os.getpid(),
        'voxel_index': [int(v) for v in x.rdm_descriptors['voxel_index']],
        'n_rdm': int(x.n_rdm),
        'dissimilarities': x.dissimilarities.tolist(),
        'method': method,
        'theta_is_none': theta is None,
        'evaluations': res.evaluations.tolist(),
        'src': os.path.dirname(os.path.abspath(
            __import__('rsatoolbox').__file__)),
    }
