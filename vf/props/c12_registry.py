"""C12 registry: parameter name -> argument strategy, plus per-callable overrides.

A *provider* is a function (draw, dims) -> recipe piece (JSON-able dict, see c12_world.build).
`DEFAULT` maps a bare parameter name to a provider and applies to every discovered callable,
so a function added to the library later is exercised when its parameter names are known and
reported as `uncovered` otherwise. `SPEC` holds per-callable overrides (and option values for
parameters that have defaults).
"""
from hypothesis import strategies as st

from vf import gen

# ---------------------------------------------------------------------------
# dims: sizes / labels shared by all arguments of one call

DEFAULT_DIMS = dict(n_cond=(3, 6), n_rdm=(2, 4), n_ch=(3, 5), n_run=(2, 3), n_time=(3, 4))


def _unsort(labels):
    """construction instead of rejection: make the order non-sorted by rotating"""
    labels = list(labels)
    if len(labels) >= 2 and labels == sorted(labels):
        labels = labels[1:] + labels[:1]
    return labels


@st.composite
def draw_dims(draw, overrides=None):
    rng = dict(DEFAULT_DIMS)
    rng.update(overrides or {})
    d = {k: draw(st.integers(*v)) for k, v in rng.items()}
    kind, labs = draw(gen.label_set(d['n_cond']))
    d['cond'] = _unsort(labs)
    d['label_kind'] = kind
    # (the last one: what rank_transform leaves behind -- objects produced by earlier library calls)
    d['measure'] = draw(st.sampled_from(['euclidean', 'squared euclidean', None, 'euclidean (ranks)']))
    d['cont'] = draw(gen.container)
    return d


def _vals(draw, n, m, lo=1, hi=64, div=8.0, shift=0.0):
    rows = draw(st.lists(st.lists(st.integers(lo, hi), min_size=m, max_size=m),
                         min_size=n, max_size=n))
    out = []
    for r in rows:
        if m >= 2 and max(r) == min(r):       # no constant vectors (correlations, minmax)
            r = [v + j for j, v in enumerate(r)]
        out.append([v / div + shift for v in r])
    return out


def n_pairs(n):
    return n * (n - 1) // 2


def _embedded(draw, n_rdm, n_cond, shift=0.0):
    """squared euclidean distances between generated points (point i gets +4 on axis i, so the
    configuration has full rank: Riemannian / Bures comparisons are defined, rows not constant)"""
    out = []
    for _ in range(n_rdm):
        pts = draw(st.lists(st.lists(st.integers(0, 6), min_size=n_cond, max_size=n_cond),
                            min_size=n_cond, max_size=n_cond))
        pts = [[v + (4 if i == j else 0) for j, v in enumerate(row)] for i, row in enumerate(pts)]
        row = []
        for i in range(n_cond):
            for j in range(i + 1, n_cond):
                row.append(sum((a - b) ** 2 for a, b in zip(pts[i], pts[j])) / 8.0 + shift)
        out.append(row)
    return out


# ---------------------------------------------------------------------------
# providers

def lit(*choices):
    def prov(draw, dims):
        return {'kind': 'lit', 'v': draw(st.sampled_from(list(choices)))}
    return prov


def const(v):
    return lit(v)


def dimlit(key):
    def prov(draw, dims):
        return {'kind': 'lit', 'v': dims[key]}
    return prov


def rdms(n_rdm=None, mixed=False, perm=False, single=False, p_inv=False, weights=False,
         conds_name='cond', cont=None, nans=False):
    def prov(draw, dims):
        nr = 1 if single else (n_rdm or dims['n_rdm'])
        nc = dims['n_cond']
        shift = -8.0 if (mixed and draw(st.booleans())) else 0.0
        vals = _embedded(draw, nr, nc, shift=shift)
        if nans and draw(st.booleans()):
            # missing dissimilarities at generated positions (per RDM, never a whole RDM)
            for row in vals:
                hide = draw(st.lists(st.booleans(), min_size=len(row), max_size=len(row)))
                if all(hide):
                    hide[0] = False
                for k, h in enumerate(hide):
                    if h:
                        row[k] = float('nan')
        cond = list(dims['cond'])
        if perm:
            order = draw(gen.permutation(nc))
            cond = [cond[i] for i in order]
        cat = [('b' if i % 2 == 0 else 'a') for i in range(nc)]
        subj = _unsort(draw(gen.label_set(nr, kinds=(dims['label_kind'],)))[1])
        sess = [(2 - (i % 2)) for i in range(nr)]
        p = {'kind': 'rdms', 'vals': vals, 'measure': dims['measure'],
             'pdesc': {conds_name: cond, 'cat': cat},
             'rdesc': {'subj': subj, 'sess': sess},
             'desc': {'study': 'x'}, 'cont': cont or dims['cont'],
             'form': draw(st.sampled_from(['vector', 'vector', 'matrix']))}
        if weights:
            p['rdesc']['w'] = [1.0 + (i % 3) for i in range(nr)]
        if p_inv:
            p['p_inv'] = draw(gen.permutation(nc))
        return p
    return prov


def dataset(poisson=False):
    def prov(draw, dims):
        nc, nrun, nch = dims['n_cond'], dims['n_run'], dims['n_ch']
        rows = [(c, r) for r in range(nrun) for c in dims['cond']]
        order = draw(gen.permutation(len(rows)))
        rows = [rows[i] for i in order]
        if [c for c, _ in rows] == sorted(c for c, _ in rows):
            rows = rows[1:] + rows[:1]
        meas = _vals(draw, len(rows), nch)
        chan = _unsort(['v%d' % ((7 * i + 3) % 10) for i in range(nch)])
        return {'kind': 'dataset', 'meas': meas,
                'odesc': {'cond': [c for c, _ in rows], 'run': [r + 1 for _, r in rows],
                          'trial': [(7 * i + 3) % len(rows) for i in range(len(rows))]
                          if len(rows) % 7 else list(range(len(rows)))[::-1]},
                'cdesc': {'chan': chan, 'roi': [('r2' if i % 2 == 0 else 'r1') for i in range(nch)]},
                'desc': {'subj': 's1'}, 'cont': draw(gen.container)}
    return prov


def tds():
    def prov(draw, dims):
        nrun, nch, nt = dims['n_run'], dims['n_ch'], dims['n_time']
        conds = list(dims['cond'])[:3]
        rows = [(c, r) for r in range(nrun) for c in conds]
        order = draw(gen.permutation(len(rows)))
        rows = [rows[i] for i in order]
        if [c for c, _ in rows] == sorted(c for c, _ in rows):
            rows = rows[1:] + rows[:1]
        flat = _vals(draw, len(rows), nch * nt)
        meas = [[row[c * nt:(c + 1) * nt] for c in range(nch)] for row in flat]
        chan = _unsort(['v%d' % ((7 * i + 3) % 10) for i in range(nch)])
        return {'kind': 'tds', 'meas': meas,
                'odesc': {'cond': [c for c, _ in rows], 'run': [r + 1 for _, r in rows]},
                'cdesc': {'chan': chan, 'roi': [('r2' if i % 2 == 0 else 'r1') for i in range(nch)]},
                'tdesc': {'time': [0.5 * i for i in range(nt)]},
                'desc': {'subj': 's1'}, 'cont': 'array'}
    return prov


def array(shape, lo=1, hi=64, div=8.0, dtype='float', shift=0.0):
    """shape: tuple of ints / dims keys / callables(dims)"""
    def size(s, dims):
        if callable(s):
            return s(dims)
        if isinstance(s, str):
            return dims[s]
        return s

    def prov(draw, dims):
        shp = [size(s, dims) for s in shape]
        n = 1
        for s in shp:
            n *= s
        flat = draw(st.lists(st.integers(lo, hi), min_size=n, max_size=n))
        if dtype == 'float':
            flat = [v / div + shift for v in flat]

        def nest(vals, shp):
            if len(shp) == 1:
                return vals
            step = len(vals) // shp[0]
            return [nest(vals[i * step:(i + 1) * step], shp[1:]) for i in range(shp[0])]
        return {'kind': 'array', 'v': nest(flat, shp), 'dtype': dtype}
    return prov


def symm(n_key):
    """symmetric matrix with zero diagonal"""
    def prov(draw, dims):
        n = dims[n_key]
        v = _vals(draw, n, n)
        m = [[0.0 if i == j else v[min(i, j)][max(i, j)] for j in range(n)] for i in range(n)]
        return {'kind': 'array', 'v': m, 'dtype': 'float'}
    return prov


def spd(n_key, inv=False):
    def prov(draw, dims):
        n = n_key(dims) if callable(n_key) else dims[n_key]
        out = {'kind': 'array', 'v': draw(gen.spd(n)), 'dtype': 'float'}
        if inv and draw(st.booleans()):
            out['inv'] = True
        return out
    return prov


def spd_per_run():
    """one precision per fold (list), each possibly the inverse of a covariance"""
    def prov(draw, dims):
        return {'kind': 'list', 'items': [spd('n_ch', inv=True)(draw, dims) for _ in range(dims['n_run'])]}
    return prov


def one_of(*provs):
    def prov(draw, dims):
        k = draw(st.integers(0, len(provs) - 1))
        return provs[k](draw, dims)
    return prov


def listof(prov_, lo=2, hi=3, kind='list'):
    def prov(draw, dims):
        k = draw(st.integers(lo, hi))
        return {'kind': kind, 'items': [prov_(draw, dims) for _ in range(k)]}
    return prov


NOSELECT = ('ModelFixed', 'ModelWeighted', 'ModelInterpolate')


def model(cls=None, from_array=False):
    def prov(draw, dims):
        if isinstance(cls, tuple):
            c = draw(st.sampled_from(list(cls)))
        else:
            c = cls or draw(st.sampled_from(['ModelFixed', 'ModelWeighted', 'ModelSelect',
                                             'ModelInterpolate']))
        if from_array and draw(st.booleans()):
            if c == 'ModelFixed':
                src = array((lambda d: n_pairs(d['n_cond']),))(draw, dims)
            else:
                src = array(('n_rdm', lambda d: n_pairs(d['n_cond'])))(draw, dims)
        else:
            src = rdms(single=(c == 'ModelFixed'))(draw, dims)
        return {'kind': 'model', 'cls': c, 'rdm': src,
                'name': draw(st.sampled_from(['m1', 'm2', 'mA']))}
    return prov


def models(cls=None, lo=1, hi=3, as_single=True):
    def prov(draw, dims):
        k = draw(st.integers(lo, hi))
        items = []
        for i in range(k):
            m = model(cls)(draw, dims)
            m['name'] = 'm%d' % i
            items.append(m)
        if as_single and k == 1 and draw(st.booleans()):
            return items[0]          # a single Model instead of a list
        return {'kind': 'list', 'items': items}
    return prov


def values_of(of, attr, name=None, name_from=None, forms=('list', 'scalar')):
    def prov(draw, dims):
        p = {'kind': 'values_of', 'of': of, 'attr': attr,
             'mask': draw(st.integers(1, 63)), 'form': draw(st.sampled_from(list(forms)))}
        if name_from:
            p['name_from'] = name_from
        else:
            p['name'] = name
        return p
    return prov


def index_of(of, forms=('int', 'list', 'array')):
    def prov(draw, dims):
        return {'kind': 'index_of', 'of': of, 'form': draw(st.sampled_from(list(forms))),
                'idx': draw(st.lists(st.integers(0, 7), min_size=1, max_size=3))}
    return prov


def perm_of(of, attr, form='array', optional=False):
    def prov(draw, dims):
        return {'kind': 'perm_of', 'of': of, 'attr': attr, 'form': form,
                'perm': draw(gen.permutation(8))}
    return prov


def fn(*names):
    def prov(draw, dims):
        return {'kind': 'fn', 'name': draw(st.sampled_from(list(names)))}
    return prov


def tmpfile(*exts):
    def prov(draw, dims):
        return {'kind': 'tmpfile', 'ext': draw(st.sampled_from(list(exts)))}
    return prov


def savedfile(obj_prov, *exts):
    def prov(draw, dims):
        return {'kind': 'savedfile', 'ext': draw(st.sampled_from(list(exts))),
                'obj': obj_prov(draw, dims)}
    return prov


def filetype_of(of='filename'):
    def prov(draw, dims):
        return {'kind': 'filetype_of', 'of': of}
    return prov


def to_dict_of(obj_prov):
    def prov(draw, dims):
        return {'kind': 'to_dict', 'obj': obj_prov(draw, dims)}
    return prov


def dataframe_of(obj_prov):
    def prov(draw, dims):
        return {'kind': 'dataframe', 'obj': obj_prov(draw, dims)}
    return prov


def cvset(part, which='k_fold', pdesc='index', rdesc='index'):
    """train/test/ceil sets: all three parameters of one call share one generated data piece"""
    def prov(draw, dims):
        if '_cvdata' not in dims:
            dims['_cvdata'] = rdms()(draw, dims)
        return {'kind': 'cvsets', 'part': part, 'which': which, 'rdms': dims['_cvdata'],
                'pdesc': pdesc, 'rdesc': rdesc, 'k_rdm': 2, 'k_pattern': 2}
    return prov


def shared_rdms(**kw):
    """the `rdms` argument that goes with cvset(): same recipe, separately built object"""
    def prov(draw, dims):
        if '_cvdata' not in dims:
            dims['_cvdata'] = rdms(**kw)(draw, dims)
        return dims['_cvdata']
    return prov


def result(how=None):
    """a Result produced by the library's own evaluation of generated models on generated data
    (coherent shapes / variances); deterministic: eval_fixed, or bootstrap with a seeded RNG"""
    def prov(draw, dims):
        h = how or draw(st.sampled_from(['eval_fixed', 'eval_bootstrap_rdm']))
        dims['_how'] = h
        return {'kind': 'result', 'how': h,
                'models': models(NOSELECT, 2, 3, as_single=False)(draw, dims),
                'data': rdms()(draw, dims), 'method': draw(st.sampled_from(['cosine', 'corr'])),
                'seed': draw(st.integers(0, 1000))}
    return prov


def test_type():
    """a test type the Result of result() supports (ranksum needs per-RDM evaluations, bootstrap
    needs bootstrap samples)"""
    def prov(draw, dims):
        other = 'ranksum' if dims.get('_how') == 'eval_fixed' else 'bootstrap'
        return {'kind': 'lit', 'v': draw(st.sampled_from(['t-test', other]))}
    return prov


def family():
    def prov(draw, dims):
        return {'kind': 'family', 'models': models('ModelFixed', 2, 3, as_single=False)(draw, dims)}
    return prov


def bins():
    """list of arrays partitioning the time points 0, .5, 1 ... of tds()"""
    def prov(draw, dims):
        nt = dims['n_time']
        cut = draw(st.integers(1, nt - 1))
        t = [0.5 * i for i in range(nt)]
        return {'kind': 'list', 'items': [{'kind': 'array', 'v': t[:cut], 'dtype': 'float'},
                                          {'kind': 'array', 'v': t[cut:], 'dtype': 'float'}]}
    return prov


def desc_dict(n_key, arrays=True):
    def prov(draw, dims):
        n = dims[n_key]
        cont = draw(gen.container)
        k1 = {'kind': 'array', 'v': list(dims['cond'])[:n] if n <= len(dims['cond'])
              else list(range(n)), 'dtype': None} if cont == 'array' else \
            {'kind': 'lit', 'v': list(dims['cond'])[:n] if n <= len(dims['cond']) else list(range(n))}
        k2 = {'kind': 'lit', 'v': [i % 2 for i in range(n)]}
        return {'kind': 'dict', 'items': {'cond': k1, 'grp': k2}}
    return prov


COMPARE_METHODS = ['cosine', 'spearman', 'corr', 'kendall', 'tau-a', 'rho-a', 'corr_cov',
                   'cosine_cov', 'neg_riem_dist', 'bures', 'bures_metric']
EVAL_METHODS = ['cosine', 'corr', 'spearman', 'rho-a', 'tau-a', 'corr_cov', 'cosine_cov']
NOISE_METHODS = ['full', 'diag', 'shrinkage_eye', 'shrinkage_diag']

# ---------------------------------------------------------------------------
# default registry by parameter name (applies to every discovered callable)

R = rdms()
D = dataset()
T = tds()

DEFAULT = {
    'rdms': R, 'rdm': R, 'rdm1': R, 'rdm2': R, 'data': R, 'sl_RDM': R,
    'dataset': D, 'model': model(), 'models': models(),
    'list_of_rdms': listof(rdms(perm=True)),
    'dataset_list': listof(D), 'sets': listof(D),
    'residuals': array((12, 'n_ch'), lo=-32, hi=32),
    'evaluations': array((6, 3), 1, 60, 64.0),
    'variances': array((3,), 1, 8, 64.0),
    'x': array(('n_rdm', lambda d: n_pairs(d['n_cond']))),
    'a': array((4, 3)),
    'array': array((7,), 1, 4, dtype='int'),
    'index_vector': array((6,), 0, 2, dtype='int'),
    'filename': tmpfile('pkl', 'h5'),
    'other': R,
}

# parameters with defaults that are only supplied when listed here or in SPEC
OPTIONAL_DEFAULT = {
    'overwrite': const(True),
    'verbose': const(False),
    'N': lit(2, 3),
}

_RS = 'rsatoolbox.'
S = {}          # qualified name -> {param: provider | None(=omit)}, optional '_dims', '_self'


def spec(_key, _dims=None, _watchdog=None, _quick=None, _max_reject=None, _thorough=None,
         **params):
    d = dict(params)
    for k, v in (('_dims', _dims), ('_watchdog', _watchdog), ('_quick', _quick),
                 ('_max_reject', _max_reject), ('_thorough', _thorough)):
        if v is not None:
            d[k] = v
    S[_key] = d


# --- rdm.transform
spec('rdm.transform.rank_transform', rdms=rdms(mixed=True), method=lit('average', 'min', 'dense'))
spec('rdm.transform.sqrt_transform', rdms=rdms(mixed=True))
spec('rdm.transform.positive_transform', rdms=rdms(mixed=True))
spec('rdm.transform.transform', rdms=rdms(mixed=True), fun=fn('square', 'plus1'))
spec('rdm.transform.minmax_transform', rdms=rdms(mixed=True))
spec('rdm.transform.geotopological_transform', rdms=rdms(mixed=True), low=lit(0.1, 0.25),
     up=lit(0.75, 0.9))
spec('rdm.transform.geodesic_transform', rdms=rdms(mixed=False))

# --- rdm.rdms
_RD = ['subj', 'sess']
_PD = ['cond', 'cat']
spec('rdm.rdms.RDMs.__getitem__', idx=index_of('self'))
spec('rdm.rdms.RDMs.__eq__', other=R)
# (a descriptor name as weights raises on the pinned tree: C13's defect #17)
spec('rdm.rdms.RDMs.mean', _max_reject=0.6, self=rdms(weights=True, nans=True),
     weights=one_of(const(None), array(('n_rdm', lambda d: n_pairs(d['n_cond'])), 1, 8, 4.0),
                    array(('n_rdm', lambda d: n_pairs(d['n_cond'])), 1, 8, 4.0), const('w')))
for _m in ('subset', 'subsample'):
    spec('rdm.rdms.RDMs.' + _m, by=lit(*_RD),
         value=values_of('self', 'rdm_descriptors', name_from='by', forms=('list', 'scalar', 'array')))
for _m in ('subset_pattern', 'subsample_pattern'):
    spec('rdm.rdms.RDMs.' + _m, by=lit(*_PD),
         value=values_of('self', 'pattern_descriptors', name_from='by', forms=('list', 'list', 'array')))
spec('rdm.rdms.RDMs.save', filename=tmpfile('pkl', 'h5'), file_type=filetype_of(), overwrite=const(True))
spec('rdm.rdms.rdms_from_dict', rdm_dict=to_dict_of(R))
spec('rdm.rdms.load_rdm', filename=savedfile(R, 'pkl', 'h5'))
# (list-typed aligning descriptors in differing order raise TypeError on the pinned tree - C10)
spec('rdm.rdms.concat', **{'*rdms': one_of(listof(rdms(perm=True, cont='array'), 1, 3, 'tuple'),
                                           listof(rdms(perm=False), 2, 3, 'tuple'),
                                           listof(listof(rdms(perm=True, cont='array'), 1, 3), 1, 1,
                                                  'tuple')),
                           'target_pdesc': lit(None, 'cond')})
spec('rdm.rdms.permute_rdms', p=perm_of('rdms', 'n_cond'))
spec('rdm.rdms.inverse_permute_rdms', rdms=rdms(p_inv=True))
spec('rdm.rdms.get_categorical_rdm',
     category_vector=one_of(array(('n_cond',), 0, 2, dtype='int'), lit([0, 1, 1, 2, 0])),
     category_name=lit('category', 'grp'))

# --- rdm.compare
spec('rdm.compare.compare', method=lit(*COMPARE_METHODS),
     sigma_k=one_of(const(None), const(None), spd('n_cond')))
for _f in ('compare_correlation_cov_weighted', 'compare_cosine_cov_weighted',
           'compare_neg_riemannian_distance'):
    spec('rdm.compare.' + _f, sigma_k=one_of(const(None), spd('n_cond')))

# --- rdm.calc
_noise = one_of(const(None), spd('n_ch'))
spec('rdm.calc.calc_rdm', dataset=one_of(D, D, listof(D, 2, 2)),
     method=lit('euclidean', 'correlation', 'mahalanobis', 'crossnobis', 'poisson', 'poisson_cv'),
     descriptor=lit('cond', 'cond', 'cond', None), noise=_noise, cv_descriptor=const('run'),
     remove_mean=lit(False, True))
spec('rdm.calc.calc_rdm_movie', dataset=T, method=lit('euclidean', 'correlation', 'mahalanobis'),
     descriptor=const('cond'), noise=_noise, time_descriptor=const('time'),
     bins=one_of(const(None), bins()), unbalanced=lit(False, True))
spec('rdm.calc.calc_rdm_euclidean', descriptor=lit('cond', None), remove_mean=lit(False, True))
spec('rdm.calc.calc_rdm_correlation', descriptor=lit('cond', None))
spec('rdm.calc.calc_rdm_mahalanobis', descriptor=lit('cond', None), noise=_noise,
     remove_mean=lit(False, True))
spec('rdm.calc.calc_rdm_crossnobis', descriptor=const('cond'),
     noise=one_of(const(None), spd('n_ch', inv=True), spd_per_run(), spd_per_run()),
     cv_descriptor=lit('run', None), remove_mean=lit(False, True))
spec('rdm.calc.calc_rdm_poisson', descriptor=lit('cond', None))
spec('rdm.calc.calc_rdm_poisson_cv', descriptor=const('cond'), cv_descriptor=const('run'))
spec('rdm.calc_unbalanced.calc_rdm_unbalanced', dataset=one_of(D, D, listof(D, 2, 2)),
     method=lit('euclidean', 'correlation', 'mahalanobis', 'crossnobis', 'poisson', 'poisson_cv'),
     descriptor=const('cond'), noise=_noise, cv_descriptor=lit(None, 'run'),
     weighting=lit('number', 'equal'))
spec('rdm.calc_unbalanced.calc_one_similarity', data_i=D, data_j=D,
     cv_desc_i=array((lambda d: d['n_cond'] * d['n_run'],), 1, 3, dtype='int'),
     cv_desc_j=array((lambda d: d['n_cond'] * d['n_run'],), 1, 3, dtype='int'),
     method=lit('euclidean', 'correlation', 'mahalanobis', 'poisson'), noise=_noise)
spec('rdm.calc_unbalanced.ensure_double', a=one_of(array((4, 3)), array((4, 3), dtype='int')))
spec('rdm.combine.from_partials', list_of_rdms=listof(rdms(perm=True), 1, 3), descriptor=const('cond'),
     all_patterns=const(None))
spec('rdm.combine.rescale', method=lit('evidence', 'setsize', 'simple'), _watchdog=5)
spec('rdm.pairs.pairs_by_percentile', rdms=rdms(single=True, cont='array'), min=lit(0, 25), max=lit(100, 75),
     **{'**kwargs': {'cond': values_of('rdms', 'pattern_descriptors', 'cond', forms=('scalar',))}})

# --- data
_DS = 'data.dataset.Dataset.'
spec(_DS + '__eq__', other=D)
for _m in ('split_obs',):
    spec(_DS + _m, by=lit('cond', 'run'))
spec(_DS + 'split_channel', by=lit('roi', 'chan'))
spec(_DS + 'subset_obs', by=lit('cond', 'run'),
     value=values_of('self', 'obs_descriptors', name_from='by', forms=('list', 'scalar', 'array')))
spec(_DS + 'subset_channel', by=lit('roi', 'chan'),
     value=values_of('self', 'channel_descriptors', name_from='by', forms=('list', 'scalar', 'array')))
spec(_DS + 'get_measurements_tensor', by=lit('run', 'cond'))
spec(_DS + 'odd_even_split', obs_desc=lit('cond', 'run'))
spec(_DS + 'nested_odd_even_split', l1_obs_desc=const('run'), l2_obs_desc=const('cond'))
spec(_DS + 'from_df', df=dataframe_of(D), channels=const(None), channel_descriptor=lit(None, 'chan'))
spec(_DS + 'to_df', channel_descriptor=lit(None, 'chan'))
_TD = 'data.dataset.TemporalDataset.'
# a single time point (one window left by bin_time / subset_time) in a quarter of the cases
_T1 = dict(n_time=(1, 4))
spec(_TD + '__eq__', other=T)
spec(_TD + 'split_obs', _dims=_T1, by=lit('cond', 'run'))
spec(_TD + 'split_channel', _dims=_T1, by=lit('roi', 'chan'))
spec(_TD + 'split_time', _dims=_T1, by=const('time'))
spec(_TD + 'bin_time', by=const('time'), bins=bins())
spec(_TD + 'subset_obs', by=lit('cond', 'run'),
     value=values_of('self', 'obs_descriptors', name_from='by', forms=('list', 'scalar', 'array')))
spec(_TD + 'subset_channel', by=lit('roi', 'chan'),
     value=values_of('self', 'channel_descriptors', name_from='by', forms=('list', 'scalar', 'array')))
spec(_TD + 'subset_time', by=const('time'), t_from=lit(0.0, 0.5), t_to=lit(0.5, 1.0, 5.0))
spec(_TD + 'time_as_observations', _dims=_T1, by=const('time'))
spec(_TD + 'convert_to_dataset', _dims=_T1, by=const('time'))
spec('data.base.DatasetBase.save', filename=tmpfile('pkl', 'h5'), file_type=filetype_of(), overwrite=const(True))
spec('data.dataset.dataset_from_dict', data_dict=to_dict_of(one_of(D, T)))
spec('data.dataset.load_dataset', filename=savedfile(one_of(D, T), 'pkl', 'h5'))
spec('data.dataset.merge_subsets', dataset_list=listof(D, 1, 3))
spec('data.ops.merge_datasets', sets=one_of(listof(D, 1, 3), listof(T, 1, 2)))
spec('data.computations.average_dataset_by', by=lit('cond', 'run', 'trial'))
for _f in ('cov_from_measurements', 'cov_from_unbalanced', 'prec_from_measurements',
           'prec_from_unbalanced'):
    spec('data.noise.' + _f, dataset=one_of(D, D, listof(D, 2, 2)), obs_desc=const('cond'),
         dof=lit(None, None, 5),
         method=lit(*(NOISE_METHODS if _f.startswith('cov') else NOISE_METHODS[1:])))
for _f in ('cov_from_residuals', 'prec_from_residuals'):
    spec('data.noise.' + _f,
         residuals=one_of(array((12, 'n_ch'), -32, 32), array((2, 9, 'n_ch'), -32, 32),
                          listof(array((9, 'n_ch'), -32, 32), 2, 2)),
         dof=lit(None, None, 7),
         method=lit(*(NOISE_METHODS if _f.startswith('cov') else NOISE_METHODS[1:])))

# --- model
for _c in ('ModelFixed', 'ModelWeighted', 'ModelSelect', 'ModelInterpolate'):
    _one = (_c == 'ModelFixed')
    _arr = (array((lambda d: n_pairs(d['n_cond']),)) if _one
            else array(('n_rdm', lambda d: n_pairs(d['n_cond']))))
    _mat = (array(('n_cond', 'n_cond')) if _one else array(('n_rdm', 'n_cond', 'n_cond')))
    spec('model.model.%s.__init__' % _c, name=lit('m', 'model x'),
         rdm=one_of(rdms(single=_one), rdms(single=_one), _arr, _mat))
    _theta = (const(None) if _one else lit(0, 1) if _c == 'ModelSelect'
              else one_of(const(None), array(('n_rdm',), 1, 8, 4.0),
                          array(('n_rdm',), 1, 8, 4.0, shift=-1.0)))    # (weights may be negative)
    spec('model.model.%s.predict' % _c, self=model(_c, from_array=True), theta=_theta)
    spec('model.model.%s.predict_rdm' % _c, self=model(_c, from_array=True), theta=_theta)
spec('model.model.Model.__init__', name=lit('m'))
spec('model.model.Model.fit', self=model(), data=R, method=lit('cosine', 'corr'))
spec('model.model.Model.to_dict', self=model(from_array=True))
spec('model.model.model_from_dict', model_dict=to_dict_of(model()))
spec('model.model_family.ModelFamily.__init__', models=models('ModelFixed', 2, 3, as_single=False))
spec('model.model_family.ModelFamily.get_family_member', self=family(), family_index=lit(0, 1, 2))
spec('model.model_family.ModelFamily.get_all_family_members', self=family())
spec('model.fitter.Fitter.__init__', fit_fun=fn('fit_regress', 'fit_optimize'),
     **{'**kwargs': {'ridge_weight': lit(0.5, 1)}})
spec('model.fitter.Fitter.__call__', self=lambda draw, dims: {
    'kind': 'fitter', 'name': 'fit_regress', 'kwargs': {'ridge_weight': 0.5}},
    model=model('ModelWeighted'), data=R)
spec('util.vis_utils.smacof', dissimilarities=symm('n_cond'), n_components=const(2),
     n_init=const(1), max_iter=const(5), random_state=const(0),
     weight=one_of(const(None), symm('n_cond')))
# listed as uncovered with this reason instead of being exercised
FORCED_UNCOVERED = {
    'util.vis_utils.Weighted_MDS.fit': 'sklearn-derived plotting support; raises AttributeError '
                                       '(_validate_data) with the installed scikit-learn',
    'util.vis_utils.Weighted_MDS.fit_transform': 'sklearn-derived plotting support; raises '
                                                 'AttributeError (_validate_data) with the '
                                                 'installed scikit-learn',
}
_fit_common = dict(data=R, method=lit('cosine', 'corr', 'cosine_cov', 'corr_cov'),
                   pattern_idx=const(None), pattern_descriptor=const(None),
                   sigma_k=one_of(const(None), const(None), spd('n_cond')))
spec('model.fitter.fit_mock', model=model(), **_fit_common)
spec('model.fitter.fit_select', model=model('ModelSelect'), **_fit_common)
spec('model.fitter.fit_interpolate', model=model('ModelInterpolate'), **_fit_common)
for _f in ('fit_optimize', 'fit_optimize_positive', 'fit_regress', 'fit_regress_nn'):
    spec('model.fitter.' + _f, model=model('ModelWeighted'), ridge_weight=lit(0, 0.5),
         _dims=dict(n_cond=(4, 6), n_rdm=(2, 3)), _watchdog=10,
         _quick=(10 if 'optimize' in _f else None),
         _thorough=(100 if 'optimize' in _f else None), **_fit_common)

# --- inference
_big = dict(n_cond=(8, 10), n_rdm=(4, 6))
_ev = dict(models=models(NOSELECT), data=R, method=lit(*EVAL_METHODS))   # theta=None: no ModelSelect
spec('inference.evaluate.eval_fixed', theta=const(None), **_ev)
for _f in ('eval_bootstrap', 'eval_bootstrap_pattern'):
    spec('inference.evaluate.' + _f, theta=const(None), N=lit(2, 3),
         pattern_descriptor=lit('index', 'cond'), rdm_descriptor=lit('index', 'subj'),
         boot_noise_ceil=lit(True, False), _dims=dict(n_cond=(5, 7)), **_ev)
spec('inference.evaluate.eval_bootstrap_rdm', theta=const(None), N=lit(2, 3),
     rdm_descriptor=lit('index', 'subj'), boot_noise_ceil=lit(True, False), **_ev)
spec('inference.evaluate.crossval', _quick=8, _thorough=48, models=models(hi=2), rdms=shared_rdms(),
     train_set=cvset('train_set'), test_set=cvset('test_set'), ceil_set=cvset('ceil_set'),
     method=lit('cosine', 'corr'), fitter=const(None), pattern_descriptor=const('index'),
     calc_noise_ceil=lit(True, False), _dims=_big)
spec('inference.evaluate.bootstrap_crossval', _quick=4, _thorough=24, models=models(hi=2), data=R,
     method=lit('cosine', 'corr'),
     fitter=const(None), k_pattern=lit(2, None), k_rdm=lit(2, None), N=const(2), n_cv=const(2),
     pattern_descriptor=lit('index', 'cond'), rdm_descriptor=lit('index', 'subj'),
     boot_type=lit('both', 'rdm', 'pattern'), use_correction=lit(True, False), _dims=_big)
spec('inference.evaluate.eval_dual_bootstrap', _quick=4, _thorough=24, models=models(hi=2), data=R,
     method=lit('cosine', 'corr'),
     fitter=const(None), k_pattern=lit(1, 2), k_rdm=lit(1, 2), N=const(2), n_cv=const(2),
     pattern_descriptor=lit('index', 'cond'), rdm_descriptor=lit('index', 'subj'),
     use_correction=lit(True, False), _dims=_big)
spec('inference.evaluate.eval_dual_bootstrap_random', _quick=6, _thorough=36, models=models(hi=2), data=R,
     method=lit('cosine', 'corr'), fitter=const(None), n_pattern=const(None), n_rdm=const(None),
     N=const(2), n_cv=const(2), pattern_descriptor=lit('index', 'cond'),
     rdm_descriptor=lit('index', 'subj'), boot_type=lit('both', 'rdm', 'pattern'),
     use_correction=const(True), _dims=_big)   # other n_cv / correction settings raise (not C12)
for _f in ('bootstrap_testset', 'bootstrap_testset_pattern', 'bootstrap_testset_rdm'):
    _kw = dict(models=models(hi=2), data=R, method=lit('cosine', 'corr'), fitter=const(None),
               N=const(2), _quick=8, _thorough=48)
    if _f != 'bootstrap_testset_rdm':
        _kw['pattern_descriptor'] = lit(None, 'cond')
    if _f != 'bootstrap_testset_pattern':
        _kw['rdm_descriptor'] = lit(None, 'subj')
    spec('inference.boot_testset.' + _f, _dims=_big, **_kw)
spec('inference.bootstrap.bootstrap_sample', rdm_descriptor=lit('index', 'subj', 'sess'),
     pattern_descriptor=lit('index', 'cond', 'cat'))
spec('inference.bootstrap.bootstrap_sample_rdm', rdm_descriptor=lit('index', 'subj', 'sess'))
spec('inference.bootstrap.bootstrap_sample_pattern', pattern_descriptor=lit('index', 'cond', 'cat'))
_cv = 'inference.crossvalsets.'
spec(_cv + 'sets_leave_one_out_pattern', pattern_descriptor=lit('index', 'cond'))
spec(_cv + 'sets_leave_one_out_rdm', rdm_descriptor=lit('index', 'subj'))
spec(_cv + 'sets_k_fold', k_rdm=lit(None, 2), k_pattern=lit(None, 2), random=lit(True, False),
     pattern_descriptor=lit('index', 'cond'), rdm_descriptor=lit('index', 'subj'), _dims=_big)
spec(_cv + 'sets_k_fold_rdm', k_rdm=lit(None, 2), random=lit(True, False),
     rdm_descriptor=lit('index', 'subj'), _dims=_big)
spec(_cv + 'sets_k_fold_pattern', pattern_descriptor=lit('index', 'cond'), k=lit(None, 2),
     random=lit(True, False), _dims=_big)
# sets_of_k_rdm raises TypeError (k=) on the pinned tree: C05's defect; a refusal cannot violate C12
spec(_cv + 'sets_of_k_rdm', rdm_descriptor=lit('index', 'subj'), k=const(2), random=lit(True, False),
     _dims=_big, _max_reject=1.0)
spec(_cv + 'sets_of_k_pattern', pattern_descriptor=lit('index', 'cond'), k=lit(2, 3),
     random=lit(True, False), _dims=_big)
spec(_cv + 'sets_random', n_rdm=lit(None, 2), n_pattern=lit(None, 3), n_cv=lit(1, 2),
     pattern_descriptor=lit('index', 'cond'), rdm_descriptor=lit('index', 'subj'), _dims=_big)
spec('inference.noise_ceiling.boot_noise_ceiling', method=lit('cosine', 'corr', 'spearman'),
     rdm_descriptor=lit('index', 'subj'))
spec('inference.noise_ceiling.cv_noise_ceiling', rdms=shared_rdms(),
     ceil_set=cvset('ceil_set'), test_set=cvset('test_set'), method=lit('cosine', 'corr'),
     pattern_descriptor=const('index'), _dims=_big)
_RES = 'inference.result.Result.'
spec(_RES + 'get_ci', ci_percent=lit(0.95, 0.5), test_type=lit('t-test', 'bootstrap'))
spec(_RES + 'get_errorbars', eb_type=lit('sem', 'ci', 'ci99'), test_type=lit('t-test',))
for _m in ('summary', 'test_all', 'test_pairwise', 'test_zero', 'test_noise'):
    # (bootstrap tests of bootstrap Results raise on the pinned tree: C06's defect #27)
    spec(_RES + _m, test_type=test_type(), _max_reject=0.6)
spec(_RES + 'save', filename=tmpfile('pkl', 'h5'), file_type=filetype_of(), overwrite=const(True))
spec('inference.result.load_results', filename=savedfile(result(), 'pkl', 'h5'))
spec('inference.result.result_from_dict', result_dict=to_dict_of(result()))

# --- util
spec('util.data_utils.extract_dict', dictionary=desc_dict('n_cond'),
     indices=one_of(lit([0, 2], [1], 1), array((2,), 0, 2, dtype='int')))
spec('util.data_utils.get_unique_inverse', array=array((7,), 1, 4, dtype='int'))
spec('util.data_utils.get_unique_unsorted', array=array((7,), 1, 4, dtype='int'))
_du = 'util.descriptor_utils.'
_descval = one_of(array(('n_cond',), 0, 2, dtype='int'), lit([2, 0, 1, 0], ['b', 'a', 'b']))
spec(_du + 'bool_index', descriptor=_descval, value=lit(0, [0, 1], 'a'))
spec(_du + 'num_index', descriptor=_descval, value=lit(0, [0, 1], 'a'))
spec(_du + 'check_descriptor_length', descriptor=desc_dict('n_cond'), n_element=lit(3, 4, 5, 6))
spec(_du + 'check_descriptor_length_error', descriptor=desc_dict('n_cond'), name=const('x'),
     n_element=dimlit('n_cond'))
spec(_du + 'desc_eq', a=desc_dict('n_cond'), b=desc_dict('n_cond'))
spec(_du + 'dict_eq', a=desc_dict('n_cond'), b=desc_dict('n_cond'))   # added by a pending fix (C16)
spec(_du + 'dict_to_list', d_dict=desc_dict('n_cond'))
spec(_du + 'format_descriptor', descriptors=desc_dict('n_cond'))
spec(_du + 'parse_input_descriptor', descriptors=one_of(desc_dict('n_cond'), const(None)))
spec(_du + 'subset_descriptor', descriptor=desc_dict('n_cond'),
     indices=one_of(lit([0, 2], [1], 1), array((2,), 0, 2, dtype='int')))
spec('util.file_io.remove_file', file=savedfile(R, 'pkl'))
_iu = 'util.inference_util.'
_evals3 = array((1, 3, 'n_rdm'), 1, 60, 64.0)        # fixed evaluation: 1 x n_model x n_rdm
_evals2 = array((8, 3), 1, 60, 64.0)                 # bootstrap: N x n_model
_mvar = array((3,), 1, 8, 64.0)
_dvar = array((3,), 1, 8, 64.0)                      # 3 pairs for 3 models
spec(_iu + 'input_check_model', models=models(NOSELECT), theta=const(None), fitter=const(None), N=lit(1, 2))
spec(_iu + 'pool_rdm', method=lit('cosine', 'corr', 'spearman', 'rho-a', 'kendall', 'tau-a'))
spec(_iu + 'all_tests', evaluations=_evals3, noise_ceil=array((2, 'n_rdm'), 40, 64, 64.0),
     test_type=lit('t-test', 'ranksum'), model_var=_mvar, diff_var=_dvar,
     noise_ceil_var=array((3, 2), 1, 8, 64.0), dof=lit(2, 5))
spec(_iu + 'pair_tests', evaluations=_evals3, test_type=lit('t-test', 'ranksum'), diff_var=_dvar,
     dof=lit(2, 5))
spec(_iu + 'zero_tests', evaluations=_evals3, test_type=lit('t-test', 'ranksum'), model_var=_mvar,
     dof=lit(2, 5))
spec(_iu + 'nc_tests', evaluations=_evals3, noise_ceil=array((2, 'n_rdm'), 40, 64, 64.0),
     test_type=lit('t-test', 'ranksum'), noise_ceil_var=array((3, 2), 1, 8, 64.0), dof=lit(2, 5))
spec(_iu + 'ranksum_pair_test', evaluations=_evals3)
spec(_iu + 'ranksum_value_test', evaluations=_evals3, comp_value=lit(0, 0.5))
spec(_iu + 'bootstrap_pair_tests', evaluations=_evals2)
spec(_iu + 't_tests', evaluations=_evals3, variances=_dvar, dof=lit(2, 5))
spec(_iu + 't_test_0', evaluations=_evals3, variances=_mvar, dof=lit(2, 5))
spec(_iu + 't_test_nc', evaluations=_evals3, variances=array((3,), 1, 8, 64.0),
     noise_ceil=lit(0.9, 0.5), dof=lit(2, 5))
spec(_iu + 'extract_variances', variance=one_of(array((4, 4), 1, 8, 64.0), array((4,), 1, 8, 64.0)),
     nc_included=const(True), n_rdm=const(None), n_pattern=const(None))
spec(_iu + 'get_errorbars', model_var=_mvar, evaluations=_evals3, dof=lit(2, 5),
     error_bars=lit('sem', 'ci', 'ci99'), test_type=const('t-test'))
spec(_iu + 'default_k_pattern', n_pattern=lit(5, 20, 50))
spec(_iu + 'default_k_rdm', n_rdm=lit(5, 20, 50))
_mx = 'util.matrix.'
spec(_mx + 'indicator', index_vector=array((6,), 0, 2, dtype='int'), positive=lit(False, True))
spec(_mx + 'pairwise_contrast', index_vector=array((6,), 0, 2, dtype='int'))
spec(_mx + 'pairwise_contrast_sparse', index_vector=array((6,), 0, 2, dtype='int'))
spec(_mx + 'centering', size=lit(3, 5))
spec(_mx + 'row_col_indicator_rdm', n_cond=lit(3, 5))
spec(_mx + 'row_col_indicator_g', n_cond=lit(3, 5))
spec(_mx + 'get_v', n_cond=lambda draw, dims: {'kind': 'lit', 'v': dims['n_cond']},
     sigma_k=one_of(const(None), spd('n_cond')))
spec(_mx + 'square_category_binary_mask', category_idxs=lit([0, 2], [1]), size=lit(4, 5))
spec(_mx + 'square_between_category_binary_mask', category_1_idxs=lit([0, 2], [1]),
     category_2_idxs=lit([3], [1, 3]), size=lit(4, 5))
spec('util.pooling.pool_rdm', method=lit('cosine', 'corr', 'spearman', 'rho-a', 'cosine_cov',
                                          'corr_cov', 'kendall', 'tau-a', 'euclid'),
     sigma_k=one_of(const(None), spd('n_cond')))
_ru = 'util.rdm_utils.'
spec(_ru + 'add_pattern_index', pattern_descriptor=lit('cond', 'cat', 'index'))
spec(_ru + 'batch_to_matrices', x=one_of(array(('n_rdm', lambda d: n_pairs(d['n_cond']))),
                                         array(('n_rdm', 'n_cond', 'n_cond'))))
spec(_ru + 'batch_to_vectors', x=one_of(array(('n_rdm', lambda d: n_pairs(d['n_cond']))),
                                        array(('n_rdm', 'n_cond', 'n_cond')),
                                        array((lambda d: n_pairs(d['n_cond']),))))
spec(_ru + 'category_condition_idxs', category_selector=one_of(const('cat'), const('cond')))
_sl = 'util.searchlight.'
spec(_sl + 'get_volume_searchlight', mask=array((3, 3, 2), 0, 1, dtype='bool'), radius=lit(1, 2),
     threshold=lit(1.0, 0.5))
spec(_sl + 'get_searchlight_RDMs', data_2d=array((6, 5)),
     centers=array((3,), 0, 4, dtype='int'),
     neighbors=const([[0, 1], [1, 2, 3], [3, 4]]),
     events=array((6,), 0, 2, dtype='int'), method=lit('correlation', 'euclidean'),
     verbose=const(False))
spec(_sl + 'evaluate_models_searchlight', sl_RDM=R, models=models(NOSELECT, as_single=False),
     eval_function=fn('eval_fixed'), method=lit('corr', 'cosine'), theta=const(None), n_jobs=const(1))
_vu = 'util.vis_utils.'
spec(_vu + 'weight_to_matrices', x=one_of(array(('n_rdm', lambda d: n_pairs(d['n_cond']))),
                                          array(('n_rdm', 'n_cond', 'n_cond'))))
