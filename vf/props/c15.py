"""C15 - calc_rdm_unbalanced (compiled pair kernel + Python wrapper).

The binary cengine/similarity*.so cannot be rebuilt here (no Cython), so three
kernel defects are *known regions* the generators avoid by construction:
  nan x correlation, nan x (mahalanobis|crossnobis with a precision), equal weighting
  without cross-validation.
Draws falling into them are diverted (recorded in case['diverted']); probes for
the regions live in regressions/C15/kf-*.json and are executed by the same
check function (the mahalanobis one in a sub-process because the kernel reads
past a heap buffer there).
"""
import json
import math
import os
import subprocess
import sys

import numpy as np
from hypothesis import strategies as st

from vf import core, gen, ref
from vf.core import SubCheck, Violation, Reject, lib, require
from vf.props import c15_ref as R

from rsatoolbox.data.dataset import Dataset
from rsatoolbox.rdm.calc_unbalanced import calc_rdm_unbalanced, calc_one_similarity
from rsatoolbox.rdm.calc import calc_rdm

NONCV = ['euclidean', 'correlation', 'mahalanobis', 'poisson']
CV = ['crossnobis', 'poisson_cv']
METHODS = NONCV + CV

SIG_KF_CORR = 'unbalanced:nan_channels:correlation'
SIG_KF_MAHA = 'unbalanced:nan_channels:mahalanobis'
SIG_KF_EQUAL = 'unbalanced:equal_weighting:no_crossval'
SIG_SPREAD = 'unbalanced:undefined_self_similarity'

RULE = ("Hypothesis-generated datasets: 2-5 conditions x 1-3 repetitions (unbalanced, rows "
        "permuted so that first-appearance order != sorted order, int/str labels, list/array "
        "descriptors), 2-6 channels, dyadic-grid / small-integer / decimal / count values; "
        "missing-value masks none / whole channels / per observation / two observations with "
        "disjoint channels / an all-missing observation; six methods, both weightings, SPD "
        "precision or none, fold descriptor none / random / spread over folds / balanced over "
        "folds; regions owned by three kernel defects are diverted by construction and counted. "
        "Oracle: explicit-loop average over admissible observation pairs (valid channels only, "
        "reduced count, precision sub-block) assembled as S_aa+S_bb-2S_ab and looked up by label; "
        "agreement with calc_rdm and with an own fold-wise formula where theory demands; "
        "int==float, C==F, missing channel == deleted channel, calc_one_similarity assembly == full. "
        "Non-trivial: unbalanced repetitions or a non-empty missing-value mask or a fold descriptor; "
        "distinct by SHA1 of the case.")
ASSUMPTIONS = [
    "a distance is defined iff S_aa, S_bb and S_ab each have at least one admissible observation "
    "pair with a shared valid channel; otherwise NaN (statement: 'pairs without any valid product "
    "are NaN')",
    "without a fold descriptor the pairs inside one condition include i == j (so the self term is "
    "the squared condition mean); with cross-validation they are excluded like every same-fold pair",
    "the compiled kernel is exercised as shipped; its three defective regions (NaN x correlation, "
    "NaN x precision matrix, equal weighting without cross-validation) are excluded from the search "
    "and covered by probes only",
    "poisson_cv agreement with calc_rdm is demanded only for one observation per condition and fold "
    "(log of a mean != mean of logs otherwise) and presupposes the C02 repair of calc_rdm_poisson_cv",
    "precision matrices are symmetric positive definite; zero-variance patterns are not fed to "
    "correlation; Poisson inputs are non-negative with positive prior",
    "vector order of RDMs.dissimilarities is the row-major upper triangle of the label order in "
    "pattern_descriptors",
]


# ---------------------------------------------------------------------------
# case helpers

def crossval_of(case):
    return case['folds'] is not None or case['method'] in CV


def ref_folds(case):
    """fold values the reference uses: the descriptor, or (cv methods without a descriptor)
    the row index - what the wrapper documents ('only remove self-similarities')"""
    if case['folds'] is not None:
        return list(case['folds'])
    if case['method'] in CV:
        return list(range(len(case['obs'])))
    return None


def has_mask(case):
    m = case.get('mask')
    return bool(m) and any(any(r) for r in m)


def known_region(case):
    """signature of the kernel defect that owns this case, or None"""
    if has_mask(case) and case['method'] == 'correlation':
        return SIG_KF_CORR
    if has_mask(case) and case['method'] in ('mahalanobis', 'crossnobis') and case['noise'] is not None:
        return SIG_KF_MAHA
    if case['weighting'] == 'equal' and not crossval_of(case):
        return SIG_KF_EQUAL
    return None


def masked_meas(case, dtype=float):
    x = np.array(case['meas'], dtype=dtype)
    if has_mask(case):
        x = x.astype(float)
        x[np.array(case['mask'], dtype=bool)] = np.nan
    return x


def obs_descriptors(case):
    od = {}
    if not case.get('descriptor_none'):
        od['cond'] = gen.as_desc(case['obs'], case.get('container', 'list'))
    elif len(case['obs']) % 2 == 0:
        # without a descriptor there is 'one row/column per row in the dataset' (docstring) -
        # also when the dataset happens to carry an observation descriptor called 'index' with
        # repeated values (e.g. a trial index within runs); a deterministic half of these cases
        od['index'] = [i // 2 for i in range(len(case['obs']))]
    if case['folds'] is not None:
        od['fold'] = gen.as_desc(case['folds'], case.get('fold_container', 'list'))
    return od


def make_dataset(case, x):
    # (the same values in C / Fortran / strided / transposed memory, by shape)
    return Dataset(gen.relayout(x), obs_descriptors=obs_descriptors(case))


def call_kwargs(case):
    kw = dict(method=case['method'],
              descriptor=None if case.get('descriptor_none') else 'cond',
              noise=None if case['noise'] is None else np.array(case['noise'], dtype=float),
              cv_descriptor='fold' if case['folds'] is not None else None,
              weighting=case['weighting'])
    if case['method'] in ('poisson', 'poisson_cv'):
        kw['prior_lambda'] = case['prior'][0]
        kw['prior_weight'] = case['prior'][1]
    return kw


def lib_unbalanced(case, x, sig='raises:calc_rdm_unbalanced'):
    """(labels, vector) from the library for measurement array x"""
    ds = make_dataset(case, x)
    r = lib(calc_rdm_unbalanced, ds, on_error='violation', sig=sig, **call_kwargs(case))
    key = 'index' if case.get('descriptor_none') else 'cond'
    labels = [core.tolist(v) for v in list(r.pattern_descriptors[key])]
    vec = np.asarray(r.dissimilarities, dtype=float)
    return labels, vec, r


_SUB_SCRIPT = ("import sys, json; sys.path.insert(0, %r); from vf.props import c15; "
               "c15._sub_main()")


def _sub_main():
    case = json.loads(sys.stdin.read())
    try:
        labels, vec, _ = lib_unbalanced(case, masked_meas(case))
        out = dict(labels=labels, vec=core.tolist(vec))
    except Violation as v:
        out = dict(error=v.msg)
    sys.stdout.write('\n@@RESULT@@' + json.dumps(out, allow_nan=True))


def lib_unbalanced_subprocess(case):
    """the kernel over-reads a heap buffer in this region: keep it out of the harness process"""
    p = subprocess.run([sys.executable, '-c', _SUB_SCRIPT % core.VERIF_DIR],
                       input=core.case_json(case), capture_output=True, text=True,
                       cwd=core.VERIF_DIR, env=dict(os.environ))
    if p.returncode != 0 or '@@RESULT@@' not in p.stdout:
        raise Violation('calc_rdm_unbalanced died in the sub-process (exit %d) on NaN channels '
                        'with a precision matrix' % p.returncode, SIG_KF_MAHA)
    out = json.loads(p.stdout.split('@@RESULT@@')[1])
    if 'error' in out:
        raise Violation(out['error'], SIG_KF_MAHA)
    return out['labels'], np.array(out['vec'], dtype=float)


def same_label(a, b):
    return ref._same(a, b)


def labels_equal(la, lb):
    return len(la) == len(lb) and all(same_label(a, b) for a, b in zip(la, lb))


def vec_by_pairs(vec, n):
    """vector -> dict (a,b)->value for a<b, row-major upper triangle"""
    return {pr: float(vec[k]) for k, pr in enumerate(ref.pairs(n))}


def reference(case):
    x = masked_meas(case)
    obs = list(range(len(case['meas']))) if case.get('descriptor_none') else case['obs']
    return R.unbalanced(x.tolist(), obs, ref_folds(case), case['method'], case['weighting'],
                        case['noise'], *(case['prior'] if case.get('prior') else (1.0, 0.1)))


def tol_for(case, scale):
    if case['method'] == 'correlation':
        return 1e-8, 1e-9
    return 1e-9, 1e-11 * scale + 1e-300


def compare_with_reference(case, labels, vec, rf, what):
    """library result (labels in library order) against the reference, pair by pair"""
    region = known_region(case)
    exp_labels = rf['labels']
    require(labels_equal(labels, exp_labels),
            '%s: conditions %r, expected order of first appearance %r' % (what, labels, exp_labels),
            region or 'labels')
    n = len(exp_labels)
    require(vec.shape == (1, ref.n_pairs(n)),
            '%s: dissimilarities shape %s for %d conditions' % (what, vec.shape, n), region or 'shape')
    got = vec_by_pairs(vec[0], n)
    undefined = [exp_labels[a] for a in range(n) if not rf['self_defined'][a]]
    for (a, b), g in got.items():
        e = rf['d'][a][b]
        pair = '(%r,%r)' % (exp_labels[a], exp_labels[b])
        if math.isnan(e):
            require(math.isnan(g), '%s: pair %s has no admissible product but library gives %r'
                    % (what, pair, g), region or 'nan:missing')
            continue
        if math.isnan(g):
            if region:
                sig = region
            elif undefined:
                sig = SIG_SPREAD
            else:
                sig = 'nan:unexpected'
            raise Violation('%s: pair %s is NaN, oracle %.10g (%d admissible products; conditions '
                            'with undefined self term: %r)' % (what, pair, e, rf['n_pairs'][a][b],
                                                               undefined), sig)
        rtol, atol = tol_for(case, rf['scale'][a][b])
        if not core.close(g, e, rtol, atol):
            raise Violation('%s: pair %s library %.12g vs oracle %.12g (method %s, weighting %s)'
                            % (what, pair, g, e, case['method'], case['weighting']),
                            region or 'value:%s:%s' % (case['method'], case['weighting']))


def run_library(case):
    if known_region(case) == SIG_KF_MAHA:
        labels, vec = lib_unbalanced_subprocess(case)
        return labels, vec
    labels, vec, _ = lib_unbalanced(case, masked_meas(case))
    return labels, vec


# ---------------------------------------------------------------------------
# metamorphic variants

def variants(case, labels, vec):
    """int == float, C == F, missing channel == deleted channel"""
    x = masked_meas(case)
    scale = float(np.nanmax(np.abs(x)) ** 2) if np.isfinite(x).any() else 1.0
    if case['noise'] is not None:
        scale *= float(np.abs(np.array(case['noise'])).sum(axis=1).max())
    # Fortran order
    xf = np.asfortranarray(x.copy())
    lf, vf_, _ = lib_unbalanced(case, xf, sig='raises:calc_rdm_unbalanced:fortran')
    require(labels_equal(lf, labels) and core.close(vf_, vec, 1e-12, 1e-13 * scale),
            'Fortran-ordered input: %s vs C-ordered %s' % (core._short(vf_), core._short(vec)),
            'c-vs-fortran')
    # read-only float64 storage (memory-mapped file, np.broadcast_to / np.frombuffer result, array
    # with flags.writeable = False, pandas copy-on-write export): the values held are what counts,
    # whatever the layout (C / Fortran / strided / transposed view by shape), with or without NaNs
    dro = make_dataset(case, x.astype(np.float64))
    frozen = dro.measurements
    frozen.flags.writeable = False
    before = frozen.copy()
    rro = lib(calc_rdm_unbalanced, dro, on_error='violation',
              sig='raises:calc_rdm_unbalanced:readonly', **call_kwargs(case))
    vro = np.asarray(rro.dissimilarities, dtype=float)
    require(vro.shape == vec.shape and core.close(vro, vec, 1e-12, 1e-13 * scale),
            'read-only float64 input: %s vs writable %s' % (core._short(vro), core._short(vec)),
            'readonly-vs-writable')
    require(np.array_equal(frozen, before, equal_nan=True),
            'read-only measurements changed by the call', 'readonly:mutated')
    # integer dtype
    if not has_mask(case) and np.all(x == np.round(x)):
        xi = x.astype(np.int64)
        li, vi, _ = lib_unbalanced(case, xi, sig='raises:calc_rdm_unbalanced:int')
        require(labels_equal(li, labels) and core.close(vi, vec, 1e-12, 1e-13 * scale),
                'integer input: %s vs float %s' % (core._short(vi), core._short(vec)),
                'int-vs-float')
        xi32 = x.astype(np.int32)
        li, vi, _ = lib_unbalanced(case, xi32, sig='raises:calc_rdm_unbalanced:int')
        require(labels_equal(li, labels) and core.close(vi, vec, 1e-12, 1e-13 * scale),
                'int32 input: %s vs float %s' % (core._short(vi), core._short(vec)),
                'int-vs-float')
        # narrow storage types (counts, pixel values): the numbers held are what counts
        for dt in (np.int16, np.int8, np.uint8):
            info = np.iinfo(dt)
            if x.min() >= info.min and x.max() <= info.max:
                li, vi, _ = lib_unbalanced(case, x.astype(dt), sig='raises:calc_rdm_unbalanced:int')
                require(labels_equal(li, labels) and core.close(vi, vec, 1e-12, 1e-13 * scale),
                        '%s input: %s vs float %s' % (np.dtype(dt).name, core._short(vi),
                                                      core._short(vec)), 'int-vs-float')
    # the precision matrix is 'used only for Mahalanobis and Crossnobis estimators' (docstring): the
    # other methods give the same numbers when one is passed along (one kwargs dict for all methods)
    if case['method'] in ('euclidean', 'poisson', 'poisson_cv') and known_region(case) is None \
            and not has_mask(case):
        p_ = x.shape[1]
        nz = 2.0 * np.eye(p_) + 0.25
        kw = call_kwargs(case)
        kw['noise'] = nz
        rn = lib(calc_rdm_unbalanced, make_dataset(case, x.copy()), on_error='violation',
                 sig='raises:calc_rdm_unbalanced:unused-noise', **kw)
        vn = np.asarray(rn.dissimilarities, dtype=float)
        require(core.close(vn, vec, 1e-12, 1e-13 * scale), "method %r with a precision matrix passed "
                "along: %s, without it %s" % (case['method'], core._short(vn), core._short(vec)),
                'unused-noise:' + case['method'])
    # a list of datasets: every option of the call (weighting, folds, prior, precision) applies to each
    # member -- two copies of the dataset give the single-dataset RDM twice
    if known_region(case) is None and not case.get('descriptor_none'):
        rl2 = lib(calc_rdm_unbalanced, [make_dataset(case, x.copy()), make_dataset(case, x.copy())],
                  on_error='violation', sig='raises:calc_rdm_unbalanced:dataset-list', **call_kwargs(case))
        v2 = np.asarray(rl2.dissimilarities, dtype=float)
        rt, at = tol_for(case, scale)
        require(v2.shape[0] == 2 and core.close(v2[0], vec[0], rt, at) and core.close(v2[1], vec[0], rt, at),
                'list of two copies of the dataset (weighting=%r): RDMs %s and %s, the single call gives '
                '%s' % (case['weighting'], core._short(v2[0]), core._short(v2[1]), core._short(vec[0])),
                'dataset-list:options')
    # a list of datasets with one precision per dataset: each RDM uses its own precision
    # (the distance is linear in the precision, so 2N gives twice the N values)
    if case['noise'] is not None and case['method'] in ('mahalanobis', 'crossnobis') \
            and not has_mask(case) and not case.get('descriptor_none'):
        nz = np.array(case['noise'], dtype=float)
        kw = call_kwargs(case)
        for form in ('list', 'array3d'):
            kw['noise'] = [nz.copy(), 2.0 * nz] if form == 'list' else np.array([nz, 2.0 * nz])
            rl = lib(calc_rdm_unbalanced, [make_dataset(case, x.copy()), make_dataset(case, x.copy())],
                     on_error='violation', sig='raises:calc_rdm_unbalanced:dataset-list', **kw)
            vl = np.asarray(rl.dissimilarities, dtype=float)
            require(vl.shape[0] == 2 and core.close(vl[0], vec[0], 1e-12, 1e-13 * scale)
                    and core.close(vl[1], 2.0 * vec[0], 1e-12, 2e-13 * scale),
                    'list of two datasets with precisions [N, 2N] (%s): RDMs %s and %s, the single '
                    'call with N gives %s' % (form, core._short(vl[0]), core._short(vl[1]),
                                              core._short(vec[0])), 'dataset-list:per-dataset-noise')
    # a channel missing everywhere == that channel deleted
    if has_mask(case) and known_region(case) is None:
        gone = [c for c in range(x.shape[1]) if np.isnan(x[:, c]).all()]
        if gone and len(gone) < x.shape[1]:
            keep = [c for c in range(x.shape[1]) if c not in gone]
            sub = dict(case)
            if case['noise'] is not None:
                sub['noise'] = np.array(case['noise'])[np.ix_(keep, keep)].tolist()
            ld, vd, _ = lib_unbalanced(sub, x[:, keep].copy(),
                                       sig='raises:calc_rdm_unbalanced:deleted-channel')
            rtol, atol = tol_for(case, scale)
            require(labels_equal(ld, labels) and core.close(vd, vec, rtol, atol),
                    'channels %r missing everywhere: %s vs channels deleted %s'
                    % (gone, core._short(vec), core._short(vd)), 'missing-channel-vs-deleted')


# ---------------------------------------------------------------------------
# agreement with the balanced estimator

def fold_balanced(case):
    """every condition has the same number (>=1) of observations in every fold"""
    if case['folds'] is None:
        return False
    labs = ref.first_appearance(case['obs'])
    fvals = ref.first_appearance(case['folds'])
    if len(fvals) < 2:
        return False
    for lab in labs:
        counts = [sum(1 for o, f in zip(case['obs'], case['folds']) if o == lab and f == fv)
                  for fv in fvals]
        if counts[0] < 1 or len(set(counts)) != 1:
            return False
    return True


def one_per_cond_fold(case):
    if not fold_balanced(case):
        return False
    labs = ref.first_appearance(case['obs'])
    fvals = ref.first_appearance(case['folds'])
    return len(case['obs']) == len(labs) * len(fvals)


def agreement_demanded(case):
    """does theory demand calc_rdm_unbalanced == calc_rdm for this case?"""
    if has_mask(case) or case.get('descriptor_none') and case['method'] in CV:
        return False
    m = case['method']
    single = len(set(map(repr, case['obs']))) == len(case['obs']) or case.get('descriptor_none')
    if m in NONCV:
        if case['folds'] is not None:
            return False
        return bool(single) or m in ('euclidean', 'mahalanobis')
    if m == 'crossnobis':
        return fold_balanced(case)
    return one_per_cond_fold(case)


def check_agreement(case, labels, vec):
    x = masked_meas(case)
    n = len(labels)
    got = vec_by_pairs(vec[0], n)
    obs = list(range(len(case['meas']))) if case.get('descriptor_none') else case['obs']
    prior = case['prior'] if case.get('prior') else (1.0, 0.1)
    if case['method'] == 'correlation':
        _, means = ref.cond_means(x, obs)
        if any(np.ptp(m) == 0 for m in means):
            return False
    blabels, bd = R.balanced(x, obs, case['folds'], case['method'], case['noise'], *prior)
    rf = reference(case)
    # (1) own fold-wise / condition-mean formula
    for (a, b), g in got.items():
        rtol, atol = tol_for(case, rf['scale'][a][b])
        atol *= 10
        if not core.close(g, bd[a, b], rtol, atol):
            raise Violation('pair (%r,%r): unbalanced %.12g vs balanced definition %.12g (method %s)'
                            % (labels[a], labels[b], g, bd[a, b], case['method']),
                            known_region(case) or 'agree:definition:' + case['method'])
    # (2) the library's balanced estimator, matched by label
    kw = call_kwargs(case)
    kw.pop('weighting')
    ds = make_dataset(case, x.copy())
    rb = lib(calc_rdm, ds, on_error='violation', sig='raises:calc_rdm:' + case['method'], **kw)
    key = 'index' if case.get('descriptor_none') else 'cond'
    if case.get('descriptor_none'):
        bl = list(range(n))
    else:
        bl = [core.tolist(v) for v in list(rb.pattern_descriptors[key])]
    require(sorted(map(repr, bl)) == sorted(map(repr, labels)),
            'calc_rdm conditions %r vs unbalanced %r' % (bl, labels), 'agree:labels')
    bvec = np.asarray(rb.dissimilarities, dtype=float)[0]
    bgot = vec_by_pairs(bvec, n)
    pos = {repr(l): i for i, l in enumerate(bl)}
    for (a, b), g in got.items():
        ia, ib = pos[repr(labels[a])], pos[repr(labels[b])]
        e = bgot[(min(ia, ib), max(ia, ib))]
        rtol, atol = tol_for(case, rf['scale'][a][b])
        atol *= 10
        if not core.close(g, e, rtol, atol):
            raise Violation('pair (%r,%r): calc_rdm_unbalanced %.12g vs calc_rdm %.12g (method %s, '
                            'own balanced formula %.12g)' % (labels[a], labels[b], g, e,
                                                             case['method'], bd[a, b]),
                            known_region(case) or 'agree:calc_rdm:' + case['method'])
    return True


# ---------------------------------------------------------------------------
# single-pair helper

def check_single_pair(case, labels, vec):
    """d_ab assembled from calc_one_similarity == full computation"""
    x = masked_meas(case)
    n = len(labels)
    obs = case['obs']
    rf = reference(case)
    crossval = crossval_of(case)
    folds = ref_folds(case)
    if crossval:
        _, codes = np.unique(np.array(folds), return_inverse=True)
        codes = codes.astype(np.int64)
    rows = [[i for i, o in enumerate(obs) if same_label(o, lab)] for lab in labels]
    noise = None if case['noise'] is None else np.array(case['noise'], dtype=float)
    kw = dict(method=case['method'], noise=noise, weighting=case['weighting'])
    if case['method'] in ('poisson', 'poisson_cv'):
        kw['prior_lambda'], kw['prior_weight'] = case['prior']
    subs = [Dataset(x[rows[a]].copy()) for a in range(n)]
    s = {}
    w = {}
    for a in range(n):
        for b in range(a, n):
            if crossval:
                cva, cvb = codes[rows[a]], codes[rows[b]]
            else:
                cva = np.arange(len(rows[a]), dtype=np.int64)
                cvb = -1 - np.arange(len(rows[b]), dtype=np.int64)
            val, wt = lib(calc_one_similarity, subs[a], subs[b], cva, cvb, on_error='violation',
                          sig='raises:calc_one_similarity', **kw)
            s[a, b] = float(val)
            w[a, b] = float(wt)
    # the helper on read-only float64 storage (sub-datasets cut out of a memory-mapped array):
    # same value and weight as on writable copies, first condition pair
    if known_region(case) is None and n >= 2:
        ro = []
        for a in (0, 1):
            d_ = Dataset(gen.relayout(x[rows[a]].astype(np.float64)))
            d_.measurements.flags.writeable = False
            ro.append(d_)
        if crossval:
            cva, cvb = codes[rows[0]], codes[rows[1]]
        else:
            cva = np.arange(len(rows[0]), dtype=np.int64)
            cvb = -1 - np.arange(len(rows[1]), dtype=np.int64)
        val, wt = lib(calc_one_similarity, ro[0], ro[1], cva, cvb, on_error='violation',
                      sig='raises:calc_one_similarity:readonly', **kw)
        require(core.close(float(val), s[0, 1], 1e-12, 1e-300) and float(wt) == w[0, 1],
                'calc_one_similarity(%r,%r) on read-only float64 input: (%r, %r), on writable copies '
                '(%r, %r)' % (labels[0], labels[1], float(val), float(wt), s[0, 1], w[0, 1]),
                'single-pair:readonly')
    got = vec_by_pairs(vec[0], n)
    for a in range(n):
        for b in range(a, n):
            # the helper's own value against the oracle's S_ab
            e = rf['s'][a][b]
            sc = rf['scale'][a][b] if a != b else 0.0
            if a == b:
                sc = max((rf['scale'][a][c] for c in range(n) if c != a), default=0.0)
            rtol, atol = tol_for(case, sc)
            if not core.close(s[a, b], e, rtol, atol):
                raise Violation('calc_one_similarity(%r,%r) = %.12g, oracle average %.12g '
                                '(method %s, weighting %s)' % (labels[a], labels[b], s[a, b], e,
                                                               case['method'], case['weighting']),
                                'single-pair:value')
            require((w[a, b] > 0) == (rf['n_pairs'][a][b] > 0),
                    'calc_one_similarity(%r,%r) weight %r with %d admissible products'
                    % (labels[a], labels[b], w[a, b], rf['n_pairs'][a][b]), 'single-pair:weight')
    undefined = [labels[a] for a in range(n) if not rf['self_defined'][a]]
    for (a, b), g in got.items():
        d = s[a, a] + s[b, b] - 2 * s[a, b]
        rtol, atol = tol_for(case, rf['scale'][a][b])
        if math.isnan(g) and not math.isnan(d):
            raise Violation('pair (%r,%r): full computation NaN, assembled from calc_one_similarity '
                            '%.10g (undefined self terms: %r)' % (labels[a], labels[b], d, undefined),
                            SIG_SPREAD if undefined else 'single-pair:nan')
        if not core.close(g, d, rtol, atol):
            raise Violation('pair (%r,%r): full computation %.12g vs s_aa+s_bb-2s_ab from '
                            'calc_one_similarity %.12g' % (labels[a], labels[b], g, d),
                            'single-pair:assembly')


# ---------------------------------------------------------------------------
# check functions

def check_reference(case):
    labels, vec = run_library(case)
    rf = reference(case)
    compare_with_reference(case, labels, vec, rf, 'calc_rdm_unbalanced')
    if known_region(case) is None:
        variants(case, labels, vec)
        if agreement_demanded(case):
            check_agreement(case, labels, vec)


def check_agree(case):
    labels, vec = run_library(case)
    rf = reference(case)
    compare_with_reference(case, labels, vec, rf, 'calc_rdm_unbalanced')
    require(agreement_demanded(case), 'harness: generator produced a case without demanded '
            'agreement', 'harness:agreement-generator')
    check_agreement(case, labels, vec)


def check_pair(case):
    if case.get('descriptor_none'):
        raise Reject('no descriptor', 'harness:descriptor-none')
    labels, vec = run_library(case)
    rf = reference(case)
    require(labels_equal(labels, rf['labels']), 'conditions %r, expected %r' % (labels, rf['labels']),
            'labels')
    check_single_pair(case, labels, vec)


def check_undefined(case):
    labels, vec = run_library(case)
    rf = reference(case)
    n = len(rf['labels'])
    und = [a for a in range(n) if not rf['self_defined'][a]]
    compare_with_reference(case, labels, vec, rf, 'calc_rdm_unbalanced')
    # the NaN pattern is exactly the pairs without a valid product
    got = vec_by_pairs(vec[0], n)
    for (a, b), g in got.items():
        exp_nan = (a in und) or (b in und) or rf['n_pairs'][a][b] == 0
        require(math.isnan(g) == exp_nan, 'pair (%r,%r): NaN=%s, expected NaN=%s'
                % (labels[a], labels[b], math.isnan(g), exp_nan),
                SIG_SPREAD if math.isnan(g) else 'nan:missing')


# ---------------------------------------------------------------------------
# generators

def _bump_constant_rows(mat):
    """construction instead of rejection: a constant pattern gets +1 on its first channel"""
    mat = [list(r) for r in mat]
    for r in mat:
        if max(r) == min(r):
            r[0] += 1.0
    return mat


@st.composite
def values(draw, n, p, method):
    if method in ('poisson', 'poisson_cv'):
        kind = draw(st.sampled_from(['counts', 'counts', 'pos']))
        if kind == 'counts':
            el = st.integers(0, 12).map(float)
        else:
            el = st.integers(1, 64).map(lambda k: k / 8.0)
        return draw(st.lists(st.lists(el, min_size=p, max_size=p), min_size=n, max_size=n))
    if method == 'correlation':
        kind = draw(st.sampled_from(['grid', 'smallint']))
        return _bump_constant_rows(draw(gen.matrix(n, p, kind=kind, kmax=16)))
    if draw(st.integers(0, 2)) == 0:
        return draw(gen.matrix(n, p, kind='ubyte'))     # pixel values / counts up to 255
    return draw(gen.matrix(n, p))


@st.composite
def prior(draw):
    return [draw(st.sampled_from([1.0, 0.5, 2.0, 3.0])), draw(st.sampled_from([0.1, 0.25, 1.0]))]


FOLD_INT = [2, 0, 11, -3, 5]
FOLD_STR = ['r2', 'r10', 'a', 'r1', 'B']
# fold labels are labels: fractional run numbers (1.5 = second half of run 1) and booleans too
FOLD_FLOAT = [1.0, 1.5, 2.0, 2.5, 0.25, -1.5]


@st.composite
def fold_values(draw, m):
    pool = draw(st.sampled_from([FOLD_INT, FOLD_STR, FOLD_FLOAT]))
    idx = draw(st.lists(st.integers(0, len(pool) - 1), min_size=m, max_size=m, unique=True))
    return [pool[i] for i in idx]


@st.composite
def mask_for(draw, n, p, kinds):
    """(kind, n x p 0/1 mask or None)"""
    kind = draw(st.sampled_from(kinds))
    if kind == 'none':
        return kind, None
    mask = [[0] * p for _ in range(n)]
    if kind in ('perobs', 'whole+perobs'):
        bits = draw(st.lists(st.lists(st.integers(0, 3), min_size=p, max_size=p),
                             min_size=n, max_size=n))
        mask = [[1 if b == 0 else 0 for b in row] for row in bits]
    if kind in ('whole', 'whole+perobs'):
        k = draw(st.integers(1, max(1, p - 1)))
        cols = draw(st.lists(st.integers(0, p - 1), min_size=k, max_size=k, unique=True))
        for row in mask:
            for c in cols:
                row[c] = 1
    if kind == 'disjoint':
        i = draw(st.integers(0, n - 1))
        j = (i + draw(st.integers(1, n - 1))) % n
        split = draw(st.lists(st.booleans(), min_size=p, max_size=p))
        if all(split) or not any(split):
            split[0] = not split[0]
        mask[i] = [1 if s_ else 0 for s_ in split]
        mask[j] = [0 if s_ else 1 for s_ in split]
    if kind == 'allnan_obs':
        i = draw(st.integers(0, n - 1))
        mask[i] = [1] * p
    if not any(any(r) for r in mask):
        mask[draw(st.integers(0, n - 1))][draw(st.integers(0, p - 1))] = 1
    return kind, mask


def _divert(case):
    """leave the three kernel-defect regions by construction; count what was diverted"""
    div = []
    if has_mask(case) and case['method'] == 'correlation':
        case['mask'] = None
        case['mask_kind'] = 'none'
        div.append('nan*correlation')
    if has_mask(case) and case['method'] in ('mahalanobis', 'crossnobis') and case['noise'] is not None:
        if case.pop('keep_mask', False):
            case['noise'] = None      # same kernel path as euclidean, NaN handling stays under test
        else:
            case['mask'] = None
            case['mask_kind'] = 'none'
        div.append('nan*precision')
    case.pop('keep_mask', None)
    if case['weighting'] == 'equal' and not crossval_of(case):
        case['weighting'] = 'number'
        div.append('equal*no-crossval')
    case['diverted'] = div
    return case


MASK_KINDS = ['none', 'none', 'whole', 'perobs', 'perobs', 'whole+perobs', 'disjoint', 'allnan_obs']


@st.composite
def free_case(draw, methods=METHODS, mask_kinds=MASK_KINDS):
    method = draw(st.sampled_from(methods))
    fold_mode = draw(st.sampled_from(['none', 'random', 'spread', 'spread']))
    des = draw(gen.design(n_cond_range=(2, 5), reps_range=(2, 3) if fold_mode == 'spread' else (1, 3),
                          balanced=False))
    obs = des['obs']
    n = len(obs)
    p = draw(st.integers(2, 6))
    folds = None
    if fold_mode == 'random':
        fv = draw(fold_values(draw(st.integers(2, 4))))
        folds = [fv[i] for i in draw(st.lists(st.integers(0, len(fv) - 1), min_size=n, max_size=n))]
    elif fold_mode == 'spread':
        m = draw(st.integers(max(des['reps']), 4))
        fv = draw(fold_values(m))
        offs = {repr(lab): draw(st.integers(0, m - 1)) for lab in des['labels']}
        seen = {}
        folds = []
        for o in obs:
            k = seen.get(repr(o), 0)
            seen[repr(o)] = k + 1
            folds.append(fv[(offs[repr(o)] + k) % m])
    meas = draw(values(n, p, method))
    noise = None
    if method in ('mahalanobis', 'crossnobis') and draw(st.integers(0, 3)) > 0:
        noise = draw(gen.spd(p))
    mask_kind, mask = draw(mask_for(n, p, mask_kinds))
    if mask_kind in ('perobs', 'whole+perobs', 'disjoint') and method in ('euclidean', 'mahalanobis') \
            and (folds is None or draw(st.booleans())):
        # repeated presentations of (almost) the same stimulus under two labels: the patterns of the
        # second condition are those of the first plus a small difference.  With channels missing
        # for single observations the average of the valid products may then be slightly negative --
        # it is still that average
        labs = des['labels']
        rows0 = [i for i, o in enumerate(obs) if o == labs[0]]
        meas = [list(r) for r in meas]
        k = 0
        for i, o in enumerate(obs):
            if o == labs[1]:
                src = meas[rows0[k % len(rows0)]]
                meas[i] = [v + (0.125 if (k + j) % 3 == 0 else 0.0) for j, v in enumerate(src)]
                k += 1
    case = dict(obs=obs, kind=des['kind'], folds=folds, fold_mode=fold_mode, meas=meas, mask=mask,
                mask_kind=mask_kind, method=method, weighting=draw(st.sampled_from(['number', 'equal'])),
                noise=noise, prior=draw(prior()), container=draw(gen.container),
                fold_container=draw(gen.container), descriptor_none=False,
                keep_mask=draw(st.booleans()))
    return _divert(case)


@st.composite
def agree_case(draw):
    mode = draw(st.sampled_from(['single', 'reps', 'foldbal', 'foldbal']))
    p = draw(st.integers(2, 6))
    folds = None
    descriptor_none = False
    if mode == 'single':
        method = draw(st.sampled_from(NONCV))
        des = draw(gen.design(n_cond_range=(2, 6), reps_range=(1, 1)))
        obs = des['obs']
        descriptor_none = draw(st.integers(0, 2)) == 0
    elif mode == 'reps':
        method = draw(st.sampled_from(['euclidean', 'mahalanobis']))
        des = draw(gen.design(n_cond_range=(2, 5), reps_range=(1, 4), balanced=False))
        obs = des['obs']
    else:
        method = draw(st.sampled_from(CV))
        m = draw(st.integers(2, 4))
        n_cond = draw(st.integers(2, 4))
        kind, labs = draw(gen.label_set(n_cond))
        if method == 'poisson_cv':
            reps = [1] * n_cond
        else:
            reps = draw(st.lists(st.integers(1, 2), min_size=n_cond, max_size=n_cond))
        fv = draw(fold_values(m))
        rows = [(lab, f) for lab, r in zip(labs, reps) for f in fv for _ in range(r)]
        perm = draw(gen.permutation(len(rows)))
        rows = [rows[i] for i in perm]
        obs = [r[0] for r in rows]
        folds = [r[1] for r in rows]
        des = dict(kind=kind)
    n = len(obs)
    meas = draw(values(n, p, method))
    noise = None
    if method in ('mahalanobis', 'crossnobis') and draw(st.integers(0, 3)) > 0:
        noise = draw(gen.spd(p))
    case = dict(obs=obs, kind=des['kind'], folds=folds, fold_mode='balanced' if folds else 'none',
                meas=meas, mask=None, mask_kind='none', method=method,
                weighting=draw(st.sampled_from(['number', 'equal'])), noise=noise, prior=draw(prior()),
                container=draw(gen.container), fold_container=draw(gen.container),
                descriptor_none=descriptor_none, mode=mode)
    return _divert(case)


@st.composite
def undefined_case(draw):
    """some conditions (never all but one) have no admissible within-condition product"""
    n_cond = draw(st.integers(3, 5))
    kind, labs = draw(gen.label_set(n_cond))
    n_und = draw(st.integers(1, n_cond - 2))
    und = set(draw(st.lists(st.integers(0, n_cond - 1), min_size=n_und, max_size=n_und, unique=True)))
    how = draw(st.sampled_from(['fold', 'fold', 'allnan']))
    p = draw(st.integers(2, 5))
    rows = []
    if how == 'fold':
        method = draw(st.sampled_from(METHODS))
        m = draw(st.integers(2, 4))
        fv = draw(fold_values(m))
        for a, lab in enumerate(labs):
            if a in und:
                f = draw(st.integers(0, m - 1))
                for _ in range(draw(st.integers(1, 2))):
                    rows.append((lab, fv[f], 0))
            else:
                r = draw(st.integers(2, 3))
                off = draw(st.integers(0, m - 1))
                for k in range(r):
                    rows.append((lab, fv[(off + k) % m], 0))
    else:
        method = draw(st.sampled_from(['euclidean', 'poisson', 'mahalanobis']))
        for a, lab in enumerate(labs):
            if a in und:
                for _ in range(draw(st.integers(1, 2))):
                    rows.append((lab, None, 1))
            else:
                for _ in range(draw(st.integers(1, 3))):
                    rows.append((lab, None, 0))
    perm = draw(gen.permutation(len(rows)))
    rows = [rows[i] for i in perm]
    obs = [r[0] for r in rows]
    n = len(obs)
    folds = [r[1] for r in rows] if how == 'fold' else None
    meas = draw(values(n, p, method))
    mask = None
    noise = None
    if how == 'allnan':
        mask = [[1] * p if r[2] else [0] * p for r in rows]
    elif method in ('mahalanobis', 'crossnobis') and draw(st.booleans()):
        noise = draw(gen.spd(p))
    case = dict(obs=obs, kind=kind, folds=folds, fold_mode='confined' if folds else 'none', meas=meas,
                mask=mask, mask_kind='allnan_obs' if mask else 'none', method=method,
                weighting=draw(st.sampled_from(['number', 'equal'])), noise=noise, prior=draw(prior()),
                container=draw(gen.container), fold_container=draw(gen.container),
                descriptor_none=False, how=how)
    return _divert(case)


# ---------------------------------------------------------------------------
# classification

def classify(case):
    obs = case['obs']
    counts = {}
    for o in obs:
        counts[repr(o)] = counts.get(repr(o), 0) + 1
    reps = sorted(counts.values())
    unbalanced = len(set(reps)) > 1
    labs = ref.first_appearance(obs)
    labels = ['method:' + case['method'], 'weighting:' + case['weighting'],
              'mask:' + case.get('mask_kind', 'none'), 'folds:' + case.get('fold_mode', 'none'),
              'reps:unbalanced' if unbalanced else ('reps:1' if reps[-1] == 1 else 'reps:equal'),
              'labels:' + case.get('kind', '?'),
              'order:sorted' if gen.is_sorted_labels(labs) else 'order:unsorted',
              'precision:yes' if case['noise'] is not None else 'precision:no']
    for d in case.get('diverted', []):
        labels.append('diverted:' + d)
    if case.get('descriptor_none'):
        labels.append('descriptor:none')
    if case.get('mode'):
        labels.append('agree-mode:' + case['mode'])
    if not has_mask(case) and all(float(v).is_integer() for r in case['meas'] for v in r):
        labels.append('int-variant')
    try:
        if agreement_demanded(case):
            labels.append('agreement-demanded')
    except Exception:  # noqa: BLE001
        pass
    nt = unbalanced or has_mask(case) or case['folds'] is not None
    return labels, bool(nt)


SUBCHECKS = [
    SubCheck('reference', free_case(), check_reference, classify, quick=1400, thorough=20000,
             doc='every pair value == explicit-loop average over admissible observation pairs '
                 '(six methods, both weightings, NaN masks, folds), labels in order of first '
                 'appearance; int==float, C==Fortran, channel missing everywhere == deleted; '
                 'agreement with calc_rdm when the drawn design demands it'),
    SubCheck('agreement', agree_case(), check_agree, classify, quick=900, thorough=12000,
             doc='designs where theory demands it: calc_rdm_unbalanced == calc_rdm by label and == own '
                 'formula (one observation per condition: four methods; any repetitions: euclidean, '
                 'mahalanobis; fold-balanced: crossnobis; one per condition and fold: poisson_cv)'),
    SubCheck('single_pair', free_case(), check_pair, classify, quick=1000, thorough=12000,
             doc='calc_one_similarity per condition pair == oracle average, and s_aa+s_bb-2s_ab == '
                 'full computation'),
    SubCheck('undefined_self', undefined_case(), check_undefined, classify, quick=500, thorough=6000,
             doc='conditions without any admissible within-condition product (confined to one fold, '
                 'single observation under cross-validation, all channels missing): NaN exactly for '
                 'pairs involving them, all other pairs keep their value'),
]
