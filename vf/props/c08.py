"""C08 - fitted model parameters maximise the training criterion within constraints;
model prediction API consistency."""
import itertools
import math

import contextlib
import numpy as np
from hypothesis import strategies as st

from vf import core, gen, ref
from vf.core import SubCheck, Violation, Reject, Inconclusive, lib, require, require_close

from rsatoolbox.model import (ModelFixed, ModelSelect, ModelWeighted, ModelInterpolate,
                              model_from_dict)
from rsatoolbox.model import fitter as F
from rsatoolbox.rdm import RDMs

METHODS = ['cosine', 'corr', 'cosine_cov', 'corr_cov']

RULE = ("Generated fitting problems: 4-6 conditions with 'index' and a label descriptor, 2-4 basis / "
        "2-5 candidate RDMs made linearly independent by construction, 1-5 training RDMs (noisy positive "
        "mixtures of the basis, their mirror image (negative similarities) or unrelated vectors), optional common missing entries, optional pattern "
        "selection of 4-7 indices with repeats (training data = the sample of the full data for the sorted "
        "selection, same-condition pairs NaN), methods cosine / corr / cosine_cov / corr_cov with sigma_k "
        "None or a generated SPD matrix, normalise on/off. Oracle: own similarity on the explicitly "
        "expanded vectors (dense V, entries deleted); the fit must score at least as high as the harness's "
        "own (G)LS / NNLS-by-active-set-enumeration solution and as every generated competitor (random "
        "vectors, local perturbations, sign flips, simplex vertices; all candidates for select; 41 grid "
        "mixtures per segment for interpolate); constraints; bit-identical theta when only unselected "
        "conditions change; equality with the fit on explicitly duplicated conditions. BFGS fitters: "
        "constraints, restriction and same-seed reproducibility only. Model API: predict vs predict_rdm "
        "for generated and default theta, linearity, descriptors, dict round trip. Non-trivial: >=3 "
        "basis/candidate RDMs or repeated pattern indices or missing entries; distinct by SHA1.")
ASSUMPTIONS = [
    "1-D sigma_k is outside the fitters' domain (util.matrix.get_v does not accept it)",
    "fit_optimize / fit_optimize_positive (multi-start BFGS) are not asserted optimal; the gap to the "
    "harness's own optimum is reported as a statistic",
    "missing entries are common to basis and training RDMs (the fitters refuse differing NaN positions)",
    "a fit that returns the zero vector is taken to score 0 (no prediction)",
    "numpy.linalg.solve / inv are trusted for the harness's own least-squares solutions",
    "ModelFixed is built from a single RDM (vector, matrix or RDMs object)",
    "ModelInterpolate's parameter domain is theta >= 0 (predict_rdm documents the clamp)",
]

TOL = {False: 1e-8, True: 1e-5}     # optimality tolerance without / with V (library uses cg rtol 1e-5)
TOL_INTERP = 1e-7
W_TOL = 3e-5
_STATS = {'bfgs_gap_max': 0.0, 'bfgs_cases': 0, 'regress_gap_max_plain': 0.0, 'regress_gap_max_cov': 0.0,
          'interp_gap_max': 0.0}
_STAT_DIR = '/tmp'


def _stat(key, value, count=False):
    """optimality-gap statistics; workers are forked, so each writes its own small file that the
    parent merges in evidence_extra (never used for a verdict)"""
    import json
    import os
    if count:
        _STATS[key] += value
    elif value > _STATS[key]:
        _STATS[key] = float(value)
    else:
        return
    try:
        with open(os.path.join(_STAT_DIR, 'vf_c08_stats_%d_%d.json' % (os.getppid(), os.getpid())), 'w') as f:
            json.dump(_STATS, f)
    except OSError:
        pass


def evidence_extra():
    import glob
    import json
    import os
    tot = dict(_STATS)
    for path in glob.glob(os.path.join(_STAT_DIR, 'vf_c08_stats_%d_*.json' % os.getpid())):
        try:
            with open(path) as f:
                d = json.load(f)
            os.remove(path)
        except (OSError, ValueError):
            continue
        for k, v in d.items():
            tot[k] = tot[k] + v if k.endswith('_cases') else max(tot[k], v)
    return {'statistics': tot}


# ---------------------------------------------------------------------------
# reference scorer on explicitly expanded vectors

class Scorer:
    """mean similarity of a prediction vector with the training vectors; own formulas.
    data: t x P array (NaN = missing, common to all rows); n: number of (sampled) conditions"""

    def __init__(self, method, data, n, sigma):
        data = np.asarray(data, dtype=float)
        self.method = method
        self.keep = ~np.isnan(data[0])
        for row in data:
            if not np.array_equal(~np.isnan(row), self.keep):
                raise Reject('differing NaN masks', 'degenerate:nan-mask')
        self.center = method.startswith('corr')
        self.cov = method.endswith('_cov')
        if self.cov:
            v = ref.dense_v(n, sigma)[self.keep][:, self.keep]
            self.w = np.linalg.inv(v)
        else:
            self.w = None
        rows = []
        for row in data:
            d = self._prep(row)
            nd = self._norm(d)
            if not nd > 1e-9:
                raise Reject('constant training RDM', 'degenerate:constant-data')
            rows.append(d / nd)
        self.ybar = np.mean(np.array(rows), axis=0)

    def _prep(self, vec):
        x = np.asarray(vec, dtype=float)[self.keep]
        if self.center:
            x = x - sum(x) / len(x)
        return x

    def _dot(self, a, b):
        if self.w is None:
            return float(a @ b)
        return float(a @ self.w @ b)

    def _norm(self, a):
        return math.sqrt(max(self._dot(a, a), 0.0))

    def score(self, pred):
        """pred: length-P prediction (NaN at missing entries allowed)"""
        p = self._prep(pred)
        n_p = self._norm(p)
        if not n_p > 0:         # (exactly zero: predictions may live in any unit)
            return 0.0
        return self._dot(p, self.ybar) / n_p

    def design(self, basis):
        """prepared (centred, entry-deleted) basis rows"""
        return np.array([self._prep(b) for b in basis])

    def ls(self, basis, subset=None):
        """own (generalised) least-squares weights for the basis rows in subset"""
        x = self.design(basis)
        k = x.shape[0]
        idx = list(range(k)) if subset is None else list(subset)
        xs = x[idx]
        xw = xs if self.w is None else xs @ self.w
        g = xw @ xs.T
        rhs = xw @ self.ybar
        th = np.zeros(k)
        th[idx] = np.linalg.solve(g, rhs)
        return th

    def gram_cond(self, basis):
        x = self.design(basis)
        xw = x if self.w is None else x @ self.w
        g = xw @ x.T
        d = np.sqrt(np.maximum(np.diag(g), 1e-300))
        return float(np.linalg.cond(g / np.outer(d, d)))

    def nnls(self, basis):
        """best non-negative weights by enumerating all active sets (KKT: the optimum is the
        unconstrained solution on its support)"""
        k = len(basis)
        best, best_s = np.zeros(k), 0.0
        for r in range(1, k + 1):
            for sub in itertools.combinations(range(k), r):
                try:
                    th = self.ls(basis, sub)
                except np.linalg.LinAlgError:
                    continue
                if np.all(th >= 0) and np.any(th > 0):
                    s = self.score(predict_vec(basis, th))
                    if s > best_s:
                        best, best_s = th, s
        return best, best_s


def predict_vec(basis, theta):
    """sum_k theta_k basis_k with explicit accumulation; NaN entries stay NaN"""
    basis = np.asarray(basis, dtype=float)
    out = np.zeros(basis.shape[1])
    for k in range(basis.shape[0]):
        out = out + float(theta[k]) * basis[k]
    return out


# ---------------------------------------------------------------------------
# problem generator shared by all fitting sub-checks

LABELS = [3, -2, 10, 0, 7, 21, 5]


@st.composite
def problem(draw, n_basis_range=(2, 4), independent=True, max_train=5):
    """a fitting problem without the method: every check runs all four methods on it"""
    n = draw(st.integers(4, 6))
    P = ref.n_pairs(n)
    # mode decisions first, bulk values last
    sel_mode = draw(st.sampled_from(['all', 'subset', 'repeats', 'repeats']))
    nan_mode = draw(st.sampled_from(['none', 'none', 'some']))
    sigma_mode = draw(st.sampled_from(['none', 'matrix']))
    desc = draw(st.sampled_from(['index', 'lab']))
    kind = draw(st.sampled_from(['mixture', 'mixture', 'unrelated', 'anti']))
    k_want = draw(st.integers(*n_basis_range))
    t = draw(st.integers(1, max_train))
    # selection: at least four distinct conditions (six distinct pairs)
    if sel_mode == 'all':
        idx = None
    elif sel_mode == 'subset':
        m = draw(st.integers(4, n))
        idx = list(draw(st.permutations(list(range(n)))))[:m]
    else:
        m = draw(st.integers(5, 7))
        idx = draw(st.lists(st.integers(0, n - 1), min_size=m, max_size=m))
        cand = [c for c in range(n) if c not in set(idx)]
        j = 0
        while len(set(idx)) < 4:
            # replace a duplicated entry by an unused condition
            dup = [q for q in range(len(idx)) if idx.count(idx[q]) > 1]
            idx[dup[0]] = cand.pop(0)
            j += 1
        if len(set(idx)) == len(idx):   # force one repeat
            idx[-1] = idx[0]
    uniq = sorted(set(idx)) if idx is not None else list(range(n))
    prs = ref.pairs(n)
    live = [e for e, (i, j) in enumerate(prs) if i in uniq and j in uniq]
    nan_pairs = []
    if nan_mode == 'some':
        cnt = draw(st.integers(1, 2))
        pos = draw(st.lists(st.integers(0, len(live) - 1), min_size=cnt, max_size=cnt))
        nan_pairs = sorted({live[q] for q in pos})
    usable = len(live) - len(nan_pairs)     # distinct non-missing pairs among the selected conditions
    if independent:
        k = max(min(2, k_want), min(k_want, usable - 3))
    else:
        k = k_want
    # basis: positive entries plus a spike on a distinct usable pair (independence by construction)
    el = st.integers(1, 32)
    good = [e for e in live if e not in nan_pairs]
    order = list(draw(st.permutations(good)))
    basis = []
    # count-valued basis RDMs (Hamming distances, numbers of differing features): whole numbers up
    # to 120 -- held in a narrow unsigned integer array when nothing is missing
    counts = draw(st.integers(0, 3)) == 0
    for b in range(k):
        if counts:
            vec = [float(x) for x in draw(st.lists(st.integers(0, 60), min_size=P, max_size=P))]
            vec[order[b % len(order)]] += 60.0
        else:
            vec = [x / 8.0 for x in draw(st.lists(el, min_size=P, max_size=P))]
            vec[order[b % len(order)]] += 6.0
        basis.append(vec)
    data = []
    for _ in range(t):
        if kind in ('mixture', 'anti'):
            w = draw(st.lists(st.integers(0, 8), min_size=k, max_size=k))
            if sum(w) == 0:
                w[0] = 1
            noise = draw(st.lists(st.integers(-16, 16), min_size=P, max_size=P))
            amp = draw(st.sampled_from([0.0625, 0.25, 1.0]))
            vec = [sum(w[b] * basis[b][e] for b in range(k)) / 4.0 + amp * noise[e] for e in range(P)]
            if kind == 'anti':      # negatively related to the basis (similarities below zero)
                top = max(vec) + 1.0
                vec = [top - x for x in vec]
        else:
            vec = [x / 8.0 for x in draw(st.lists(el, min_size=P, max_size=P))]
        if max(vec[e] for e in good) == min(vec[e] for e in good):
            vec[good[0]] += 1.0
        data.append(vec)
    sigma = None
    if sigma_mode == 'matrix':
        sigma = draw(gen.spd(len(idx) if idx is not None else n))
    comps = draw(st.lists(st.lists(st.integers(-12, 12), min_size=k, max_size=k), min_size=3, max_size=5))
    deltas = draw(st.lists(st.lists(st.sampled_from([-0.25, -1 / 16.0, 0.0, 1 / 16.0, 0.25]),
                                    min_size=k, max_size=k), min_size=2, max_size=3))
    perturb = draw(st.lists(st.integers(1, 16), min_size=4, max_size=4))
    # the 'index' descriptor of model and data: 0..n-1, or the values an earlier subset / reorder of
    # a larger object leaves behind (distinct, not contiguous, not necessarily ascending)
    index_vals = None
    if draw(st.booleans()):
        pool = list(draw(st.permutations(list(range(12)))))[:n]
        index_vals = pool if draw(st.booleans()) else sorted(pool)
    return dict(n=n, basis=basis, data=data, nan_pairs=nan_pairs, idx=idx, sigma=sigma,
                desc=desc, kind=kind, comps=comps, deltas=deltas, perturb=perturb, index_vals=index_vals)


class Built:
    """library objects + expanded reference vectors for a problem case"""

    def __init__(self, case, method, basis=None):
        n = case['n']
        P = ref.n_pairs(n)
        self.n = n
        basis = np.array(case['basis'] if basis is None else basis, dtype=float) * 2.0 ** case.get('basis_unit', 0)
        data = np.array(case['data'], dtype=float) * 2.0 ** case.get('data_unit', 0)
        if case.get('basis_units'):
            basis = basis * (2.0 ** np.array(case['basis_units'], dtype=float))[:, None]
        for e in case['nan_pairs']:
            basis[:, e] = np.nan
            data[:, e] = np.nan
        self.basis_full = basis
        idx = case['idx']
        self.sidx = sorted(idx) if idx is not None else list(range(n))
        self.n_sel = len(self.sidx)
        labs = LABELS[:n]
        self.desc = case['desc']
        ivals = [int(v) for v in (case.get('index_vals') or range(n))]
        pd_full = {'index': list(ivals), 'lab': list(labs)}
        held = basis.copy()
        self.int_basis = bool(not case['nan_pairs'] and np.all(basis == np.round(basis))
                              and np.abs(basis).max() < 2.0 ** 40
                              and ((len(basis) + n) % 2 == 0 or np.abs(basis).max() <= 255))
        if self.int_basis:
            # integral basis RDMs (counts, rank codes, category models in large units) held in an
            # integer array: the model RDMs keep the dtype they are given (narrow unsigned for
            # small counts, by the parity of their sum)
            narrow = held.min() >= 0 and held.max() <= 255
            held = held.astype(np.uint8 if narrow else np.int64)
        self.model_rdms = RDMs(held, pattern_descriptors={k: list(v) for k, v in pd_full.items()},
                               dissimilarity_measure='euclidean')
        # training sample: the full data restricted to the sorted selection (own construction)
        self.data_exp = ref.sample_rdm_vectors(data, n, list(range(len(data))), self.sidx)
        self.basis_exp = ref.sample_rdm_vectors(basis, n, list(range(len(basis))), self.sidx)
        pd_s = {'index': [ivals[i] for i in self.sidx], 'lab': [labs[i] for i in self.sidx]}
        self.data_rdms = RDMs(self.data_exp.copy(), pattern_descriptors=pd_s,
                              dissimilarity_measure='euclidean')
        if idx is None:
            self.fit_kw = {}
        else:
            vals = [ivals[i] for i in idx] if self.desc == 'index' else [labs[i] for i in idx]
            self.fit_kw = dict(pattern_idx=np.array(vals), pattern_descriptor=self.desc)
        self.sigma = None
        if case['sigma'] is not None and method.endswith('_cov'):
            self.sigma = np.array(case['sigma'], dtype=float)
        self.method = method
        self.scorer = Scorer(self.method, self.data_exp, self.n_sel, self.sigma)
        if not np.array_equal(~np.isnan(self.basis_exp[0]), self.scorer.keep):
            raise Reject('mask mismatch', 'degenerate:nan-mask')

    def score_theta(self, theta):
        return self.scorer.score(predict_vec(self.basis_exp, theta))

    def unselected(self):
        return [c for c in range(self.n) if c not in set(self.sidx)]


def perturbed_basis(case, built):
    """basis with every entry that involves an unselected condition changed"""
    uns = set(built.unselected())
    basis = [list(b) for b in case['basis']]
    prs = ref.pairs(case['n'])
    # (whole-number steps for count-valued basis RDMs, so that the changed basis is held in the same
    # storage type as the original and the two fits run the same arithmetic)
    whole = all(float(v) == round(float(v)) for row in basis for v in row)
    for b in range(len(basis)):
        for e, (i, j) in enumerate(prs):
            if i in uns or j in uns:
                basis[b][e] += case['perturb'][(b + e) % 4] / (1.0 if whole else 4.0)
    return basis


def problem_labels(case, prefix):
    idx = case['idx']
    labels = [prefix + 'basis=%d' % len(case['basis']),
              prefix + 'train=%d' % min(len(case['data']), 3) + ('+' if len(case['data']) >= 3 else ''),
              prefix + ('sel:none' if idx is None else 'sel:repeats' if len(set(idx)) < len(idx)
                        else 'sel:subset'),
              prefix + ('nan' if case['nan_pairs'] else 'no-nan'),
              prefix + ('sigma:matrix' if case['sigma'] is not None else 'sigma:none'),
              prefix + 'desc:' + case['desc'], prefix + 'data:' + case['kind'],
              prefix + 'index:' + ('default' if not case.get('index_vals') else 'inherited')]
    nt = len(case['basis']) >= 3 or (idx is not None and len(set(idx)) < len(idx)) or bool(case['nan_pairs'])
    return labels, nt


def built_kw(built):
    return dict(built.fit_kw)


def call_fit(fn, model, built, sig, on_error='violation', **extra):
    kw = dict(method=built.method, sigma_k=built.sigma)
    kw.update(built.fit_kw)
    kw.update(extra)
    with core.watchdog(20), step_budget(sig):
        return lib(fn, model, built.data_rdms, on_error=on_error, sig=sig, **kw)


class _CountingNumpy:
    """stands in for the `np` name inside rsatoolbox.model.fitter for one call: counts np.max
    evaluations (the loop condition of the active-set solver) so that non-termination is decided
    by a step count - a deterministic oracle - instead of by the wall clock"""

    def __init__(self, real, budget):
        self._real, self._budget, self.count = real, budget, 0

    def __getattr__(self, name):
        return getattr(self._real, name)

    def max(self, *a, **k):
        self.count += 1
        if self.count > self._budget:
            raise _NoTermination()
        return self._real.max(*a, **k)


class _NoTermination(BaseException):
    pass


@contextlib.contextmanager
def step_budget(sig, budget=20000):
    import rsatoolbox.model.fitter as fitter_mod
    real = fitter_mod.np
    proxy = _CountingNumpy(real, budget)
    fitter_mod.np = proxy
    try:
        yield
    except _NoTermination:
        raise Violation('the fitter evaluated its loop condition more than %d times without '
                        'terminating (an active-set solver with k regressors needs O(k) steps)'
                        % budget, 'no-termination:' + sig.split(':')[-1] if ':' in sig else sig)
    finally:
        fitter_mod.np = real


# ---------------------------------------------------------------------------
# sub-check 1: regression fitters

@st.composite
def regress_case(draw):
    # (a weighted model with a single basis RDM is a valid model: only the sign of its weight is fitted)
    case = draw(problem(n_basis_range=(1, 4)))
    case['normalize'] = draw(st.booleans())
    # the criteria are scale-free: basis RDMs and training RDMs in small or large units (exact
    # power-of-two rescaling) have the same optimum up to the scale of the weights
    case['basis_unit'] = draw(st.sampled_from([0, 0, 0, -30, -17, 6, 20]))
    case['data_unit'] = draw(st.sampled_from([0, 0, 0, -30, 6, 20]))
    # ... and the basis RDMs among themselves: a 0/1 category model next to distance RDMs computed
    # from data in volts (one exact power of two per basis RDM; its weight scales inversely)
    k = len(case['basis'])
    case['basis_units'] = [draw(st.sampled_from([0, 0, 0, -30, 24])) for _ in range(k)] \
        if draw(st.integers(0, 2)) == 0 else None
    return case


def competitors(case, theta_fit, nonneg):
    k = len(theta_fit)
    out = []
    for c in case['comps']:
        out.append(('random', np.array(c, dtype=float) / 4.0))
    for d in case['deltas']:
        out.append(('local', theta_fit * (1.0 + np.array(d))))
    for i in range(k):
        e = np.zeros(k)
        e[i] = 1.0
        out.append(('vertex', e))
        f = theta_fit.copy()
        f[i] = -f[i]
        out.append(('signflip', f))
    if nonneg:
        out = [(nm, np.maximum(th, 0.0)) for nm, th in out] + \
              [('abs', np.abs(th)) for nm, th in out if nm == 'random']
    return [(nm, th) for nm, th in out if np.any(th != 0)]


def _sel_txt(case):
    return ', pattern_idx=%s' % case['idx'] if case['idx'] is not None else ''


def check_regress(case):
    done = 0
    for method in METHODS:
        b = Built(case, method)
        if b.scorer.gram_cond(b.basis_exp) > 1e8:
            continue
        for fitter in ('regress', 'regress_nn'):
            _check_regress_one(case, b, fitter)
            done += 1
    if not done:
        raise Reject('ill-conditioned basis', 'degenerate:ill-conditioned')


def _check_regress_one(case, b, fitter):
    k = len(case['basis'])
    nn = fitter == 'regress_nn'
    fn = F.fit_regress_nn if nn else F.fit_regress
    name = 'fit_' + fitter
    cov = b.method.endswith('_cov')
    model = ModelWeighted('w', b.model_rdms)
    theta = call_fit(fn, model, b, 'regress:raises:' + name, normalize=case['normalize'])
    theta = np.asarray(theta, dtype=float)
    require(theta.shape == (k,), '%s returned shape %s for %d basis RDMs' % (name, theta.shape, k),
            'regress:shape')
    require(not np.isnan(theta).any(), '%s returned NaN weights' % name, 'regress:nan')
    what = '%s(%s%s%s)' % (name, b.method, ', sigma_k' if b.sigma is not None else '', _sel_txt(case))
    # a Fitter object wraps the same function with fixed settings; what one call is given (a noise
    # matrix, a method) is that call's business: a later call without it equals the direct call
    if (k + b.n_sel) % 2 == 0:
        ft = F.Fitter(fn, normalize=case['normalize'])
        first = dict(built_kw(b), method='corr_cov' if b.method != 'corr_cov' else 'cosine_cov',
                     sigma_k=2.0 * np.eye(b.n_sel) + 0.25)
        with core.watchdog(20), step_budget('regress:raises:' + name):
            lib(ft, model, b.data_rdms, on_error='reject', **first)
            kw2 = dict(built_kw(b), method=b.method)
            if b.sigma is not None:
                kw2['sigma_k'] = b.sigma
            th2 = np.asarray(lib(ft, model, b.data_rdms, on_error='violation',
                                 sig='regress:raises:Fitter', **kw2), dtype=float)
        require(bool(np.array_equal(th2, theta)), 'Fitter(%s) called a second time with %s: %s, the '
                'direct call gives %s' % (name, sorted(kw2), core._short(th2), core._short(theta)),
                'regress:fitter-object-remembers')
    # constraints
    if nn:
        require(bool(np.all(theta >= -1e-12)), '%s: negative weight %s' % (what, core._short(theta)),
                'regress_nn:negative')
    nrm = math.sqrt(float(theta @ theta))
    if case['normalize'] and nrm > 0:
        require(abs(nrm - 1) <= 1e-9, '%s normalize=True: |theta| = %r' % (what, nrm), 'regress:norm')
    # optimality
    tol = TOL[cov]
    s_fit = b.score_theta(theta)
    if nn:
        th_ref, s_ref = b.scorer.nnls(b.basis_exp)
    else:
        th_ref = b.scorer.ls(b.basis_exp)
        s_ref = b.score_theta(th_ref)
    _stat('regress_gap_max_cov' if cov else 'regress_gap_max_plain', s_ref - s_fit)
    tag = '%s:%s' % ('_nn' if nn else '', 'cov' if cov else 'plain')
    if not s_fit >= s_ref - tol:
        raise Violation('%s: fitted weights %s score %.10g, the %s solution %s scores %.10g' % (
            what, core._short(theta), s_fit, 'non-negative least-squares' if nn else 'least-squares',
            core._short(th_ref), s_ref), 'regress%s' % tag.replace(':', ':suboptimal:', 1))
    for nm, th in competitors(case, theta if nrm > 0 else th_ref, nn):
        s = b.score_theta(th)
        if not s_fit >= s - tol:
            raise Violation('%s: fitted weights %s score %.10g but the %s competitor %s scores %.10g' % (
                what, core._short(theta), s_fit, nm, core._short(th), s),
                'regress%s' % tag.replace(':', ':beaten:', 1))
    # normalisation only rescales
    other = np.asarray(call_fit(fn, model, b, 'regress:raises:' + name,
                                normalize=not case['normalize']), dtype=float)
    n_o = math.sqrt(float(other @ other))
    if nrm > 0 and n_o > 0:
        require(core.close(theta / nrm, other / n_o, rtol=0, atol=1e-9),
                '%s: normalize on/off give different directions %s vs %s' % (
                    what, core._short(theta / nrm), core._short(other / n_o)), 'regress:normalize-direction')
    # only the selected conditions enter
    if case['idx'] is not None and b.unselected():
        b2 = Built(case, b.method, basis=perturbed_basis(case, b))
        th2 = np.asarray(call_fit(fn, ModelWeighted('w', b2.model_rdms), b2, 'regress:raises:' + name,
                                  normalize=case['normalize']), dtype=float)
        require(bool(np.array_equal(theta, th2)),
                '%s: changing only unselected conditions %s changed theta from %s to %s' % (
                    what, b.unselected(), core._short(theta), core._short(th2)), 'regress:unselected-leak')
    # repeated indices == explicitly duplicated conditions
    if case['idx'] is not None:
        pd_e = {'index': list(range(b.n_sel))}
        m_exp = ModelWeighted('w', RDMs(b.basis_exp.copy(), pattern_descriptors=pd_e))
        d_exp = RDMs(b.data_exp.copy(), pattern_descriptors={'index': list(range(b.n_sel))})
        with core.watchdog(20):
            th_e = np.asarray(lib(fn, m_exp, d_exp, method=b.method, sigma_k=b.sigma,
                                  normalize=case['normalize'], on_error='violation',
                                  sig='regress:raises:' + name), dtype=float)
        scale = max(1.0, float(np.max(np.abs(theta))))
        require(core.close(theta, th_e, rtol=0, atol=(1e-4 if cov else 1e-9) * scale),
                '%s: differs from the fit on the explicitly duplicated conditions: %s vs %s' % (
                    what, core._short(theta), core._short(th_e)), 'regress:duplicates')


def classify_regress(case):
    labels, nt = problem_labels(case, 'reg:')
    labels += ['reg:normalize' if case['normalize'] else 'reg:raw']
    return labels, nt


# ---------------------------------------------------------------------------
# sub-check 2: selection models

@st.composite
def select_case(draw):
    case = draw(problem(n_basis_range=(2, 5), independent=False))
    case['via'] = draw(st.sampled_from(['function', 'method']))
    return case


def check_select(case):
    for method in METHODS:
        _check_select_one(case, Built(case, method))


def _check_select_one(case, b):
    k = len(case['basis'])
    model = ModelSelect('s', b.model_rdms)
    if case['via'] == 'function':
        theta = call_fit(F.fit_select, model, b, 'select:raises')
    else:
        kw = dict(method=b.method, sigma_k=b.sigma)
        kw.update(b.fit_kw)
        theta = lib(model.fit, b.data_rdms, on_error='violation', sig='select:raises', **kw)
    require(np.ndim(theta) == 0 and int(theta) == theta and 0 <= int(theta) < k,
            'fit_select returned %r for %d candidates' % (theta, k), 'select:index')
    theta = int(theta)
    scores = [b.scorer.score(b.basis_exp[c]) for c in range(k)]
    best = int(np.argmax(scores))
    if not scores[theta] >= scores[best] - 1e-9:
        raise Violation('fit_select(%s%s%s) chose candidate %d (score %.10g) but candidate %d scores %.10g'
                        % (b.method, ', sigma_k' if b.sigma is not None else '', _sel_txt(case), theta,
                           scores[theta], best, scores[best]), 'select:suboptimal')
    if case['idx'] is not None and b.unselected() and scores[theta] > sorted(scores)[-2] + 1e-9:
        b2 = Built(case, b.method, basis=perturbed_basis(case, b))
        th2 = call_fit(F.fit_select, ModelSelect('s', b2.model_rdms), b2, 'select:raises')
        require(int(th2) == theta, 'fit_select(%s): changing only unselected conditions changed the '
                'choice from %d to %d' % (b.method, theta, int(th2)), 'select:unselected-leak')


def classify_select(case):
    labels, nt = problem_labels(case, 'sel:')
    return labels + ['sel:via:' + case['via']], nt


# ---------------------------------------------------------------------------
# sub-check 3: interpolation models

@st.composite
def interpolate_case(draw):
    case = draw(problem(n_basis_range=(2, 5), independent=False, max_train=3))
    case['via'] = draw(st.sampled_from(['function', 'method']))
    return case


def check_interpolate(case):
    for method in METHODS:
        _check_interpolate_one(case, Built(case, method))


def _check_interpolate_one(case, b):
    k = len(case['basis'])
    model = ModelInterpolate('i', b.model_rdms)
    if case['via'] == 'function':
        theta = call_fit(F.fit_interpolate, model, b, 'interpolate:raises')
    else:
        kw = dict(method=b.method, sigma_k=b.sigma)
        kw.update(b.fit_kw)
        with core.watchdog(20):
            theta = lib(model.fit, b.data_rdms, on_error='violation', sig='interpolate:raises', **kw)
    theta = np.asarray(theta, dtype=float)
    require(theta.shape == (k,), 'fit_interpolate returned shape %s' % (theta.shape,), 'interpolate:shape')
    nz = [i for i in range(k) if theta[i] != 0]
    require(bool(np.all(theta >= -1e-12)) and abs(float(theta.sum()) - 1) <= 1e-9 and len(nz) <= 2 and
            (len(nz) < 2 or nz[1] - nz[0] == 1),
            'fit_interpolate(%s): theta %s is not a convex mixture of two adjacent RDMs' % (
                b.method, core._short(theta)), 'interpolate:structure')
    # the library searches each segment with bounded Brent (xatol 1e-5 in the mixing weight and
    # never evaluates the end points): theta is credited with the best score within 3e-5 in w
    s_fit = b.score_theta(theta)
    if len(nz) >= 1:
        seg = min(nz[0], k - 2)
        for dw in (-W_TOL, W_TOL):
            w = min(1.0, max(0.0, float(theta[seg]) + dw))
            th = np.zeros(k)
            th[seg] = w
            th[seg + 1] = 1 - w
            s_fit = max(s_fit, b.score_theta(th))
    best, best_th = -np.inf, None
    for seg in range(k - 1):
        for g in range(41):
            w = g / 40.0
            th = np.zeros(k)
            th[seg] = w
            th[seg + 1] = 1 - w
            s = b.score_theta(th)
            if s > best:
                best, best_th = s, th
    _stat('interp_gap_max', best - s_fit)
    if not s_fit >= best - TOL_INTERP:
        raise Violation('fit_interpolate(%s%s%s): theta %s scores %.10g but the mixture %s scores %.10g' % (
            b.method, ', sigma_k' if b.sigma is not None else '', _sel_txt(case),
            core._short(theta), s_fit, core._short(best_th), best), 'interpolate:suboptimal')
    if case['idx'] is not None and b.unselected():
        b2 = Built(case, b.method, basis=perturbed_basis(case, b))
        th2 = np.asarray(call_fit(F.fit_interpolate, ModelInterpolate('i', b2.model_rdms), b2,
                                  'interpolate:raises'), dtype=float)
        require(bool(np.array_equal(theta, th2)),
                'fit_interpolate(%s): changing only unselected conditions changed theta from %s to %s' % (
                    b.method, core._short(theta), core._short(th2)), 'interpolate:unselected-leak')


def classify_interpolate(case):
    labels, nt = problem_labels(case, 'int:')
    return labels + ['int:via:' + case['via']], nt


# ---------------------------------------------------------------------------
# sub-check 4: BFGS fitters (constraints, restriction, reproducibility; not optimality)

@st.composite
def bfgs_case(draw):
    case = draw(problem(n_basis_range=(2, 3), max_train=2))
    case['seed'] = draw(st.integers(0, 2 ** 31 - 1))
    return case


def check_bfgs(case):
    for method in ('cosine', 'corr'):
        b = Built(case, method)
        for fitter in ('optimize', 'optimize_positive'):
            _check_bfgs_one(case, b, fitter)


def _check_bfgs_one(case, b, fitter):
    k = len(case['basis'])
    pos = fitter == 'optimize_positive'
    fn = F.fit_optimize_positive if pos else F.fit_optimize
    name = 'fit_%s(%s)' % (fitter, b.method)
    model = ModelWeighted('w', b.model_rdms)

    def run(model_, built_):
        np.random.seed(case['seed'])
        return np.asarray(call_fit(fn, model_, built_, 'bfgs:raises:fit_' + fitter), dtype=float)
    theta = run(model, b)
    require(theta.shape == (k,) and not np.isnan(theta).any(), '%s returned %s' % (name, theta),
            'bfgs:shape')
    nrm = math.sqrt(float(theta @ theta))
    if nrm > 0:
        require(abs(nrm - 1) <= 1e-9, '%s: |theta| = %r with normalize=True' % (name, nrm), 'bfgs:norm')
    if pos:
        require(bool(np.all(theta >= 0)), '%s: negative weight %s' % (name, core._short(theta)),
                'bfgs:negative')
    again = run(model, b)
    require(bool(np.array_equal(theta, again)), '%s: same seed, different theta %s vs %s' % (
        name, core._short(theta), core._short(again)), 'bfgs:reproducible')
    if case['idx'] is not None and b.unselected():
        b2 = Built(case, b.method, basis=perturbed_basis(case, b))
        th2 = run(ModelWeighted('w', b2.model_rdms), b2)
        require(bool(np.array_equal(theta, th2)),
                '%s: changing only unselected conditions changed theta from %s to %s' % (
                    name, core._short(theta), core._short(th2)), 'bfgs:unselected-leak')
    # statistic only
    if b.scorer.gram_cond(b.basis_exp) < 1e8:
        if pos:
            _, s_ref = b.scorer.nnls(b.basis_exp)
        else:
            s_ref = b.score_theta(b.scorer.ls(b.basis_exp))
        _stat('bfgs_gap_max', s_ref - b.score_theta(theta))
        _stat('bfgs_cases', 1, count=True)


def classify_bfgs(case):
    return problem_labels(case, 'bfgs:')


# ---------------------------------------------------------------------------
# sub-check 5: model prediction API

KINDS = ['fixed_vector', 'fixed_matrix', 'fixed_rdms', 'select', 'weighted', 'interpolate']


@st.composite
def api_case(draw):
    kind = draw(st.sampled_from(KINDS))
    src = 'rdms' if kind == 'fixed_rdms' else draw(st.sampled_from(['rdms', 'vectors', 'matrices'])) \
        if not kind.startswith('fixed') else kind.split('_')[1]
    n = draw(st.integers(3, 6))
    P = ref.n_pairs(n)
    k = 1 if kind.startswith('fixed') else draw(st.integers(2, 5))
    vk = draw(gen.value_kind())
    vecs = [draw(gen.vector(P, kind=vk)) for _ in range(k)]
    _, labs = draw(gen.label_set(n))
    el = gen.scalar(draw(st.sampled_from(['grid', 'smallint', 'float'])))
    if kind == 'interpolate':
        el = st.integers(0, 32).map(lambda x: x / 8.0)
    thetas = [draw(st.lists(el, min_size=k, max_size=k)) for _ in range(2)]
    coef = [draw(st.integers(0, 8)) / 4.0 for _ in range(2)] if kind == 'interpolate' else \
        [draw(st.integers(-8, 8)) / 4.0 for _ in range(2)]
    sel = draw(st.integers(0, k - 1))
    index_vals = None
    if src == 'rdms' and draw(st.booleans()):
        index_vals = list(draw(st.permutations(list(range(12)))))[:n]
    return dict(kind=kind, src=src, n=n, vecs=vecs, labels=labs, thetas=thetas, coef=coef, sel=sel,
                index_vals=index_vals)


def _build_model(case):
    kind, src, n = case['kind'], case['src'], case['n']
    vecs = np.array(case['vecs'], dtype=float)
    if np.all(vecs == np.round(vecs)) and int(np.abs(vecs).sum()) % 2 == 0:
        # integral model RDMs held in an integer (or, for 0/1 category models, boolean) array
        vecs = vecs.astype(bool) if vecs.min() >= 0 and vecs.max() <= 1 else vecs.astype(np.int64)
    pd = {'lab': list(case['labels'])}
    if case.get('index_vals'):
        pd['index'] = [int(v) for v in case['index_vals']]
    if src == 'rdms':
        arg = RDMs(vecs.copy(), pattern_descriptors=pd, dissimilarity_measure='euclidean',
                   descriptors={'session': 1})
    elif src in ('vectors', 'vector'):
        arg = vecs.copy()
    else:
        arg = np.array([ref.to_square(v, n) for v in vecs])
    if kind.startswith('fixed'):
        return ModelFixed('m', arg[0] if isinstance(arg, np.ndarray) else arg)
    cls = {'select': ModelSelect, 'weighted': ModelWeighted, 'interpolate': ModelInterpolate}[kind]
    return cls('m', arg)


def _pred_pair(model, theta, what, use_default=False):
    if use_default:
        v = lib(model.predict, on_error='violation', sig='api:raises:predict')
        r = lib(model.predict_rdm, on_error='violation', sig='api:raises:predict_rdm')
    else:
        v = lib(model.predict, theta, on_error='violation', sig='api:raises:predict')
        r = lib(model.predict_rdm, theta, on_error='violation', sig='api:raises:predict_rdm')
    require(isinstance(r, RDMs), '%s: predict_rdm returned %s' % (what, type(r).__name__), 'api:type')
    v = np.asarray(v, dtype=float)
    d = np.asarray(r.dissimilarities, dtype=float)
    require(d.shape[0] == 1 and v.shape == d.shape[1:], '%s: predict shape %s, predict_rdm shape %s' % (
        what, v.shape, d.shape), 'api:shape')
    return v, r


def _desc_equal(a, b):
    a, b = list(a), list(b)
    return len(a) == len(b) and all(type(x) is type(y) or (np.isscalar(x) and np.isscalar(y)) for x, y in
                                    zip(a, b)) and all(x == y for x, y in zip(a, b))


def check_api(case):
    kind = case['kind']
    model = lib(_build_model, case, on_error='violation', sig='api:raises:constructor')
    vecs = np.array(case['vecs'], dtype=float)
    k = len(vecs)
    name = type(model).__name__
    if kind == 'select':
        thetas = [case['sel'], (case['sel'] + 1) % k]
    elif kind.startswith('fixed'):
        thetas = [None, None]
    else:
        thetas = [np.array(t, dtype=float) for t in case['thetas']]
    # predict == predict_rdm for the same theta; value = own combination
    for th in thetas:
        v, r = _pred_pair(model, th, '%s theta=%r' % (name, th if th is None else core.tolist(th)))
        d = np.asarray(r.dissimilarities, dtype=float)[0]
        sig = 'api:predict-vs-predict_rdm:' + kind.split('_')[0]
        require_close(v, d, '%s(%s): predict(theta) vs predict_rdm(theta).dissimilarities for theta=%s' % (
            name, case['src'], th if th is None else core.tolist(th)), sig, rtol=1e-12, atol=1e-12)
        if kind == 'select':
            want = vecs[th]
        elif kind.startswith('fixed'):
            want = vecs[0]
        else:
            want = predict_vec(vecs, th)
        scale = float(np.max(np.abs(vecs))) * (1 + (0 if th is None or kind == 'select'
                                                    else float(np.sum(np.abs(th)))))
        require_close(v, want, '%s predict(theta=%s) vs sum theta_k rdm_k' % (name, th if th is None else
                                                                           core.tolist(th)),
                      'api:value:' + kind.split('_')[0], rtol=1e-12, atol=1e-13 * max(scale, 1))
        # descriptors travel with the prediction
        mp = model.rdm_obj.pattern_descriptors
        for key in mp:
            require(key in r.pattern_descriptors and _desc_equal(mp[key], r.pattern_descriptors[key]),
                    '%s predict_rdm: pattern descriptor %r is %r, the model has %r' % (
                        name, key, r.pattern_descriptors.get(key), mp[key]), 'api:descriptors')
        if case['src'] == 'rdms':
            require(_desc_equal(r.pattern_descriptors.get('lab', []), case['labels']),
                    '%s predict_rdm lost the condition labels' % name, 'api:descriptors')
            if case.get('index_vals') and not kind.startswith('fixed'):
                # (ModelFixed documents nothing about 'index' and has always renumbered it)
                require(_desc_equal(r.pattern_descriptors.get('index', []), case['index_vals']),
                        "%s predict_rdm: 'index' descriptor %r, the model RDMs had %r" % (
                            name, list(r.pattern_descriptors.get('index', [])), case['index_vals']),
                        'api:descriptors:index')
        require(r.n_cond == case['n'], '%s predict_rdm n_cond %r' % (name, r.n_cond), 'api:descriptors')
        # the vector prediction is the caller's array: normalising it in place must not reach the
        # model (asked again, it predicts the same)
        v_first = np.array(v, copy=True)
        vv = lib(model.predict, th, on_error='violation', sig='api:raises:predict') if th is not None \
            else lib(model.predict, on_error='violation', sig='api:raises:predict')
        if isinstance(vv, np.ndarray) and vv.flags.writeable and vv.dtype.kind == 'f':
            vv[...] = -3.0
            v_again = lib(model.predict, th, on_error='violation', sig='api:raises:predict') \
                if th is not None else lib(model.predict, on_error='violation', sig='api:raises:predict')
            require(np.array_equal(np.asarray(v_again, dtype=float), v_first, equal_nan=True),
                    '%s: overwriting a returned predict() vector changed the next prediction' % name,
                    'api:prediction-is-a-view')
        # the prediction is the caller's object: putting it into another order in place must not
        # reach the model (the next prediction is checked against the same labels again)
        if r.n_cond >= 2:
            lib(r.reorder, np.arange(r.n_cond - 1, -1, -1), on_error='reject')
            if case['src'] == 'rdms':
                require(_desc_equal(model.rdm_obj.pattern_descriptors.get('lab', []), case['labels']),
                        '%s: reordering a returned prediction in place changed the labels of the '
                        'model RDMs to %r' % (name, list(model.rdm_obj.pattern_descriptors.get('lab', []))),
                        'api:prediction-shares-descriptors')
    # defaults agree
    v0, r0 = _pred_pair(model, None, name + ' default theta', use_default=True)
    require_close(v0, np.asarray(r0.dissimilarities, dtype=float)[0],
                  '%s: predict() vs predict_rdm().dissimilarities with the default theta' % name,
                  'api:default-theta:' + kind.split('_')[0], rtol=1e-12, atol=1e-12)
    # linearity in theta
    if kind in ('weighted', 'interpolate'):
        a, c = case['coef']
        comb = a * thetas[0] + c * thetas[1]
        v1, _ = _pred_pair(model, thetas[0], name)
        v2, _ = _pred_pair(model, thetas[1], name)
        vc, rc = _pred_pair(model, comb, name)
        scale = float(np.max(np.abs(vecs))) * (abs(a) * float(np.sum(np.abs(thetas[0]))) +
                                              abs(c) * float(np.sum(np.abs(thetas[1]))) + 1)
        for got, nm in ((vc, 'predict'), (np.asarray(rc.dissimilarities, dtype=float)[0], 'predict_rdm')):
            require_close(got, a * v1 + c * v2, '%s %s not linear in theta' % (name, nm),
                          'api:linearity', rtol=1e-11, atol=1e-12 * max(scale, 1))
    # dictionary round trip
    md = lib(model.to_dict, on_error='violation', sig='api:raises:to_dict')
    m2 = lib(model_from_dict, md, on_error='violation', sig='api:raises:model_from_dict')
    require(type(m2) is type(model) and m2.name == model.name, 'model_from_dict: %s %r from %s %r' % (
        type(m2).__name__, m2.name, name, model.name), 'api:dict-type')
    for th in thetas:
        va, ra = _pred_pair(model, th, name)
        vb, rb = _pred_pair(m2, th, name + ' rebuilt')
        require_close(vb, va, '%s rebuilt from dict: predict differs' % name, 'api:dict-predict',
                      rtol=0, atol=0)
        require_close(rb.dissimilarities, ra.dissimilarities, '%s rebuilt from dict: predict_rdm differs'
                      % name, 'api:dict-predict', rtol=0, atol=0)
        for key in ra.pattern_descriptors:
            require(key in rb.pattern_descriptors and
                    _desc_equal(ra.pattern_descriptors[key], rb.pattern_descriptors[key]),
                    '%s rebuilt from dict: pattern descriptor %r differs' % (name, key), 'api:dict-descriptors')


def classify_api(case):
    labels = ['api:' + case['kind'], 'api:src:' + case['src'], 'api:k=%d' % len(case['vecs']),
              'api:index:' + ('inherited' if case.get('index_vals') else 'default')]
    return labels, len(case['vecs']) >= 2


SUBCHECKS = [
    SubCheck('regress', regress_case(), check_regress, classify_regress, quick=100,
             doc='fit_regress / fit_regress_nn: constraints, optimal against own (G)LS / NNLS and generated '
                 'competitors, normalisation, restriction to selected conditions, duplicates'),
    SubCheck('select', select_case(), check_select, classify_select, quick=80,
             doc='fit_select / ModelSelect.fit: best of all candidates (exhaustive per case)'),
    SubCheck('interpolate', interpolate_case(), check_interpolate, classify_interpolate, quick=120,
             doc='fit_interpolate / ModelInterpolate.fit: convex adjacent mixture, no grid mixture better'),
    SubCheck('bfgs', bfgs_case(), check_bfgs, classify_bfgs, quick=12,
             doc='fit_optimize / fit_optimize_positive: unit norm, sign, restriction, reproducibility; '
                 'optimality gap recorded only'),
    SubCheck('api', api_case(), check_api, classify_api, quick=300,
             doc='predict vs predict_rdm (given and default theta), value, linearity, descriptors, '
                 'dict round trip for every model class and constructor form'),
]
