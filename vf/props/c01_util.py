"""Helpers shared by the C01 and C02 checks (reference distances on condition
means, label matching, generators that avoid degenerate patterns by construction).
Nothing here imports rsatoolbox."""
import math

import numpy as np
from hypothesis import strategies as st

from vf import core, gen, ref

EPS = float(np.finfo(float).eps)


# ---- plain values / labels ---------------------------------------------------

def py(x):
    """numpy scalar -> python scalar"""
    if isinstance(x, np.generic):
        return x.item()
    return x


def same_label(a, b):
    """labels are equal if both are strings and equal, or both numbers and equal
    (the library may turn ints into floats, e.g. in time_as_observations)"""
    a, b = py(a), py(b)
    sa, sb = isinstance(a, str), isinstance(b, str)
    if sa or sb:
        return sa and sb and a == b
    try:
        return float(a) == float(b)
    except (TypeError, ValueError):
        return False


def positions(lib_labels, lab):
    return [i for i, x in enumerate(list(lib_labels)) if same_label(x, lab)]


def distinct(labels):
    out = []
    for x in labels:
        if not any(same_label(x, y) for y in out):
            out.append(x)
    return out


def check_label_set(lib_labels, expected, what, sig):
    """every expected label exactly once and nothing else; returns label -> position"""
    lib_labels = [py(x) for x in list(lib_labels)]
    pos = []
    for lab in expected:
        p = positions(lib_labels, lab)
        core.require(len(p) == 1, '%s: label %r occurs %d times in returned labels %r' % (
            what, lab, len(p), lib_labels), sig)
        pos.append(p[0])
    core.require(len(lib_labels) == len(expected), '%s: returned labels %r, expected the %d '
                 'distinct labels %r' % (what, lib_labels, len(expected), list(expected)), sig)
    return pos


def square(vec, n, what='RDM vector', sig='shape'):
    vec = np.asarray(vec, dtype=float)
    core.require(vec.ndim == 1 and len(vec) == ref.n_pairs(n),
                 '%s: vector of length %s for %d conditions' % (what, vec.shape, n), sig)
    return ref.to_square(vec, n)


# ---- reference distances -------------------------------------------------------

PLAIN_METHODS = ['euclidean', 'correlation', 'mahalanobis', 'poisson']


def demean(p):
    p = np.asarray(p, dtype=float)
    return p - sum(p) / len(p)


def rates(p, lam, w):
    """prior-regularised rate: prior mean lam with the weight w of one observation,
    the (mean) pattern counting as one observation (docs/source/distances.rst)"""
    return (np.asarray(p, dtype=float) + lam * w) / (1.0 + w)


def ref_distance(method, a, b, noise=None, prior=(1.0, 0.1), remove_mean=False):
    """the C01 statement: formula on two mean patterns, divided by the number of channels"""
    a, b = np.asarray(a, dtype=float), np.asarray(b, dtype=float)
    if method in ('euclidean', 'mahalanobis') and remove_mean:
        a, b = demean(a), demean(b)
    if method == 'euclidean' or (method == 'mahalanobis' and noise is None):
        return ref.d_euclid(a, b)
    if method == 'mahalanobis':
        return ref.d_mahal(a, b, noise)
    if method == 'correlation':
        return ref.d_corr(a, b)
    if method == 'poisson':
        return ref.d_poisson(a, b, prior[0], prior[1])
    raise ValueError(method)


def ref_matrix(method, means, noise=None, prior=(1.0, 0.1), remove_mean=False):
    n = len(means)
    m = np.zeros((n, n))
    for i in range(n):
        for j in range(i + 1, n):
            m[i, j] = m[j, i] = ref_distance(method, means[i], means[j], noise, prior, remove_mean)
    return m


def gram_atol(method, means, noise=None, prior=(1.0, 0.1)):
    """64 eps max|x|^2 (DESIGN 1.6): forward error bound of the Gram-form formulas;
    per channel because everything is divided by P."""
    means = np.asarray(means, dtype=float)
    means = np.where(np.isnan(means), np.nanmax(np.abs(means)) if np.any(~np.isnan(means)) else 1.0, means)
    if method == 'correlation':
        return 1e-10
    if method == 'poisson':
        lam = rates(means, prior[0], prior[1])
        s = float(np.max(np.sum(np.abs(lam * np.log(lam)) + np.abs(lam), axis=-1)))
        return 64 * EPS * max(s, 1e-300) + 1e-300
    s = float(np.max(np.sum(means ** 2, axis=-1)))
    if noise is not None:
        nz = np.asarray(noise, dtype=float)
        if nz.ndim == 3:
            nz = np.abs(nz).max(axis=0)
        s *= max(1.0, float(np.max(np.sum(np.abs(nz), axis=1))))
    return 64 * EPS * max(s, 1e-300) + 1e-300


RTOL = {'euclidean': 1e-9, 'mahalanobis': 1e-9, 'poisson': 1e-9, 'correlation': 1e-8}


def pattern_spread_ok(means):
    """every mean pattern has a range over channels of at least 1/32 of the largest magnitude
    (unit-free; for data of magnitude 8 the range is >= 1/4): correlation stays well conditioned"""
    means = np.asarray(means, dtype=float)
    means = means[~np.isnan(means).any(axis=1)] if means.ndim == 2 else means   # (missing samples)
    top = float(np.max(np.abs(means))) if means.size else 0.0
    return top > 0 and all(float(np.max(m) - np.min(m)) >= top / 32.0 for m in means)


# ---- generators ------------------------------------------------------------------

def groups_of(obs):
    g = []
    for lab in distinct(obs):
        g.append([i for i, o in enumerate(obs) if same_label(o, lab)])
    return g


def fix_flat_patterns(meas, groups):
    """construction instead of rejection for correlation: if the mean pattern of a group of
    rows is (nearly) constant over channels, add 1, 2, ... to channel 0 of those rows.
    A pure function of the drawn matrix."""
    meas = [list(map(float, r)) for r in meas]
    p = len(meas[0])
    if p < 2:
        return meas
    # the unit of the data: 1 for magnitudes around one, otherwise a power of two two binary orders
    # below the largest magnitude (data in tesla, volts, raw scanner units, byte values)
    top = max(abs(v) for r in meas for v in r)
    unit = 1.0 if 1 / 64.0 <= top <= 16 or top == 0 else 2.0 ** (math.floor(math.log2(top)) - 2)
    for rows in groups:
        for bump in (0.0, 1.0 * unit, 2.0 * unit, 4.0 * unit):
            mean = [sum(meas[i][k] for i in rows) / len(rows) + (bump if k == 0 else 0.0)
                    for k in range(p)]
            if max(mean) - min(mean) >= 0.25 * unit:
                if bump:
                    for i in rows:
                        meas[i][0] += bump
                break
    return meas


@st.composite
def data_matrix(draw, n, p, method, kind=None, positive=False):
    """n x p nested list suited to the method; returns (matrix, kind)"""
    if method == 'poisson':
        kind = 'pos' if positive else (kind or draw(st.sampled_from(['count', 'count', 'pos'])))
        if kind == 'count':
            el = st.integers(0, 12).map(float)
        else:
            el = st.integers(1, 64).map(lambda k: k / 8.0)
        m = draw(st.lists(st.lists(el, min_size=p, max_size=p), min_size=n, max_size=n))
        return m, kind
    kind = kind or draw(st.one_of(gen.value_kind(), gen.value_kind(), st.sampled_from(['ubyte', 'byte'])))
    m = draw(gen.matrix(n, p, kind=kind))
    if kind in ('ubyte', 'byte'):
        return m, kind
    if method == 'correlation':
        # correlation distance has no unit: recordings in tesla or volts (1e-13, 1e-6) and raw
        # scanner units (1e4) give the value of the same data at unit scale
        e = draw(st.sampled_from([0, 0, 0, -43, -20, 14]))
        if e:
            m = [[v * 2.0 ** e for v in row] for row in m]
    if method in ('euclidean', 'mahalanobis', 'crossnobis'):
        # measurements in small / large units: an exact power-of-two factor (the Gram-form
        # tolerances scale with |x|^2, so the oracle stays a proven bound)
        e = draw(st.sampled_from([0, 0, 0, 0, -30, 12]))   # (+12: integer variants stay far from int64 overflow)
        if e:
            m = [[v * 2.0 ** e for v in row] for row in m]
    return m, kind


def all_integral(m):
    return bool(np.all(np.asarray(m, dtype=float) == np.round(np.asarray(m, dtype=float))))


relayout = gen.relayout


def np_data(m, dtype):
    a = np.array(m, dtype=float)
    if dtype == 'int' and all_integral(a):
        # integral recordings (spike counts, pixel values, binarised responses) are commonly held in
        # narrow integer arrays: the storage type is a deterministic function of the values
        pick = int(np.abs(a).sum()) % 3
        if pick == 0 and a.size and a.min() >= 0 and a.max() <= 255:
            return relayout(a.astype(np.uint8))
        if pick == 1 and a.size and a.min() >= -128 and a.max() <= 127:
            return relayout(a.astype(np.int8))
        if pick == 2 and a.size and a.min() >= -32768 and a.max() <= 32767:
            return relayout(a.astype(np.int16))
        return relayout(a.astype(np.int64))
    return relayout(a)


# (prior_lambda = 0 with a positive weight is a valid prior setting: the rates are mean/(1+w);
#  it needs strictly positive data, see `positive` in data_matrix)
PRIORS = [(1.0, 0.1), (1.0, 0.1), (0.5, 1.0), (2.0, 0.25), (3.0, 0.01), (0.125, 2.0), (0.0, 0.5)]


@st.composite
def method_config(draw, p, methods=PLAIN_METHODS, n_noise=0):
    """method + its options. n_noise > 0: additionally allow a list of n_noise precisions"""
    ms = [m for m in methods if not (m == 'correlation' and p < 3)]
    method = draw(st.sampled_from(ms))
    cfg = dict(method=method, noise=None, prior=[1.0, 0.1], remove_mean=draw(st.booleans()))
    if method in ('mahalanobis', 'crossnobis'):
        forms = ['none', 'single', 'single'] + (['list', 'list'] if n_noise else [])
        nf = draw(st.sampled_from(forms))
        # 'all symmetric positive-definite precisions' includes precisions of data recorded in
        # large or small units: an exact power-of-two factor (tiny entries everywhere, yet as
        # far from diagonal as before)
        f = 2.0 ** draw(st.sampled_from([0, 0, 0, -40, -30, 24]))
        if nf == 'single':
            cfg['noise'] = (np.array(draw(gen.spd(p))) * f).tolist()
        elif nf == 'list':
            cfg['noise'] = [(np.array(draw(gen.spd(p))) * f).tolist() for _ in range(n_noise)]
        cfg['noise_form'] = nf
    if method in ('poisson', 'poisson_cv'):
        cfg['prior'] = list(draw(st.sampled_from(PRIORS)))
    return cfg


def math_isnan(x):
    try:
        return math.isnan(x)
    except TypeError:
        return False
