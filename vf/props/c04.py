"""C04 - each stored evaluation is the direct comparison of prediction and resampled data."""
from collections import Counter

import numpy as np
from hypothesis import strategies as st

from vf import core, gen, ref
from vf.core import SubCheck, Violation, Reject, lib, require, require_close
from vf.props import c04_util as U

import rsatoolbox
from rsatoolbox.inference import evaluate as EV

RULE = (
    "A case = (data stack of 2-6 RDMs over 4-10 conditions with pairwise distinct (k/512 < 1) or "
    "heavily tied (k/8) dyadic dissimilarities, optional grouping descriptors for RDMs and conditions with "
    "repeated, interleaved int/str labels as list or array, 1-3 models out of "
    "Fixed/Select/Weighted/Interpolate carrying the same pattern descriptor, comparison method, "
    "routine options N/k_pattern/k_rdm/n_cv/boot_type/boot_noise_ceil/use_correction/theta/"
    "fitters, a seed for numpy's global generator and the *history of bootstrap draws*: one "
    "generated integer list per numpy.random.randint call, injected, biased to near-permutations "
    "with some collapsed draws so that valid and too-small resamples both occur). Fold shuffles "
    "come from the seeded generator. Everything the routine used is observed through recorders "
    "(bootstrap_sample*, sets_k_fold, sets_random, boot/cv_noise_ceiling, recording fitters) and "
    "every stored number is recomputed from the source arrays with vf.ref. A case is non-trivial "
    "if a grouping descriptor has a repeated value, or a too-small (NaN) resample occurs together "
    "with a valid one, or a model is fitted / evaluated at supplied parameters; distinct by SHA1 "
    "of the case.")
ASSUMPTIONS = [
    "models used with a grouping pattern_descriptor carry that descriptor on their own RDMs",
    "the noise-ceiling *formulas* are C07's subject: here the stored ceilings must be the return "
    "values of the library's ceiling function called on exactly the resample (identity of the "
    "arguments is observed) and equal a fresh call on objects rebuilt from the source arrays",
    "where theta is not supplied the prediction is the model's own predict_rdm() default",
    "a resample is 'too small' below 3 distinct pattern groups (fixed parameters), below k_rdm RDM "
    "groups or 3*k_pattern pattern groups (cross-validation, documented in default_k_pattern/"
    "default_k_rdm); between that and 3 distinct conditions either NaN or the correct value passes",
    "the n_cv variance correction is the formula (n_cv*var_mean - var_1)/(n_cv-1) of the docstring's "
    "reference; with use_correction=False the plain covariance of per-resample means",
    "Result.n_rdm / n_pattern / cv_method are not part of the statement and are not asserted",
    "comparisons whose reference value is undefined (constant / zero vector) are skipped",
    "ref.sim / numpy are trusted",
]

METHODS = ['cosine', 'corr', 'spearman', 'rho-a', 'tau-a', 'tau-b', 'cosine_cov', 'corr_cov']
REGRESS_OK = ('cosine', 'corr', 'cosine_cov', 'corr_cov')
EV_RTOL, EV_ATOL = 1e-9, 1e-10
WATCHDOG_S = 20     # a fitter that loops (fit_regress_nn can) makes the case inconclusive


# ============================================================================
# generators

@st.composite
def vec(draw, n_pairs, ties=False):
    if ties:
        # few distinct values (many ties) but never constant: 1,2,3 are always present
        xs = [1, 2, 3] + draw(st.lists(st.integers(1, 6), min_size=n_pairs - 3,
                                       max_size=n_pairs - 3))
        off = draw(st.integers(0, n_pairs - 1))
        return [xs[(i + off) % n_pairs] / 8.0 for i in range(n_pairs)]
    # dyadic values below 1: exact in binary, pairwise distinct.  (Magnitudes are kept small
    # because fit_regress_nn's active-set loop has an absolute stopping threshold of 100*eps
    # and does not terminate once rounding in A'y - A'Ax exceeds it; not C04's subject.)
    xs = draw(st.lists(st.integers(1, 8 * n_pairs + 40), min_size=n_pairs, max_size=n_pairs,
                       unique=True))
    return [x / 512.0 for x in xs]


@st.composite
def grouping(draw, n, min_groups, max_groups=None):
    """labels with repeated, interleaved values; at least min_groups distinct"""
    max_groups = n if max_groups is None else min(n, max_groups)
    g = draw(st.integers(min(min_groups, max_groups), max_groups))
    kind, labs = draw(gen.label_set(g))
    assign = list(range(g)) + [draw(st.integers(0, g - 1)) for _ in range(n - g)]
    perm = draw(gen.permutation(n))
    return [labs[assign[p]] for p in perm]


@st.composite
def model_spec(draw, n_pairs, types, ties=False):
    t = draw(st.sampled_from(types))
    k = 1 if t == 'fixed' else draw(st.integers(2, 3))
    # basis RDMs that are combined arithmetically never contain ties: a tie in the
    # prediction would be broken by rounding (BLAS vs loop) and rank measures jump there
    ties = ties and t in ('fixed', 'select')
    return dict(type=t, vecs=[draw(vec(n_pairs, ties)) for _ in range(k)])


@st.composite
def theta_for(draw, spec):
    t, k = spec['type'], len(spec['vecs'])
    if t == 'fixed':
        return None
    if t == 'select':
        return draw(st.integers(0, k - 1))
    if t == 'weighted':
        return [draw(st.integers(1, 16)) / 8.0 for _ in range(k)]
    w = draw(st.integers(0, 8)) / 8.0
    pair = draw(st.integers(0, k - 2))
    th = [0.0] * k
    th[pair], th[pair + 1] = w, 1 - w
    return th


def fitter_choices(spec, method, allow_slow):
    t = spec['type']
    if t == 'fixed':
        return ['default', 'mock']
    if t == 'select':
        return ['default', 'select', 'probe_select']
    if t == 'weighted':
        out = ['probe_weighted']
        if method in REGRESS_OK:
            out += ['regress', 'regress_nn', 'regress_ridge']
        if allow_slow:
            out += ['optimize', 'default']
        return out
    out = ['probe_interpolate', 'default', 'interpolate']
    return out


@st.composite
def draw_list(draw, n, collapse_p=0.2):
    """one bootstrap draw of n units out of n: a rotated identity with r replaced
    positions (many distinct units), or a collapsed draw out of 1-2 units"""
    if n <= 1:
        return [0] * n
    if draw(st.integers(0, 99)) >= 100 - int(collapse_p * 100):
        pool = draw(st.lists(st.integers(0, n - 1), min_size=1, max_size=2))
        return [pool[draw(st.integers(0, len(pool) - 1))] for _ in range(n)]
    off = draw(st.integers(0, n - 1))
    out = [(i + off) % n for i in range(n)]
    r = draw(st.integers(0, n))
    for _ in range(r):
        out[draw(st.integers(0, n - 1))] = draw(st.integers(0, n - 1))
    return out


def n_groups(labels, n):
    return n if labels is None else len(set(labels))


@st.composite
def draws_for(draw, case, boot, n_samples, collapse_rdm=0.1, collapse_pat=0.2):
    g_r = n_groups(case['rdm_groups'], len(case['data']))
    g_p = n_groups(case['pat_groups'], case['n_cond'])
    out = []
    for _ in range(n_samples):
        if boot in ('both', 'rdm'):
            out.append(draw(draw_list(g_r, collapse_rdm)))
        if boot in ('both', 'pattern'):
            out.append(draw(draw_list(g_p, collapse_pat)))
    return out


@st.composite
def base_case(draw, cond_range=(4, 8), rdm_range=(2, 6), min_pat_groups=3, min_rdm_groups=1,
              group_p=60, model_types=('fixed', 'select', 'weighted', 'interpolate'),
              max_models=3, max_pat_groups=None):
    n_cond = draw(st.integers(*cond_range))
    n_rdm = draw(st.integers(*rdm_range))
    n_pairs = n_cond * (n_cond - 1) // 2
    ties = draw(st.integers(0, 99)) >= 88
    data = [draw(vec(n_pairs, ties)) for _ in range(n_rdm)]
    rdm_groups = pat_groups = None
    if draw(st.integers(0, 99)) >= 100 - group_p and n_rdm > min_rdm_groups:
        rdm_groups = draw(grouping(n_rdm, max(1, min_rdm_groups)))
    if draw(st.integers(0, 99)) >= 100 - group_p and n_cond > min_pat_groups:
        pat_groups = draw(grouping(n_cond, min_pat_groups, max_pat_groups))
    method = draw(st.sampled_from(METHODS))
    m = draw(st.integers(1, max_models))
    models = [draw(model_spec(n_pairs, list(model_types), ties)) for _ in range(m)]
    return dict(n_cond=n_cond, data=data, rdm_groups=rdm_groups, pat_groups=pat_groups,
                container=draw(gen.container), method=method, models=models, ties=ties,
                bare_model=bool(m == 1 and draw(st.booleans())),
                seed=draw(st.integers(0, 2 ** 31 - 1)))


@st.composite
def thetas(draw, case):
    """theta argument: None (all defaults) or one entry per model"""
    if draw(st.integers(0, 9)) < 2 and not any(s['type'] == 'select' for s in case['models']):
        return None     # (ModelSelect has no default parameter: predict_rdm(None) is refused)
    return [draw(theta_for(s)) for s in case['models']]


@st.composite
def fitters_for(draw, case, allow_slow=False):
    types = {s['type'] for s in case['models']}
    form = draw(st.sampled_from(['list', 'list', 'list', 'none', 'single']))
    if form == 'none' and ('weighted' not in types or allow_slow):
        return None
    if form == 'single' and len(types) == 1:
        return draw(st.sampled_from(fitter_choices(case['models'][0], case['method'], allow_slow)))
    return [draw(st.sampled_from(fitter_choices(s, case['method'], allow_slow)))
            for s in case['models']]


# ---- fixed-parameter routines ----------------------------------------------

@st.composite
def fixed_case(draw):
    case = draw(base_case(group_p=0))
    case['routine'] = 'eval_fixed'
    case['theta'] = draw(thetas(case))
    case['draws'] = []
    return case


def boot_fixed_case(routine, boot):
    @st.composite
    def strat(draw):
        case = draw(base_case())
        if boot == 'rdm':
            case['pat_groups'] = None
        case['routine'] = routine
        case['theta'] = draw(thetas(case))
        case['N'] = draw(st.integers(2, 8))
        case['boot_noise_ceil'] = draw(st.booleans())
        case['draws'] = draw(draws_for(case, boot, case['N'], collapse_pat=0.3))
        return case
    return strat()


# ---- cross-validating routines -----------------------------------------------

def cv_case(routine):
    @st.composite
    def strat(draw):
        dual = routine == 'eval_dual_bootstrap'
        k_pattern = draw(st.sampled_from([1, 1, 2, 2, None]))
        k_rdm = draw(st.sampled_from([1, 2, 2, 3, None]))
        kp_eff = 2 if k_pattern is None else k_pattern
        min_pg = 3 * kp_eff + (1 if kp_eff > 1 else 0)
        case = draw(base_case(cond_range=(max(4, min_pg), 10 if kp_eff > 1 else 8),
                              rdm_range=(max(2, k_rdm or 2), 6 if (k_rdm or 2) > 2 else 5),
                              min_pat_groups=min_pg, min_rdm_groups=k_rdm or 2, group_p=55,
                              max_models=2 if dual else 3))
        g_r = n_groups(case['rdm_groups'], len(case['data']))
        if k_rdm is not None and k_rdm > g_r:
            k_rdm = g_r
        case['routine'] = routine
        case['k_pattern'], case['k_rdm'] = k_pattern, k_rdm
        case['N'] = draw(st.integers(2, 4 if dual else 6))
        case['n_cv'] = draw(st.sampled_from([1, 2, 2, 3]))
        case['use_correction'] = bool(case['n_cv'] > 1 and draw(st.booleans()))
        case['boot_type'] = 'both' if dual else draw(st.sampled_from(['both', 'pattern', 'rdm']))
        case['fitters'] = draw(fitters_for(case, allow_slow=draw(st.integers(0, 9)) == 0))
        case['draws'] = draw(draws_for(case, case['boot_type'], case['N'],
                                       collapse_rdm=0.08, collapse_pat=0.12))
        return case
    return strat()


@st.composite
def random_cv_case(draw):
    n_pattern = draw(st.sampled_from([0, 0, 3, 3, 4, None]))
    n_rdm = draw(st.sampled_from([0, 1, 1, 2, None]))
    need = 8 if n_pattern is None else 3 + n_pattern + (1 if n_pattern else 0)
    case = draw(base_case(cond_range=(max(4, need), max(8, min(10, need + 2))), rdm_range=(2, 5),
                          min_pat_groups=max(3, need), group_p=55))
    g_r = n_groups(case['rdm_groups'], len(case['data']))
    if n_rdm is not None and n_rdm >= g_r:
        n_rdm = g_r - 1
    case['routine'] = 'eval_dual_bootstrap_random'
    case['n_pattern_test'], case['n_rdm_test'] = n_pattern, n_rdm
    case['N'] = draw(st.integers(2, 6))
    case['n_cv'] = draw(st.sampled_from([1, 2, 2, 2, 3]))
    case['use_correction'] = bool(case['n_cv'] > 1 and draw(st.booleans()))
    case['boot_type'] = draw(st.sampled_from(['both', 'pattern', 'rdm']))
    case['fitters'] = draw(fitters_for(case))
    case['draws'] = draw(draws_for(case, case['boot_type'], case['N'],
                                   collapse_rdm=0.08, collapse_pat=0.1))
    return case


@st.composite
def subset_mask(draw, n, min_size):
    """a subset of range(n) with at least min_size elements (construction, no rejection)"""
    bits = [draw(st.booleans()) for _ in range(n)]
    sel = [i for i in range(n) if bits[i]]
    i = 0
    while len(sel) < min(min_size, n):
        if i not in sel:
            sel.append(i)
        i += 1
    return sorted(sel)


@st.composite
def crossval_case(draw):
    case = draw(base_case(cond_range=(4, 9), min_pat_groups=3))
    case['routine'] = 'crossval'
    g_r = len(case['data'])
    pg = U.group_values(U.pat_labels(case, 'pgrp' if case['pat_groups'] is not None else 'index'))
    n_folds = draw(st.integers(1, 4))
    folds = []
    for _ in range(n_folds):
        small = draw(st.integers(0, 11)) == 0     # a fold too small to evaluate
        te = draw(subset_mask(len(pg), 2 if small else 3))
        if small:
            te = te[:draw(st.integers(1, 2))]
        tr = draw(subset_mask(len(pg), 3))
        folds.append(dict(train_rdm=draw(subset_mask(g_r, 1)), test_rdm=draw(subset_mask(g_r, 1)),
                          train_pat=tr, test_pat=te))
    case['folds'] = folds
    case['ceil'] = draw(st.sampled_from(['none', 'given', 'off']))
    labels = U.pat_labels(case, 'pgrp' if case['pat_groups'] is not None else 'index')
    if case['ceil'] == 'given' and any(
            len(U.expand_pat(labels, [pg[k] for k in f['test_pat']])) <= 2 for f in folds):
        case['ceil'] = 'none'   # cv_noise_ceiling is not defined for a fold without pairs
    case['fitters'] = draw(fitters_for(case, allow_slow=draw(st.integers(0, 9)) == 0))
    case['draws'] = []
    return case


# ============================================================================
# shared checking code

def models_arg(case, models):
    """a single model may be passed bare instead of in a list"""
    return models[0] if case.get('bare_model') and len(models) == 1 else models


def descs(case):
    rd = U.RDM_DESC if case.get('rdm_groups') is not None else 'index'
    pd = U.PAT_DESC if case.get('pat_groups') is not None else 'index'
    return rd, pd


def default_prediction(model):
    return np.asarray(model.predict_rdm().get_vectors(), dtype=float)[0]


def fixed_predictions(case, models):
    """prediction vectors at the supplied parameters"""
    th = case.get('theta')
    preds = []
    for k, spec in enumerate(case['models']):
        t = None if th is None else th[k]
        if t is None and spec['type'] != 'fixed':
            preds.append(default_prediction(models[k]))     # assumption: library default theta
        else:
            preds.append(U.predict_ref(spec, t))
    return preds


def compare_entry(case, stored, pred, rid, cid, what, sig, spec=None):
    """stored evaluation vs reference; returns False if the reference is undefined"""
    arithmetic = spec is not None and spec['type'] in ('weighted', 'interpolate')
    try:
        exp = U.mean_similarity(case, pred, rid, cid, arithmetic)
    except U.Degenerate as d:
        if np.isnan(stored):
            raise Reject('degenerate comparison: %s' % d, 'degenerate:undefined-similarity')
        return False
    require_close(stored, exp, what, sig, rtol=EV_RTOL, atol=EV_ATOL)
    return True


def check_boot_ceiling(case, stored, rid, cid, method, rdm_descriptor, what, sig):
    obj = U.rebuild(case, rid, cid)
    exp = U.ORIG['boot_noise_ceiling'](obj, method=method, rdm_descriptor=rdm_descriptor)
    require_close(np.asarray(stored, dtype=float), np.array([exp[0], exp[1]], dtype=float),
                  what, sig, rtol=1e-9, atol=1e-10)


def same(a, b):
    return core.close(np.asarray(a, dtype=float), np.asarray(b, dtype=float), rtol=0, atol=0)


def check_variances(lib_var, exp, what, sig):
    if exp is None:
        return
    lv = np.asarray(lib_var, dtype=float)
    exp = np.asarray(exp, dtype=float)
    require(lv.size == exp.size, '%s: variances have %s entries, expected %s' % (
        what, lv.shape, exp.shape), sig + ':shape')
    scale = max(1e-300, float(np.max(np.abs(exp)))) if exp.size else 1.0
    require_close(lv.reshape(exp.shape), exp, what, sig, rtol=1e-7, atol=1e-9 * scale + 1e-15)


def expected_dof(case, boot):
    rd, pd = descs(case)
    g_r = len(U.group_values(U.rdm_labels(case, rd)))
    g_p = len(U.group_values(U.pat_labels(case, pd)))
    if boot == 'both':
        return min(g_r, g_p) - 1
    return (g_r if boot == 'rdm' else g_p) - 1


def check_dof(res, case, boot):
    exp = expected_dof(case, boot)
    require(res.dof == exp, 'dof is %r; %s resampled unit groups -> expected %d' % (
        res.dof, boot, exp), 'dof:' + case['routine'])


def result_arrays(res):
    out = dict(evaluations=np.array(res.evaluations, dtype=float),
               noise_ceiling=np.array(res.noise_ceiling, dtype=float),
               dof=np.array(res.dof, dtype=float))
    out['variances'] = (np.array([]) if res.variances is None
                        else np.array(res.variances, dtype=float))
    return out


def check_rerun(case, call, res):
    """same seed + same injected history -> every stored array bit-identical"""
    with U.harness(case['seed'], case['draws']), core.watchdog(WATCHDOG_S):
        res2 = lib(call, None)
    a, b = result_arrays(res), result_arrays(res2)
    for key in a:
        require(a[key].shape == b[key].shape and same(a[key], b[key]),
                'rerun with the same seed changed %s (max diff %.3g)' % (
                    key, core.maxdiff(a[key], b[key])), 'rerun:' + key)
    # ... and once more on the very objects of the first run (the same data, model and fitter
    # objects): nothing an earlier evaluation leaves behind on them may enter the next one
    with U.harness(case['seed'], case['draws']), core.watchdog(WATCHDOG_S):
        res3 = lib(call, True)
    c = result_arrays(res3)
    for key in a:
        require(a[key].shape == c[key].shape and same(a[key], c[key]),
                'rerun with the same seed on the same data / model objects changed %s (max diff '
                '%.3g)' % (key, core.maxdiff(a[key], c[key])), 'rerun-same-objects:' + key)


class Events:
    def __init__(self, events):
        self.events = events
        self.pos = 0

    def peek(self):
        return self.events[self.pos] if self.pos < len(self.events) else None

    def next(self, kind, what):
        e = self.peek()
        if e is None or e['ev'] != kind:
            raise Violation('%s: expected a %s call next, observed %s' % (
                what, kind, None if e is None else e['ev']), 'protocol:' + kind)
        self.pos += 1
        return e

    def done(self, what):
        require(self.pos == len(self.events), '%s: %d unexpected further calls (%s...)' % (
            what, len(self.events) - self.pos,
            self.events[self.pos]['ev'] if self.pos < len(self.events) else ''),
            'protocol:trailing')


def sample_ids(case, boot_ev, what):
    """expected source ids of a recorded bootstrap sample from its observed index draws;
    also checks the sample object against the source"""
    rd, pd = descs(case)
    n_rdm = len(case['data'])
    if boot_ev['rdm_idx'] is None:
        rid = list(range(n_rdm))
        rdm_idx = U.group_values(U.rdm_labels(case, rd))
    else:
        rdm_idx = boot_ev['rdm_idx']
        rid = U.expand_rdm(U.rdm_labels(case, rd), rdm_idx)
    if boot_ev['pattern_idx'] is None:
        cid = list(range(case['n_cond']))
        pattern_idx = U.group_values(U.pat_labels(case, pd))
    else:
        pattern_idx = boot_ev['pattern_idx']
        cid = U.expand_pat(U.pat_labels(case, pd), pattern_idx)
    s_rid, s_cid = U.check_content(case, boot_ev['sample'], what + ' sample object',
                                   'sample:content')
    require(sorted(s_rid) == sorted(rid) and sorted(s_cid) == sorted(cid),
            '%s: sample holds RDMs %s / conditions %s, the drawn indices %s / %s name %s / %s' % (
                what, s_rid, s_cid, boot_ev['rdm_idx'], boot_ev['pattern_idx'], rid, cid),
            'sample:idx')
    return rid, cid, [core.tolist(x) for x in rdm_idx], [core.tolist(x) for x in pattern_idx]


def py(x):
    return core.tolist(x)


def multiplicity(idx_unique, pattern_idx_boot):
    """fold's pattern groups repeated as often as the bootstrap drew them"""
    if pattern_idx_boot is None:
        return [py(g) for g in idx_unique]
    cnt = Counter(py(g) for g in pattern_idx_boot)
    out = []
    for g in idx_unique:
        out += [py(g)] * cnt[py(g)]
    return out


def check_folds(case, ev, models, sets_ev, stored, pattern_idx_boot, what):
    """stored: (n_models, n_folds) evaluations of one cross-validation run"""
    rd, pd = descs(case)
    stored = np.asarray(stored, dtype=float)
    n_folds = len(sets_ev['train'])
    require(stored.shape == (len(models), n_folds),
            '%s: %s stored evaluations for %d models x %d folds' % (
                what, stored.shape, len(models), n_folds), 'cv:shape')
    labels = U.pat_labels(case, pd)
    for f in range(n_folds):
        tr, te = sets_ev['train'][f], sets_ev['test'][f]
        w = '%s fold %d' % (what, f)
        tr_rid, tr_cid = U.check_content(case, tr['obj'], w + ' training set', 'fold:content')
        te_rid, te_cid = U.check_content(case, te['obj'], w + ' test set', 'fold:content')
        evaluable = (len(tr_rid) > 0 and len(te_rid) > 0 and len(tr_cid) > 2 and len(te_cid) > 2)
        if not evaluable:
            require(bool(np.all(np.isnan(stored[:, f]))),
                    '%s is too small to evaluate but not marked NaN: %s' % (w, stored[:, f]),
                    'nan:small-fold')
            continue
        for j, spec in enumerate(case['models']):
            e = ev.next('fit', w + ' model %d' % j)
            require(e['model'] is models[j] and (e['j'] is None or e['j'] == j),
                    '%s: fitter called for another model' % w, 'fit:model')
            if e['data'] is not tr['obj']:
                d_rid, d_cid = U.check_content(case, e['data'], w + ' data given to the fitter',
                                               'fit:data')
                require(sorted(d_rid) == sorted(tr_rid) and d_cid == tr_cid,
                        '%s: fitter got RDMs %s / conditions %s, training set is %s / %s' % (
                            w, d_rid, d_cid, tr_rid, tr_cid), 'fit:data')
            require(e['method'] == case['method'] and e['pattern_descriptor'] == pd,
                    '%s: fitter got method %r / descriptor %r' % (
                        w, e['method'], e['pattern_descriptor']), 'fit:args')
            exp_idx = multiplicity(tr['idx'], pattern_idx_boot)
            got_idx = [py(g) for g in e['pattern_idx']]
            require(Counter(got_idx) == Counter(exp_idx),
                    '%s: fitter got pattern_idx %s, training groups with bootstrap multiplicity '
                    'are %s' % (w, got_idx, exp_idx), 'fit:pattern-idx')
            require(U.expand_pat(labels, got_idx) == sorted(tr_cid),
                    '%s: pattern_idx %s given to the fitter selects conditions %s, the training '
                    'RDMs have %s' % (w, got_idx, U.expand_pat(labels, got_idx), tr_cid),
                    'fit:pattern-idx')
            pred = U.predict_ref(spec, e['theta'])
            compare_entry(case, stored[j, f], pred, te_rid, te_cid,
                          '%s model %d (%s, theta %s)' % (w, j, spec['type'], py(e['theta'])),
                          'eval:' + case['routine'], spec)


def check_cv_ceiling(case, ev, sets_ev, src_obj, stored, cv_dims, what):
    """the ceiling call made right after a sets_* call: arguments are that resample and its
    sets, the stored pair is the returned pair and equals a fresh call on rebuilt objects"""
    rd, pd = descs(case)
    e = ev.next('ceil', what)
    stored = np.asarray(stored, dtype=float)
    src_rid, src_cid = U.ids_of(src_obj)
    if cv_dims:
        require(e['kind'] == 'cv', '%s: cross-validated ceiling expected' % what, 'ceil:kind')
        require(e['rdms'] is src_obj and e['ceil_raw'] is sets_ev['raw'][2]
                and e['test_raw'] is sets_ev['raw'][1],
                '%s: noise ceiling computed from other sets than the resample\'s' % what,
                'ceil:args')
        require(e['method'] == case['method'] and e['pattern_descriptor'] == pd,
                '%s: ceiling got method %r / descriptor %r' % (
                    what, e['method'], e['pattern_descriptor']), 'ceil:args')
        ceil_set, test_set = [], []
        for f in range(len(e['ceil'])):
            c_rid, c_cid = U.check_content(case, e['ceil'][f]['obj'], what + ' ceil set',
                                           'fold:content')
            t_rid, t_cid = U.check_content(case, e['test'][f]['obj'], what + ' test set',
                                           'fold:content')
            tr_rid, _ = U.ids_of(sets_ev['train'][f]['obj'])
            require(sorted(c_rid) == sorted(tr_rid) and c_cid == t_cid,
                    '%s fold %d: ceiling set holds RDMs %s / conditions %s; training RDMs %s, '
                    'test conditions %s' % (what, f, c_rid, c_cid, tr_rid, t_cid),
                    'ceil:set-mismatch')
            ceil_set.append([U.rebuild(case, c_rid, c_cid), list(e['ceil'][f]['idx'])])
            test_set.append([U.rebuild(case, t_rid, t_cid), list(e['test'][f]['idx'])])
        exp = U.ORIG['cv_noise_ceiling'](U.rebuild(case, src_rid, src_cid), ceil_set, test_set,
                                         method=case['method'], pattern_descriptor=pd)
    else:
        require(e['kind'] == 'boot', '%s: leave-one-out ceiling expected' % what, 'ceil:kind')
        require(e['rdms'] is src_obj and e['method'] == case['method']
                and e['rdm_descriptor'] == rd,
                '%s: noise ceiling computed from something else than the resample' % what,
                'ceil:args')
        exp = U.ORIG['boot_noise_ceiling'](U.rebuild(case, src_rid, src_cid),
                                           method=case['method'], rdm_descriptor=rd)
    return e, np.array([exp[0], exp[1]], dtype=float)


def require_ceiling(stored, e, exp, what, sig):
    stored = np.asarray(stored, dtype=float)
    ret = np.array(e['ret'], dtype=float)
    require(stored.shape == ret.shape and same(stored, ret),
            '%s: stored noise ceiling %s is not the value computed for this resample %s' % (
                what, stored, ret), sig)
    require_close(stored, exp, what + ' (recomputed on the rebuilt resample)', sig + ':value',
                  rtol=1e-9, atol=1e-10)


# ============================================================================
# eval_fixed

def check_fixed(case):
    data = U.build_data(case)
    models = U.build_models(case)
    rec = U.Recorder()

    def call(first):
        d, ms = (data, models) if first else (U.build_data(case), U.build_models(case))
        return EV.eval_fixed(models_arg(case, ms), d, theta=U.theta_arg(case), method=case['method'])

    with U.harness(case['seed'], case['draws'], rec), core.watchdog(WATCHDOG_S):
        res = lib(call, True)
    n_rdm = len(case['data'])
    m = len(models)
    ev = np.asarray(res.evaluations, dtype=float)
    require(ev.shape == (1, m, n_rdm), 'evaluations shape %s' % (ev.shape,), 'shape:eval_fixed')
    preds = fixed_predictions(case, models)
    all_c = list(range(case['n_cond']))
    for k in range(m):
        for r in range(n_rdm):
            compare_entry(case, ev[0, k, r], preds[k], [r], all_c,
                          'eval_fixed model %d RDM %d' % (k, r), 'eval:eval_fixed',
                          case['models'][k])
    check_boot_ceiling(case, res.noise_ceiling, list(range(n_rdm)), all_c, case['method'],
                       'index', 'eval_fixed noise ceiling', 'ceil:eval_fixed')
    # covariance across RDMs (divisor n) divided by their number; dof = n_rdm - 1
    x = ev[0].T
    if not np.isnan(x).any():
        exp = U.cov_rows(x) * (n_rdm - 1) / n_rdm / n_rdm
        check_variances(res.variances, exp, 'eval_fixed variances', 'var:eval_fixed')
    require(res.dof == n_rdm - 1, 'dof %r for %d RDMs' % (res.dof, n_rdm), 'dof:eval_fixed')
    check_rerun(case, call, res)


# ============================================================================
# eval_bootstrap / _pattern / _rdm

BOOT_OF = {'eval_bootstrap': 'both', 'eval_bootstrap_pattern': 'pattern',
           'eval_bootstrap_rdm': 'rdm'}


def check_boot_fixed(case):
    routine = case['routine']
    boot = BOOT_OF[routine]
    rd, pd = descs(case)
    data = U.build_data(case)
    models = U.build_models(case)
    rec = U.Recorder()

    def call(first):
        d, ms = (data, models) if first else (U.build_data(case), U.build_models(case))
        kw = dict(theta=U.theta_arg(case), method=case['method'], N=case['N'],
                  rdm_descriptor=rd, boot_noise_ceil=case['boot_noise_ceil'])
        if boot != 'rdm':
            kw['pattern_descriptor'] = pd
        return getattr(EV, routine)(models_arg(case, ms), d, **kw)

    with U.harness(case['seed'], case['draws'], rec), core.watchdog(WATCHDOG_S):
        res = lib(call, True)
    N, m = case['N'], len(models)
    evals = np.asarray(res.evaluations, dtype=float)
    require(evals.shape == (N, m), 'evaluations shape %s' % (evals.shape,), 'shape:' + routine)
    nc = np.asarray(res.noise_ceiling, dtype=float)
    bnc = case['boot_noise_ceil']
    require(nc.shape == ((2, N) if bnc else (2,)), 'noise ceiling shape %s' % (nc.shape,),
            'shape:' + routine)
    preds = fixed_predictions(case, models)
    ev = Events(rec.events)
    for i in range(N):
        w = '%s sample %d' % (routine, i)
        b = ev.next('boot', w)
        require(b['kind'] == boot and b['src'] is data, '%s: wrong sampler' % w, 'protocol:boot')
        rid, cid, rdm_idx, pattern_idx = sample_ids(case, b, w)
        uniq = len(set(pattern_idx)) if boot != 'rdm' else 3
        row = evals[i]
        if np.all(np.isnan(row)):
            require(uniq < 3, '%s: %d distinct pattern groups drawn but marked NaN' % (w, uniq),
                    'nan:valid-marked')
            if bnc:
                require(bool(np.all(np.isnan(nc[:, i]))),
                        '%s: NaN sample has noise ceiling %s' % (w, nc[:, i]), 'nan:ceiling')
            continue
        require(len(set(cid)) >= 3, '%s: fewer than 3 distinct conditions but evaluated: %s' % (
            w, row), 'nan:small-evaluated')
        for k in range(m):
            compare_entry(case, row[k], preds[k], rid, cid, '%s model %d' % (w, k),
                          'eval:' + routine, case['models'][k])
        if bnc:
            e = ev.next('ceil', w)
            require(e['kind'] == 'boot' and e['rdms'] is b['sample'] and e['method'] == case['method']
                    and e['rdm_descriptor'] == rd,
                    '%s: noise ceiling not computed on this sample' % w, 'ceil:args')
            exp = U.ORIG['boot_noise_ceiling'](U.rebuild(case, rid, cid), method=case['method'],
                                               rdm_descriptor=rd)
            require_ceiling(nc[:, i], e, np.array([exp[0], exp[1]], dtype=float), w,
                            'ceil:' + routine)
    if not bnc:
        e = ev.next('ceil', routine + ' overall ceiling')
        require(e['kind'] == 'boot' and e['rdms'] is data and e['rdm_descriptor'] == rd,
                'overall noise ceiling not computed on the data', 'ceil:args')
        check_boot_ceiling(case, nc, list(range(len(case['data']))), list(range(case['n_cond'])),
                           case['method'], rd, routine + ' overall noise ceiling', 'ceil:' + routine)
    ev.done(routine)
    # covariance across evaluated resamples
    ok, clean = U.ok_rows(evals)
    if clean and ok.sum() >= 2:
        if bnc and routine != 'eval_bootstrap_rdm':
            mat = np.concatenate([evals[ok], nc[:, ok].T], axis=1)
        else:
            mat = evals[ok]
        if not np.isnan(mat).any():
            check_variances(res.variances, U.cov_rows(mat), routine + ' variances',
                            'var:' + routine)
    check_dof(res, case, boot)
    check_rerun(case, call, res)


# ============================================================================
# bootstrap_crossval / eval_dual_bootstrap

def resolve_k(case):
    """the documented defaults for k_pattern / k_rdm = None"""
    rd, pd = descs(case)
    g_r = len(U.group_values(U.rdm_labels(case, rd)))
    g_p = len(U.group_values(U.pat_labels(case, pd)))
    kp, kr = case['k_pattern'], case['k_rdm']
    return kp, kr, g_r, g_p


def observed_k(sets_ev):
    return sets_ev['opts']['k_pattern'], sets_ev['opts']['k_rdm']


def check_boot_cv(case):
    routine = case['routine']
    dual = routine == 'eval_dual_bootstrap'
    rd, pd = descs(case)
    data = U.build_data(case)
    models = U.build_models(case)
    rec = U.Recorder()
    fitters = U.build_fitters(case, models, rec.events)

    def call(first):
        if first:
            d, ms, ft = data, models, fitters
        else:
            d, ms = U.build_data(case), U.build_models(case)
            ft = U.build_fitters(case, ms, None)
        kw = dict(method=case['method'], fitter=ft, k_pattern=case['k_pattern'],
                  k_rdm=case['k_rdm'], N=case['N'], n_cv=case['n_cv'],
                  pattern_descriptor=pd, rdm_descriptor=rd,
                  use_correction=case['use_correction'])
        if not dual:
            kw['boot_type'] = case['boot_type']
        return getattr(EV, routine)(models_arg(case, ms), d, **kw)

    with U.harness(case['seed'], case['draws'], rec), core.watchdog(WATCHDOG_S):
        res = lib(call, True)
    N, m = case['N'], len(models)
    evals = np.asarray(res.evaluations, dtype=float)
    nc = np.asarray(res.noise_ceiling, dtype=float)
    require(evals.ndim == (5 if dual else 4) and evals.shape[:2] == (N, m),
            'evaluations shape %s' % (evals.shape,), 'shape:' + routine)
    n_folds, n_cv = evals.shape[2], evals.shape[3]
    kp_given, kr_given = case['k_pattern'], case['k_rdm']
    if kp_given is not None and kr_given is not None:
        require(n_folds == kp_given * kr_given, '%d folds stored for k_pattern=%d, k_rdm=%d' % (
            n_folds, kp_given, kr_given), 'shape:' + routine)
        if not (dual and kp_given == 1 and kr_given == 1):
            require(n_cv == case['n_cv'], '%d cv runs stored, n_cv=%d' % (n_cv, case['n_cv']),
                    'shape:' + routine)
    require(nc.shape == ((2, N, n_cv, 3) if dual else (2, N, n_cv)),
            'noise ceiling shape %s' % (nc.shape,), 'shape:' + routine)
    all_rg = U.group_values(U.rdm_labels(case, rd))
    all_pg = U.group_values(U.pat_labels(case, pd))
    ev = Events(rec.events)
    boot = case['boot_type']
    for i in range(N):
        w = '%s sample %d' % (routine, i)
        b = ev.next('boot', w)
        require(b['kind'] == boot and b['src'] is data, '%s: wrong sampler' % w, 'protocol:boot')
        rid, cid, rdm_idx, pattern_idx = sample_ids(case, b, w)
        nxt = ev.peek()
        evaluated = nxt is not None and nxt['ev'] == 'sets'
        u_r, u_p = len(set(rdm_idx)), len(set(pattern_idx))
        if not evaluated:
            kp = 2 if kp_given is None else kp_given
            kr = kr_given if kr_given is not None else (1 if (len(all_rg) == 1 and not dual) else 2)
            require(u_r < kr or u_p < 3 * kp,
                    '%s: %d RDM groups / %d pattern groups drawn (k_rdm=%s, k_pattern=%s) but '
                    'not evaluated' % (w, u_r, u_p, kr_given, kp_given), 'nan:valid-marked')
            require(bool(np.all(np.isnan(evals[i]))) and bool(np.all(np.isnan(nc[:, i]))),
                    '%s: not evaluated but evaluations / ceilings are not all NaN' % w,
                    'nan:unmarked')
            continue
        blocks = [(b['sample'], rid, cid, pattern_idx)]
        if dual:
            blocks.append((None, rid, list(range(case['n_cond'])), [py(g) for g in all_pg]))
            blocks.append((None, list(range(len(case['data']))), cid, pattern_idx))
        for rep in range(n_cv):
            for t, (obj, b_rid, b_cid, p_idx) in enumerate(blocks):
                wb = '%s cv run %d%s' % (w, rep, ' bootstrap type %d' % t if dual else '')
                s = ev.next('sets', wb)
                require(s['kind'] == 'k_fold', wb + ': wrong set generator', 'protocol:sets')
                if obj is not None:
                    require(s['src'] is obj, wb + ': folds not made from this sample',
                            'protocol:sets')
                s_rid, s_cid = U.check_content(case, s['src'], wb + ' resample', 'sample:content')
                require(sorted(s_rid) == sorted(b_rid) and sorted(s_cid) == sorted(b_cid),
                        '%s: cross-validated object holds RDMs %s / conditions %s, expected '
                        '%s / %s' % (wb, s_rid, s_cid, b_rid, b_cid), 'sample:idx')
                kp, kr = observed_k(s)
                require((kp_given is None or kp == kp_given) and (kr_given is None or kr == kr_given)
                        and s['opts']['pattern_descriptor'] == pd
                        and s['opts']['rdm_descriptor'] == rd and kp * kr == n_folds,
                        '%s: folds made with k_pattern=%s k_rdm=%s descriptors %s/%s' % (
                            wb, kp, kr, s['opts']['pattern_descriptor'],
                            s['opts']['rdm_descriptor']), 'protocol:sets-args')
                stored_nc = nc[:, i, rep, t] if dual else nc[:, i, rep]
                e, exp = check_cv_ceiling(case, ev, s, s['src'], stored_nc, kr > 1 or kp > 1, wb)
                require_ceiling(stored_nc, e, exp, wb, 'ceil:' + routine)
                stored = evals[i, :, :, rep, t] if dual else evals[i, :, :, rep]
                check_folds(case, ev, models, s, stored, p_idx, wb)
    ev.done(routine)
    # variances
    eff_corr = case['use_correction'] and not (dual and kp_given == 1 and kr_given == 1)
    if dual:
        exp = []
        for t in range(3):
            exp.append(U.cv_variances(evals[..., t], nc[..., t], n_cv, eff_corr))
        exp = None if any(x is None for x in exp) else np.array(exp)
    else:
        exp = U.cv_variances(evals, nc, n_cv, eff_corr)
    check_variances(res.variances, exp, routine + ' variances', 'var:' + routine)
    check_dof(res, case, boot)
    check_rerun(case, call, res)


# ============================================================================
# eval_dual_bootstrap_random

def check_random_cv(case):
    routine = case['routine']
    rd, pd = descs(case)
    data = U.build_data(case)
    models = U.build_models(case)
    rec = U.Recorder()
    fitters = U.build_fitters(case, models, rec.events)

    def call(first):
        if first:
            d, ms, ft = data, models, fitters
        else:
            d, ms = U.build_data(case), U.build_models(case)
            ft = U.build_fitters(case, ms, None)
        return EV.eval_dual_bootstrap_random(
            models_arg(case, ms), d, method=case['method'], fitter=ft, n_pattern=case['n_pattern_test'],
            n_rdm=case['n_rdm_test'], N=case['N'], n_cv=case['n_cv'], pattern_descriptor=pd,
            rdm_descriptor=rd, boot_type=case['boot_type'],
            use_correction=case['use_correction'])

    # n_cv, boot_type and use_correction are options the property quantifies over: an
    # exception from numpy's shape machinery for an admissible option is a violation
    with U.harness(case['seed'], case['draws'], rec), core.watchdog(WATCHDOG_S):
        try:
            res = call(True)
        except (ValueError, IndexError) as e:
            msg = str(e)
            kind = ('broadcast' if 'broadcast' in msg else
                    'concatenate' if 'number of dimensions' in msg else None)
            if kind is None:
                raise Reject('eval_dual_bootstrap_random raised %s: %s' % (
                    type(e).__name__, e), 'rejected:call:' + type(e).__name__)
            raise Violation('eval_dual_bootstrap_random(n_cv=%d, use_correction=%s) raised %s: %s'
                            % (case['n_cv'], case['use_correction'], type(e).__name__, e),
                            'raises:eval_dual_bootstrap_random:' + kind)
        except (Violation, Reject, core.Inconclusive, core._Alarm):
            raise
        except Exception as e:  # noqa: BLE001
            raise Reject('eval_dual_bootstrap_random raised %s: %s' % (type(e).__name__, e),
                         'rejected:call:' + type(e).__name__)
    N, m, n_cv = case['N'], len(models), case['n_cv']
    evals = np.asarray(res.evaluations, dtype=float)
    nc = np.asarray(res.noise_ceiling, dtype=float)
    require(evals.shape == (N, m, n_cv) and nc.shape == (2, N, n_cv),
            'shapes %s / %s' % (evals.shape, nc.shape), 'shape:' + routine)
    all_rg = U.group_values(U.rdm_labels(case, rd))
    all_pg = U.group_values(U.pat_labels(case, pd))
    np_t, nr_t = case['n_pattern_test'], case['n_rdm_test']
    if np_t is None:
        np_t = len(all_pg) // 2
    if nr_t is None:
        nr_t = len(all_rg) // 2
    ev = Events(rec.events)
    boot = case['boot_type']
    for i in range(N):
        w = '%s sample %d' % (routine, i)
        b = ev.next('boot', w)
        require(b['kind'] == boot and b['src'] is data, '%s: wrong sampler' % w, 'protocol:boot')
        rid, cid, rdm_idx, pattern_idx = sample_ids(case, b, w)
        nxt = ev.peek()
        if not (nxt is not None and nxt['ev'] == 'sets'):
            u_r, u_p = len(set(rdm_idx)), len(set(pattern_idx))
            require(u_r <= nr_t or u_p < 3 + np_t,
                    '%s: %d RDM groups / %d pattern groups drawn (test sets of %d / %d) but not '
                    'evaluated' % (w, u_r, u_p, nr_t, np_t), 'nan:valid-marked')
            require(bool(np.all(np.isnan(evals[i]))) and bool(np.all(np.isnan(nc[:, i]))),
                    '%s: not evaluated but evaluations / ceilings are not all NaN' % w,
                    'nan:unmarked')
            continue
        s = ev.next('sets', w)
        require(s['kind'] == 'random' and s['src'] is b['sample'] and len(s['train']) == n_cv
                and s['opts']['pattern_descriptor'] == pd and s['opts']['rdm_descriptor'] == rd,
                w + ': test sets not drawn from this sample', 'protocol:sets')
        e, exp = check_cv_ceiling(case, ev, s, b['sample'], None,
                                  s['opts']['n_rdm'] > 0 or s['opts']['n_pattern'] > 0, w)
        for rep in range(n_cv):
            require_ceiling(nc[:, i, rep], e, exp, '%s cv run %d' % (w, rep), 'ceil:' + routine)
        check_folds(case, ev, models, s, evals[i], pattern_idx, w)
    ev.done(routine)
    exp = U.cv_variances(evals[:, :, None, :], nc, n_cv, case['use_correction'])
    check_variances(res.variances, exp, routine + ' variances', 'var:' + routine)
    check_dof(res, case, boot)
    check_rerun(case, call, res)


# ============================================================================
# crossval with user-supplied sets

def build_sets(case):
    rd, pd = descs(case)
    labels = U.pat_labels(case, pd)
    pg = U.group_values(labels)
    train, test, ceil = [], [], []
    for f in case['folds']:
        tr_idx = [pg[k] for k in f['train_pat']]
        te_idx = [pg[k] for k in f['test_pat']]
        tr_cid = U.expand_pat(labels, tr_idx)
        te_cid = U.expand_pat(labels, te_idx)
        train.append([U.rebuild(case, f['train_rdm'], tr_cid), list(tr_idx)])
        test.append([U.rebuild(case, f['test_rdm'], te_cid), list(te_idx)])
        ceil.append([U.rebuild(case, f['train_rdm'], te_cid), list(te_idx)])
    return train, test, ceil


def check_crossval(case):
    rd, pd = descs(case)
    data = U.build_data(case)
    models = U.build_models(case)
    rec = U.Recorder()
    fitters = U.build_fitters(case, models, rec.events)
    sets = build_sets(case)

    def call(first):
        if first:
            d, ms, ft, (tr, te, ce) = data, models, fitters, sets
        else:
            d, ms = U.build_data(case), U.build_models(case)
            ft = U.build_fitters(case, ms, None)
            tr, te, ce = build_sets(case)
        return EV.crossval(models_arg(case, ms), d, tr, te, ceil_set=ce if case['ceil'] == 'given' else None,
                           method=case['method'], fitter=ft, pattern_descriptor=pd,
                           calc_noise_ceil=case['ceil'] != 'off')

    small = [len(U.ids_of(te[0])[1]) <= 2 for te in sets[1]]
    if case['ceil'] == 'given' and any(small):
        raise Reject('ceiling sets with a fold too small', 'domain:small-fold-with-ceil-set')
    with U.harness(case['seed'], case['draws'], rec), core.watchdog(WATCHDOG_S):
        res = lib(call, True)
    m, F = len(models), len(case['folds'])
    evals = np.asarray(res.evaluations, dtype=float)
    require(evals.shape == (1, m, F), 'evaluations shape %s' % (evals.shape,), 'shape:crossval')
    nc = np.asarray(res.noise_ceiling, dtype=float)
    # re-sort the event log: fits (and per-fold ceilings) are consumed fold by fold
    fits = Events([e for e in rec.events if e['ev'] == 'fit'])
    ceils = [e for e in rec.events if e['ev'] == 'ceil']
    sets_ev = dict(train=[dict(obj=s[0], idx=list(s[1])) for s in sets[0]],
                   test=[dict(obj=s[0], idx=list(s[1])) for s in sets[1]])
    check_folds(case, fits, models, sets_ev, evals[0], None, 'crossval')
    fits.done('crossval')
    n_all = list(range(len(case['data'])))
    labels = U.pat_labels(case, pd)
    if case['ceil'] == 'off':
        require(len(ceils) == 0 and bool(np.all(np.isnan(nc))),
                'calc_noise_ceil=False but a ceiling was computed / stored', 'ceil:crossval')
    elif case['ceil'] == 'none':
        done = [f for f in range(F) if not small[f]]
        require(len(ceils) == len(done) and (nc.shape == (2, len(done)) or
                                             (not done and nc.size == 0)),
                'noise ceiling shape %s for %d evaluated folds' % (nc.shape, len(done)),
                'ceil:crossval')
        for k, f in enumerate(done):
            e = ceils[k]
            te_cid = U.expand_pat(labels, sets_ev['test'][f]['idx'])
            c_rid, c_cid = U.check_content(case, e['rdms'], 'crossval fold %d ceiling data' % f,
                                           'ceil:args')
            require(e['kind'] == 'boot' and sorted(c_rid) == n_all and c_cid == te_cid
                    and e['method'] == case['method'],
                    'crossval fold %d: ceiling computed on RDMs %s / conditions %s, expected all '
                    'RDMs at the test conditions %s' % (f, c_rid, c_cid, te_cid), 'ceil:args')
            exp = U.ORIG['boot_noise_ceiling'](U.rebuild(case, n_all, te_cid),
                                               method=case['method'])
            require_ceiling(nc[:, k], e, np.array([exp[0], exp[1]], dtype=float),
                            'crossval fold %d' % f, 'ceil:crossval')
    else:
        require(len(ceils) == 1 and ceils[0]['kind'] == 'cv' and ceils[0]['rdms'] is data
                and ceils[0]['ceil_raw'] is sets[2] and ceils[0]['test_raw'] is sets[1]
                and ceils[0]['method'] == case['method']
                and ceils[0]['pattern_descriptor'] == pd,
                'cross-validated ceiling not computed from the supplied sets', 'ceil:args')
        tr2, te2, ce2 = build_sets(case)
        exp = U.ORIG['cv_noise_ceiling'](U.build_data(case), ce2, te2, method=case['method'],
                                         pattern_descriptor=pd)
        require_ceiling(nc, ceils[0], np.array([exp[0], exp[1]], dtype=float), 'crossval',
                        'ceil:crossval')
    check_rerun(case, call, res)


# ============================================================================
# classification

def _grouped(case):
    out = []
    for key in ('rdm_groups', 'pat_groups'):
        g = case.get(key)
        if g is not None and len(set(g)) < len(g):
            out.append(key)
    return out


def _sample_validity(case):
    """(n valid, n too small) resamples, from the injected history"""
    routine = case['routine']
    boot = case.get('boot_type') or BOOT_OF.get(routine)
    if not case.get('draws') or boot is None:
        return 0, 0
    g_r = n_groups(case['rdm_groups'], len(case['data']))
    g_p = n_groups(case['pat_groups'], case['n_cond'])
    per = 2 if boot == 'both' else 1
    valid = small = 0
    for i in range(case['N']):
        d = case['draws'][i * per:(i + 1) * per]
        u_r = len({x % g_r for x in d[0]}) if boot in ('both', 'rdm') else g_r
        u_p = len({x % g_p for x in d[-1]}) if boot in ('both', 'pattern') else g_p
        if routine in BOOT_OF:
            ok = u_p >= 3
        elif routine == 'eval_dual_bootstrap_random':
            np_t = case['n_pattern_test'] if case['n_pattern_test'] is not None else g_p // 2
            nr_t = case['n_rdm_test'] if case['n_rdm_test'] is not None else g_r // 2
            ok = u_r > nr_t and u_p >= 3 + np_t
        else:
            kp = 2 if case['k_pattern'] is None else case['k_pattern']
            kr = case['k_rdm'] if case['k_rdm'] is not None else (
                1 if (g_r == 1 and routine != 'eval_dual_bootstrap') else 2)
            ok = u_r >= kr and u_p >= 3 * kp
        valid += ok
        small += not ok
    return valid, small


def classify(case):
    routine = case['routine']
    labels = ['routine:' + routine, 'method:' + case['method'],
              'n_models=%d' % len(case['models'])]
    grouped = _grouped(case)
    labels += ['grouped:' + g for g in grouped] or ['grouped:none']
    for t in sorted({s['type'] for s in case['models']}):
        labels.append('model:' + t)
    if case.get('ties'):
        labels.append('values:ties')
    if case.get('bare_model'):
        labels.append('models:bare')
    flexible = any(s['type'] != 'fixed' for s in case['models'])
    if 'theta' in case:
        labels.append('theta:' + ('none' if case['theta'] is None else 'given'))
    if 'fitters' in case:
        f = case['fitters']
        labels.append('fitters:' + ('none' if f is None else 'single' if isinstance(f, str)
                                    else 'list'))
        for nm in ([f] if isinstance(f, str) else (f or [])):
            labels.append('fitter:' + nm)
    for key in ('boot_type', 'k_pattern', 'k_rdm', 'n_cv', 'use_correction', 'boot_noise_ceil',
                'n_pattern_test', 'n_rdm_test', 'ceil'):
        if key in case:
            labels.append('%s=%s' % (key, case[key]))
    valid, small = _sample_validity(case)
    if valid and small:
        labels.append('samples:mixed')
    elif small:
        labels.append('samples:all-too-small')
    elif valid:
        labels.append('samples:all-valid')
    if valid >= 2:
        labels.append('samples:>=2-valid')
    nt = bool(grouped) or (valid > 0 and small > 0) or flexible
    return labels, nt


from vf.props import c04_fresh as FR  # noqa: E402

SUBCHECKS = [
    SubCheck('eval_fixed', fixed_case(), check_fixed, classify, quick=120, thorough=1200,
             doc='per-RDM evaluations at supplied theta, cov(ddof=0)/n, dof, ceiling on the data'),
    SubCheck('eval_bootstrap', boot_fixed_case('eval_bootstrap', 'both'), check_boot_fixed,
             classify, quick=120, thorough=1200, doc='two-factor bootstrap at supplied theta'),
    SubCheck('eval_bootstrap_pattern', boot_fixed_case('eval_bootstrap_pattern', 'pattern'),
             check_boot_fixed, classify, quick=120, thorough=1200, doc='bootstrap over conditions'),
    SubCheck('eval_bootstrap_rdm', boot_fixed_case('eval_bootstrap_rdm', 'rdm'),
             check_boot_fixed, classify, quick=120, thorough=1200, doc='bootstrap over RDMs'),
    SubCheck('crossval', crossval_case(), check_crossval, classify, quick=120, thorough=1200,
             doc='user-supplied train/test/ceil sets: theta of that fold only, test conditions'),
    SubCheck('bootstrap_crossval', cv_case('bootstrap_crossval'), check_boot_cv, classify,
             quick=100, thorough=900, doc='k-fold cross-validation inside each bootstrap sample, 3 boot types'),
    SubCheck('eval_dual_bootstrap', cv_case('eval_dual_bootstrap'), check_boot_cv, classify,
             quick=48, thorough=480, doc='three bootstraps sharing the same draws, cross-validated'),
    SubCheck('eval_dual_bootstrap_random', random_cv_case(), check_random_cv, classify,
             quick=100, thorough=900, doc='random test sets per bootstrap sample'),
    SubCheck('rerun_fresh_process', FR.fresh_case(), FR.check_fresh, FR.classify_fresh, quick=6,
             thorough=64, doc='same seed in two fresh interpreters with different PYTHONHASHSEED: '
                              'stored arrays bit-identical'),
]
