"""C13 - missing dissimilarities are ignored consistently or rejected, never misaligned."""
import math

import numpy as np
from hypothesis import strategies as st

from vf import core, gen, ref
from vf.core import SubCheck, Violation, Reject, lib, require, require_close
from vf.props import c07_ref as cref

from rsatoolbox.rdm import RDMs, compare
from rsatoolbox.rdm.combine import rescale, from_partials
from rsatoolbox.util.inference_util import pool_rdm as pool_inference
from rsatoolbox.util.pooling import pool_rdm as pool_pooling
from rsatoolbox.inference.noise_ceiling import boot_noise_ceiling
from rsatoolbox.model import ModelWeighted
from rsatoolbox.model.fitter import fit_regress, fit_regress_nn

VEC_METHODS = ['cosine', 'corr', 'spearman', 'kendall', 'tau-a', 'rho-a', 'cosine_cov', 'corr_cov']
WHITENED = ('cosine_cov', 'corr_cov')
POOL_METHODS = ['cosine', 'corr', 'cosine_cov', 'corr_cov', 'spearman', 'rho-a', 'kendall',
                'tau-a', 'euclid']
FIT_METHODS = ['cosine', 'corr', 'cosine_cov', 'corr_cov']
RESCALE_METHODS = ['evidence', 'setsize', 'simple']

RULE = ("Hypothesis-generated RDM stacks (3-7 conditions, 1-4 RDMs; dyadic-grid, small-integer "
        "(ties) and decimal values) with masks of missing entries: common to all RDMs (arbitrary "
        "bit masks, or produced by RDMs.subsample_pattern with repeated conditions), at different "
        "positions with equal counts (between the two stacks, inside the first or the second "
        "stack, model vs data), differing per RDM (bit masks or rsatoolbox.rdm.combine.from_partials "
        "of condition subsets); crossed with the 8 vector-based comparison measures, sigma_k "
        "None / positive vector / SPD matrix, both pool_rdm implementations, boot_noise_ceiling, "
        "fit_regress(_nn), RDMs.mean weights (none, full array finite, full array NaN-matched, "
        "per-RDM vector, descriptor name holding either) and the three rescale methods. Oracles: "
        "the measure / pooled vector / ceiling / (NN)LS fit recomputed on the arrays with the "
        "missing entries deleted (dense V with the matching rows and columns deleted), a raised "
        "exception for differing positions, an explicit-loop weighted mean, and scale laws for "
        "rescale. Non-trivial: the mask is non-empty and leaves >= 3 (fits: >= n_basis+2) entries; "
        "rejection cases: equal counts at different positions; mean/rescale: at least one entry "
        "missing in some but not all RDMs. Distinct by SHA1 of the case.")
ASSUMPTIONS = [
    "matrix-based measures (bures, bures_metric, neg_riem_dist) have no 'entry deleted' "
    "definition and are outside this check: on this tree they raise when the number of remaining "
    "entries is not triangular and silently treat the remaining entries as a smaller RDM when it is",
    "weights are positive and finite wherever the dissimilarity exists",
    "rescale: input dissimilarities are positive; convergence to a common scale is asserted for "
    "mutually proportional partial RDMs whose overlap graph is connected through shared pairs, at "
    "threshold=1e-16 with a 1e-3 bound (calibration: remaining spread ~ K*sqrt(threshold), K <= 1.2e3 "
    "on 6000 cases -> <= 1.2e-5 expected) and as 'never further apart than before' at the default "
    "threshold (the default threshold leaves up to 11 % spread on weakly overlapping sets, so no "
    "absolute bound is claimed there)",
    "whitened values through conjugate gradients (2-D sigma_k, pooling/fits with V) are compared "
    "at atol 1e-4 (library cg rtol 1e-5); theta of whitened fits at atol 2e-3 (cg error amplified by "
    "cond(V) <= 100)",
    "fits: bases with cond(X X') > 1e8 (with V: cond(X V^-1 X') > 1e3) are outside the domain "
    "(solution not determined to the stated tolerance); whitened fits use sigma_k with "
    "cond(V) <= 100 because the library's CG whitening (rtol 1e-5) loses accuracy with cond(V)",
    "fit_regress(_nn) pool the data without sigma_k also for complete RDMs (pinned tree) or with "
    "sigma_k (C08 repair); the reference accepts either pooling - which one is right belongs to C08",
    "fit_regress_nn can spin for ever on data with a large dynamic range (absolute stopping "
    "threshold 100*eps); a 3 s watchdog marks such cases inconclusive",
    "numpy.linalg.inv/solve and scipy.optimize.nnls are trusted",
]

TOL_CG = 1e-4
TOL_FIT_CG = 2e-3


# ---------------------------------------------------------------------------
# generators: values and masks

def spread_rows(rows, keep):
    """construction instead of rejection: a row whose kept entries are (nearly) constant
    gets its first kept entry moved away (pure function of the drawn values)"""
    keep = list(keep)
    first = keep.index(True)
    out = []
    for r in rows:
        r = [float(x) for x in r]
        kept = [x for x, k in zip(r, keep) if k]
        mx = max(abs(x) for x in kept)
        if max(kept) - min(kept) < 0.0625 * max(1.0, mx):
            r[first] = r[first] + 1.0 + mx
        out.append(r)
    return out


@st.composite
def common_mask(draw, p, min_keep=3):
    """boolean list, >=1 missing, >= min_keep kept (p > min_keep)"""
    m = draw(st.lists(st.booleans(), min_size=p, max_size=p))
    if sum(m) < min_keep:
        perm = draw(gen.permutation(p))
        for i in perm:
            if sum(m) >= min_keep:
                break
            m[i] = True
    if all(m):
        m[draw(st.integers(0, p - 1))] = False
    return m


@st.composite
def moved_mask(draw, mask):
    """a mask with the same count at a different position: swap one kept with one missing"""
    kept = [i for i, k in enumerate(mask) if k]
    miss = [i for i, k in enumerate(mask) if not k]
    i = draw(st.sampled_from(kept))
    j = draw(st.sampled_from(miss))
    m2 = list(mask)
    m2[i], m2[j] = False, True
    return m2


@st.composite
def boot_idx(draw, n0, m):
    """sorted sample of m conditions out of n0 with >=3 distinct and >=1 repeated"""
    extra = draw(st.lists(st.integers(0, n0 - 1), min_size=m - 4, max_size=m - 4))
    idx = [0, 1, 2] + extra
    idx.append(idx[draw(st.integers(0, len(idx) - 1))])
    shift = draw(st.integers(0, n0 - 1))
    return sorted((i + shift) % n0 for i in idx)


@st.composite
def sigma_spec(draw, n, kinds=('1d', '2d', 'none')):
    kind = draw(st.sampled_from(list(kinds)))
    if kind == 'none':
        return None
    if kind == '1d':
        return {'kind': '1d', 'val': draw(gen.pos_vector(n))}
    return {'kind': '2d', 'val': draw(gen.spd(n))}


@st.composite
def mild_sigma_spec(draw, n):
    """None or a well-conditioned SPD matrix (cond(V) <~ 40): the fitters whiten by conjugate
    gradients with rtol 1e-5 and the error of theta grows with cond(V)"""
    if draw(st.sampled_from(['2d', '2d', 'none'])) == 'none':
        return None
    a = np.array(draw(gen.matrix(n, n, kind='grid', kmax=2)))
    c = draw(st.sampled_from([1.0, 2.0]))
    m = a @ a.T / n + c * np.eye(n)
    return {'kind': '2d', 'val': ((m + m.T) / 2).tolist()}


def sigma_arr(spec):
    return None if spec is None else np.array(spec['val'], dtype=float)


def sigma_label(spec):
    return 'sigma:' + ('none' if spec is None else spec['kind'])


def apply_mask(rows, keep):
    a = np.array(rows, dtype=float)
    a[:, ~np.asarray(keep, bool)] = np.nan
    return a


def masked_stacks(case):
    """-> (a, b) NaN-bearing arrays as the library sees them, keep mask, n_cond,
    for both mask kinds of the 'common' sub-checks"""
    if case['mask_kind'] == 'bootstrap':
        n0, idx = case['n0'], case['idx']
        out = []
        for rows in (case['v1'], case['v2']):
            full = RDMs(np.array(rows, dtype=float))
            sub = lib(full.subsample_pattern, 'index', list(idx))
            expect = ref.sample_rdm_vectors(rows, n0, range(len(rows)), idx)
            require(core.close(sub.dissimilarities, expect, 0, 0),
                    'subsample_pattern(%r) does not give the expected sample' % (idx,),
                    'bootstrap:subsample_pattern')
            out.append(expect)
        keep = ~np.isnan(out[0][0])
        return out[0], out[1], keep, len(idx)
    keep = np.array(case['mask'], bool)
    return apply_mask(case['v1'], keep), apply_mask(case['v2'], keep), keep, case['n']


@st.composite
def two_stacks(draw, n1_range=(1, 3), n2_range=(1, 3), min_keep=3, nonneg=False):
    """common part of the 'common mask' cases"""
    mask_kind = draw(st.sampled_from(['arbitrary', 'arbitrary', 'bootstrap']))
    n1 = draw(st.integers(*n1_range))
    n2 = draw(st.integers(*n2_range))
    kind = draw(st.sampled_from(['pos', 'smallpos', 'float'] if nonneg else
                                ['grid', 'grid', 'smallint', 'float', 'pos']))

    def rows(k, p):
        if kind == 'smallpos':
            return draw(st.lists(st.lists(st.integers(0, 4).map(float), min_size=p, max_size=p),
                                 min_size=k, max_size=k))
        if kind == 'float' and nonneg:
            return draw(st.lists(st.lists(gen.any_float(0.0, 100.0), min_size=p, max_size=p),
                                 min_size=k, max_size=k))
        return draw(gen.matrix(k, p, kind=kind))
    case = dict(mask_kind=mask_kind, kind=kind)
    if mask_kind == 'bootstrap':
        n0 = draw(st.integers(3, 6))
        m = draw(st.integers(max(4, min_keep + 1), 7))
        idx = draw(boot_idx(n0, m))
        p0 = ref.n_pairs(n0)
        # keep-mask of the sample is a function of idx
        keep = [idx[i] != idx[j] for (i, j) in ref.pairs(m)]
        # the sample rows must not be constant on the kept entries: fix the base rows on
        # the base pairs that occur in the sample
        base_keep = [a in idx and b in idx for (a, b) in ref.pairs(n0)]
        v1 = spread_rows(rows(n1, p0), base_keep)
        v2 = spread_rows(rows(n2, p0), base_keep)
        case.update(n0=n0, idx=idx, n=m, v1=v1, v2=v2)
    else:
        n = draw(st.integers(4, 7))
        p = ref.n_pairs(n)
        keep = draw(common_mask(p, min_keep))
        case.update(n=n, mask=keep, v1=spread_rows(rows(n1, p), keep),
                    v2=spread_rows(rows(n2, p), keep))
    return case


def rows_ok(a, keep):
    """every row has non-constant kept entries (bootstrap samples of a non-constant base
    row can still be constant)"""
    x = a[:, keep]
    return bool(np.all(x.max(axis=1) - x.min(axis=1) >= 0.0625 * np.maximum(1.0, np.abs(x).max(axis=1))))


def common_labels(case, keep):
    n_miss = int((~np.asarray(keep, bool)).sum())
    return ['mask:' + case['mask_kind'], 'missing:%s' % ('1' if n_miss == 1 else '2+'),
            'values:' + case['kind'], 'n=%d' % case['n']]


def case_keep(case):
    if case['mask_kind'] == 'bootstrap':
        idx = case['idx']
        return [idx[i] != idx[j] for (i, j) in ref.pairs(len(idx))]
    return case['mask']


# ---------------------------------------------------------------------------
# 1. compare with a common mask == compare on the entries that exist

@st.composite
def compare_common_case(draw):
    case = draw(two_stacks())
    method = draw(st.sampled_from(VEC_METHODS))
    case['method'] = method
    case['sigma'] = draw(sigma_spec(case['n'])) if method in WHITENED else None
    case['arr2'] = draw(st.booleans())
    return case


def check_compare_common(case):
    a, b, keep, n = masked_stacks(case)
    if not (rows_ok(a, keep) and rows_ok(b, keep)):
        raise Reject('constant row after sampling', 'degenerate:constant-row')
    method = case['method']
    sk = sigma_arr(case['sigma'])
    r1 = RDMs(gen.relayout(a.copy()))
    r2 = gen.relayout(b.copy()) if case['arr2'] else RDMs(gen.relayout(b.copy()))
    sig = 'compare:common:' + method
    if method in WHITENED:
        sig += ':' + sigma_label(case['sigma']).replace(':', '-')
    got = lib(compare, r1, r2, method=method, sigma_k=sk, on_error='violation',
              sig=sig + ':raises')
    got = np.asarray(got, dtype=float)
    require(got.shape == (a.shape[0], b.shape[0]),
            'compare(%s) shape %s for stacks of %d and %d' % (method, got.shape, len(a), len(b)),
            sig + ':shape')
    want = ref.compare(method, np.nan_to_num(a), np.nan_to_num(b), sigma_k=sk, n=n, keep=keep)
    # 2-D sigma_k is whitened through conjugate gradients; 1-D sigma_k takes the same path once
    # it is routed to the exact formula (C03 repair), so both get the CG tolerance
    cg = case['sigma'] is not None
    require_close(got, want, 'compare(%s, %s) with %d of %d entries missing in every RDM (%s mask) '
                  'vs the measure on the remaining entries' % (
                      method, sigma_label(case['sigma']), int((~keep).sum()), keep.size,
                      case['mask_kind']),
                  sig, rtol=0 if cg else 1e-9, atol=TOL_CG if cg else 1e-10)


def classify_compare_common(case):
    keep = case_keep(case)
    labels = common_labels(case, keep) + ['method:' + case['method']]
    if case['method'] in WHITENED:
        labels.append(sigma_label(case['sigma']))
    return labels, sum(keep) >= 3 and not all(keep)


# ---------------------------------------------------------------------------
# 2. masks at different positions must be rejected

@st.composite
def compare_reject_case(draw):
    n = draw(st.integers(4, 6))
    p = ref.n_pairs(n)
    where = draw(st.sampled_from(['between', 'within1', 'within2', 'partials']))
    if where == 'partials':
        # one stack made by from_partials from two different condition subsets of equal size
        # (equal NaN counts at different positions), compared with itself
        size = draw(st.integers(2, n - 1))
        perm = draw(gen.permutation(n))
        sub_a = sorted(perm[:size])
        sub_b = sorted(perm[1:size + 1])
        kind = draw(st.sampled_from(['grid', 'smallint', 'pos']))
        method = draw(st.sampled_from(VEC_METHODS))
        sigma = draw(sigma_spec(n, kinds=('2d', 'none'))) if method in WHITENED else None
        return dict(n=n, where=where, counts='equal', subs=[sub_a, sub_b],
                    v1=draw(gen.matrix(2, p, kind=kind)), method=method, sigma=sigma,
                    m1=[a in sub_a and b in sub_a for (a, b) in ref.pairs(n)],
                    m2=[a in sub_b and b in sub_b for (a, b) in ref.pairs(n)])
    n1 = draw(st.integers(2 if where == 'within1' else 1, 3))
    n2 = draw(st.integers(2 if where == 'within2' else 1, 3))
    counts = draw(st.sampled_from(['equal', 'equal', 'equal', 'unequal', 'one-complete']))
    m1 = draw(common_mask(p, 3))
    if counts == 'one-complete':
        # a complete stack (model predictions) against one with missing entries, in either order
        where = 'between'
        m2 = list(m1)
        m1 = [True] * p
        if draw(st.booleans()):
            m1, m2 = m2, m1
    elif counts == 'equal':
        m2 = draw(moved_mask(m1))
    else:
        m2 = list(m1)
        m2[draw(st.sampled_from([i for i, k in enumerate(m1) if not k]))] = True
    kind = draw(st.sampled_from(['grid', 'smallint', 'pos']))
    v1 = draw(gen.matrix(n1, p, kind=kind))
    v2 = draw(gen.matrix(n2, p, kind=kind))
    odd = draw(st.integers(1, 2))       # which row carries the other mask (within-stack cases)
    method = draw(st.sampled_from(VEC_METHODS))
    sigma = draw(sigma_spec(n, kinds=('2d', 'none'))) if method in WHITENED else None
    return dict(n=n, where=where, counts=counts, m1=m1, m2=m2, v1=v1, v2=v2, odd=odd,
                method=method, sigma=sigma, arr2=draw(st.booleans()))


def reject_arrays(case):
    if case['where'] == 'partials':
        rd, expect = partial_stack(case['v1'], case['n'], case['subs'], 'from_partials')
        return expect, expect
    m1, m2 = np.array(case['m1'], bool), np.array(case['m2'], bool)
    a = apply_mask(case['v1'], m1)
    b = apply_mask(case['v2'], m1)
    if case['where'] == 'between':
        b = apply_mask(case['v2'], m2)
    elif case['where'] == 'within1':
        r = 1 + (case['odd'] - 1) % (len(a) - 1)
        a[r] = apply_mask([case['v1'][r]], m2)[0]
    else:
        r = 1 + (case['odd'] - 1) % (len(b) - 1)
        b[r] = apply_mask([case['v2'][r]], m2)[0]
    return a, b


def check_compare_reject(case):
    a, b = reject_arrays(case)
    r1 = RDMs(a.copy())
    r2 = b.copy() if case.get('arr2') else RDMs(b.copy())
    try:
        got = compare(r1, r2, method=case['method'], sigma_k=sigma_arr(case['sigma']))
    except Exception:  # noqa: BLE001  the demanded outcome
        return
    raise Violation('compare(%s) returned %s for RDMs whose missing entries sit at different '
                    'positions (%s, %s counts: masks %s vs %s) instead of raising' % (
                        case['method'], core._short(got), case['where'], case['counts'],
                        ''.join('x' if k else '.' for k in case['m1']),
                        ''.join('x' if k else '.' for k in case['m2'])),
                    'compare:misaligned')


def classify_compare_reject(case):
    labels = ['where:' + case['where'], 'counts:' + case['counts'], 'method:' + case['method']]
    if case['method'] in WHITENED:
        labels.append(sigma_label(case['sigma']))
    return labels, case['counts'] == 'equal'


# ---------------------------------------------------------------------------
# 3. pooled RDMs with a common mask

@st.composite
def pool_case(draw):
    case = draw(two_stacks(n1_range=(2, 4), n2_range=(1, 1), nonneg=True))
    del case['v2']
    case['fn'] = draw(st.sampled_from(['inference_util', 'pooling']))
    method = draw(st.sampled_from(POOL_METHODS))
    case['method'] = method
    case['sigma'] = (draw(sigma_spec(case['n'], kinds=('2d', 'none')))
                     if method in WHITENED and case['fn'] == 'pooling' else None)
    return case


def pooled_ref(x, method, fn, v):
    if fn == 'pooling' and method in WHITENED:
        return cref.pool_whitened(x, method, v)
    return cref.pool(x, method)


def compare_pooled(got, want, method, what, sig, atol):
    """pooled vectors are defined up to the invariance of the measure"""
    if method in cref.COS_TYPES:
        g, w = got, want
        if math.sqrt(float(w @ w)) < 1e-6:
            raise Reject('pooled vector vanishes', 'degenerate:zero-pool')
        require(float(g @ g) > 0, what + ': pooled vector is zero', sig)
        g, w = cref.unit(g), cref.unit(w)
    elif method in cref.CORR_TYPES:
        wc = want - want.mean()
        if math.sqrt(float(wc @ wc)) < 1e-6:
            raise Reject('pooled vector vanishes', 'degenerate:zero-pool')
        gc = got - got.mean()
        require(float(gc @ gc) > 0, what + ': pooled vector is constant', sig)
        g, w = cref.unit(gc), cref.unit(wc)
    else:
        g, w = got, want
    require_close(g, w, what, sig, rtol=0, atol=atol)


def check_pool(case):
    case = dict(case, v2=case['v1'][:1])
    a, _, keep, n = masked_stacks(case)
    if not rows_ok(a, keep):
        raise Reject('constant row after sampling', 'degenerate:constant-row')
    method, fn = case['method'], case['fn']
    sk = sigma_arr(case['sigma'])
    sig = 'pool:%s:%s' % (fn, method)
    rd = RDMs(gen.relayout(a.copy()))
    if fn == 'pooling':
        pooled = lib(pool_pooling, rd, method=method, sigma_k=sk, on_error='violation',
                     sig=sig + ':raises')
    else:
        pooled = lib(pool_inference, rd, method=method, on_error='violation', sig=sig + ':raises')
    got = np.asarray(pooled.get_vectors(), dtype=float)
    require(got.shape == (1, keep.size), 'pooled RDM has shape %s' % (got.shape,), sig + ':shape')
    got = got[0]
    require(np.array_equal(~np.isnan(got), keep),
            'pool_rdm(%s): pooled RDM is NaN at %s, data are missing at %s' % (
                method, np.where(np.isnan(got))[0].tolist(), np.where(~keep)[0].tolist()),
            sig + ':nan-pattern')
    v = cref.dense_v_kept(n, keep, sk) if method in WHITENED else None
    want = pooled_ref(a[:, keep], method, fn, v)
    cg = fn == 'pooling' and method in WHITENED
    compare_pooled(got[keep], want, method,
                   '%s.pool_rdm(%s) with %d missing entries vs pooling of the remaining entries' % (
                       fn, method, int((~keep).sum())), sig, TOL_CG if cg else 1e-9)


def classify_pool(case):
    keep = case_keep(case)
    labels = common_labels(case, keep) + ['method:' + case['method'], 'fn:' + case['fn'],
                                          'n_rdm=%d' % len(case['v1'])]
    return labels, sum(keep) >= 3 and not all(keep)


# ---------------------------------------------------------------------------
# 3b. a whole condition missing: the remaining entries form a complete, smaller RDM, so "what it
# returns on the RDMs with those entries deleted" is the library's own answer for that smaller stack
# -- including its scale

@st.composite
def embedded_case(draw):
    n = draw(st.integers(3, 6))
    k = draw(st.integers(1, 4))
    p = ref.n_pairs(n)
    rows = [draw(gen.vector(p, kind='pos')) for _ in range(k)]
    for r in rows:
        if max(r) - min(r) < 0.25:
            r[0] += 1.0
    fn = draw(st.sampled_from(['inference_util', 'pooling']))
    return dict(n=n, rows=rows, at=draw(st.integers(0, n)), fn=fn,
                method=draw(st.sampled_from(POOL_METHODS)),
                extra=draw(st.integers(1, 2)))


def check_embedded(case):
    n, method, fn = case['n'], case['method'], case['fn']
    small = np.array(case['rows'], dtype=float)
    m = n + case['extra']
    # positions of the original conditions among the m conditions of the larger RDM
    gap = list(range(case['at'], case['at'] + case['extra']))
    pos = [c for c in range(m) if c not in gap]
    big = np.full((len(small), ref.n_pairs(m)), np.nan)
    idx = {pr: e for e, pr in enumerate(ref.pairs(m))}
    for e, (i, j) in enumerate(ref.pairs(n)):
        big[:, idx[(pos[i], pos[j])]] = small[:, e]
    keep = ~np.isnan(big[0])
    sig = 'pool-embedded:%s:%s' % (fn, method)

    def pool(arr):
        rd = RDMs(arr.copy())
        if fn == 'pooling':
            out = lib(pool_pooling, rd, method=method, sigma_k=None, on_error='violation',
                      sig=sig + ':raises')
        else:
            out = lib(pool_inference, rd, method=method, on_error='violation', sig=sig + ':raises')
        return np.asarray(out.get_vectors(), dtype=float)[0]
    p_small, p_big = pool(small), pool(big)
    require(np.array_equal(~np.isnan(p_big), keep), '%s.pool_rdm(%s): pooled RDM is NaN at %s, data '
            'are missing at %s' % (fn, method, np.where(np.isnan(p_big))[0].tolist(),
                                   np.where(~keep)[0].tolist()), sig + ':nan-pattern')
    cg = fn == 'pooling' and method in WHITENED
    scale = float(np.max(np.abs(p_small))) or 1.0
    require_close(p_big[keep], p_small, '%s.pool_rdm(%s) of %d RDMs over %d conditions of which %d '
                  'are missing entirely vs the pooled RDM of the %d remaining conditions' % (
                      fn, method, len(small), m, case['extra'], n), sig,
                  rtol=TOL_CG if cg else 1e-9, atol=(TOL_CG if cg else 1e-9) * scale)


def classify_embedded(case):
    return ['method:' + case['method'], 'fn:' + case['fn'], 'n=%d' % case['n'],
            'missing-conditions=%d' % case['extra'], 'n_rdm=%d' % len(case['rows'])], len(case['rows']) >= 2


# ---------------------------------------------------------------------------
# 4. noise ceiling with a common mask

@st.composite
def ceiling_case(draw):
    case = draw(two_stacks(n1_range=(2, 5), n2_range=(1, 1), nonneg=True))
    del case['v2']
    k = len(case['v1'])
    case['method'] = draw(st.sampled_from(VEC_METHODS))
    grouped = draw(st.booleans()) and k >= 3
    if grouped:
        g = draw(st.lists(st.integers(0, 2), min_size=k, max_size=k))
        g[0], g[1] = 0, 1          # at least two groups
    else:
        g = draw(gen.permutation(k))
    case['groups'] = g
    return case


def check_ceiling(case):
    case = dict(case, v2=case['v1'][:1])
    a, _, keep, n = masked_stacks(case)
    if not rows_ok(a, keep):
        raise Reject('constant row after sampling', 'degenerate:constant-row')
    method = case['method']
    sig = 'ceiling:common:' + method
    rd = RDMs(gen.relayout(a.copy()), rdm_descriptors={'grp': list(case['groups'])})
    lo, up = lib(boot_noise_ceiling, rd, method=method, rdm_descriptor='grp',
                 on_error='violation', sig=sig + ':raises')
    x = np.nan_to_num(a)
    try:
        want_lo, want_up = cref.ceilings(x, cref.groups_of(case['groups']), method, n=n, keep=keep)
    except cref.Degenerate as e:
        raise Reject(str(e), 'degenerate:zero-pool')
    what = 'boot_noise_ceiling(%s) with %d missing entries' % (method, int((~keep).sum()))
    require_close(lo, want_lo, what + ': lower bound vs leave-one-group-out on the remaining entries',
                  sig + ':lower', rtol=1e-9, atol=1e-9)
    require_close(up, want_up, what + ': upper bound vs pooling of the remaining entries',
                  sig + ':upper', rtol=1e-9, atol=1e-9)


def classify_ceiling(case):
    keep = case_keep(case)
    k = len(case['v1'])
    labels = common_labels(case, keep) + [
        'method:' + case['method'],
        'groups:' + ('singleton' if len(set(case['groups'])) == k else 'grouped')]
    return labels, sum(keep) >= 3 and not all(keep)


# ---------------------------------------------------------------------------
# 5. regression fits with a common mask / with misplaced masks

@st.composite
def fit_case(draw):
    mode = draw(st.sampled_from(['common', 'common', 'misplaced']))
    nb = draw(st.integers(1, 3))
    fn = draw(st.sampled_from(['regress', 'regress_nn']))
    method = draw(st.sampled_from(FIT_METHODS))
    if mode == 'misplaced':
        n = draw(st.integers(4, 6))
        p = ref.n_pairs(n)
        m1 = draw(common_mask(p, nb + 2))
        m2 = draw(moved_mask(m1))
        nd = draw(st.integers(1, 3))
        basis = spread_rows(draw(gen.matrix(nb, p, kind='pos')), m1)
        data = spread_rows(draw(gen.matrix(nd, p, kind='pos')), m2)
        where = draw(st.sampled_from(['model-vs-data', 'model-vs-data', 'within-model', 'within-data']))
        if nb < 2 and where == 'within-model':
            where = 'model-vs-data'
        if nd < 2 and where == 'within-data':
            where = 'model-vs-data'
        return dict(mode=mode, fn=fn, method=method, n=n, m1=m1, m2=m2, basis=basis, data=data,
                    where=where, sigma=None)
    case = draw(two_stacks(n1_range=(nb, nb), n2_range=(1, 3), min_keep=nb + 2, nonneg=True))
    case.update(mode=mode, fn=fn, method=method)
    case['sigma'] = draw(mild_sigma_spec(case['n'])) if method in WHITENED else None
    # a ridge penalty (Fitter(fit_regress, ridge_weight=...)) is part of the fit: the same penalty
    # with and without missing entries
    case['ridge'] = draw(st.sampled_from([0.0, 0.0, 0.5, 4.0]))
    return case


def fit_reference(xb, y, fn, v, ridge=0.0):
    """theta (unit length) of the (non-negative, ridge-penalised) generalised least squares fit of
    y by xb rows: argmin (y - theta xb) V^-1 (y - theta xb)' + ridge |theta|^2, and the condition
    number of the normal equations (the solution is positively homogeneous in y, so its direction
    does not depend on how the pooled RDM is scaled)."""
    k = len(xb)
    vi = np.eye(xb.shape[1]) if v is None else np.linalg.inv(v)
    gram = xb @ vi @ xb.T
    cond = float(np.linalg.cond(gram))
    if cond > (1e8 if v is None else 1e3):
        raise Reject('collinear basis', 'degenerate:collinear-basis')
    if v is not None and np.linalg.cond(v) > 100:
        raise Reject('ill-conditioned V', 'degenerate:ill-conditioned-V')
    if fn == 'regress':
        theta = np.linalg.solve(gram + ridge * np.eye(k), xb @ vi @ y)
    else:
        from scipy.optimize import nnls
        w, u = np.linalg.eigh((vi + vi.T) / 2)
        root = (u * np.sqrt(w)) @ u.T
        a_mat, b_vec = root @ xb.T, root @ y
        if ridge:
            a_mat = np.vstack([a_mat, math.sqrt(ridge) * np.eye(k)])
            b_vec = np.concatenate([b_vec, np.zeros(k)])
        theta, _ = nnls(a_mat, b_vec)
        # the active set must be unambiguous for a comparison of solutions
        grad = xb @ vi @ (y - theta @ xb) - ridge * theta
        if np.any((theta == 0) & (np.abs(grad) < 1e-6 * max(1.0, np.abs(grad).max()))):
            raise Reject('degenerate active set', 'degenerate:nnls-boundary')
    nrm = math.sqrt(float(theta @ theta))
    fitted = theta @ xb
    if float(fitted @ vi @ fitted) < 1e-12 * float(y @ vi @ y):
        # y is orthogonal to the basis: the direction of theta is rounding noise
        raise Reject('data orthogonal to the basis', 'degenerate:orthogonal-data')
    return theta / nrm, cond


def check_fit(case):
    fn = fit_regress if case['fn'] == 'regress' else fit_regress_nn
    method = case['method']
    if case['mode'] == 'misplaced':
        m1, m2 = np.array(case['m1'], bool), np.array(case['m2'], bool)
        basis = apply_mask(case['basis'], m1)
        if case['where'] == 'within-model':
            basis[1] = apply_mask([case['basis'][1]], m2)[0]
            data = apply_mask(case['data'], m1)
        elif case['where'] == 'within-data':
            # the data RDMs miss different entries (partial RDMs of different subjects), the model
            # is complete: there is no common set of entries to fit on
            basis = np.array(case['basis'], dtype=float)
            data = apply_mask(case['data'], m1)
            data[1] = apply_mask([case['data'][1]], m2)[0]
        else:
            data = apply_mask(case['data'], m2)
        model = ModelWeighted('m', RDMs(basis.copy()))
        try:
            with core.watchdog(3):
                theta = fn(model, RDMs(data.copy()), method=method)
        except core.Inconclusive:
            raise
        except Exception:  # noqa: BLE001  the demanded outcome
            return
        raise Violation('fit_%s(%s) returned theta=%s although model and data RDMs miss entries at '
                        'different positions (%s: %s vs %s)' % (
                            case['fn'], method, core._short(theta), case['where'],
                            ''.join('x' if k else '.' for k in case['m1']),
                            ''.join('x' if k else '.' for k in case['m2'])),
                        'fit_%s:misaligned' % case['fn'])
    sk = sigma_arr(case['sigma'])
    ridge = float(case.get('ridge') or 0.0)
    sig = 'fit_%s:common:%s' % (case['fn'], method)
    if case['mask_kind'] == 'bootstrap':
        idx = list(case['idx'])
        n = len(idx)
        keep = np.array(case_keep(case), bool)
        model = ModelWeighted('m', RDMs(np.array(case['v1'], dtype=float)))
        data_full = RDMs(np.array(case['v2'], dtype=float))
        data = lib(data_full.subsample_pattern, 'index', idx)
        xb = ref.sample_rdm_vectors(case['v1'], case['n0'], range(len(case['v1'])), idx)
        xd = ref.sample_rdm_vectors(case['v2'], case['n0'], range(len(case['v2'])), idx)
        kwargs = dict(pattern_idx=np.array(idx), pattern_descriptor='index')
    else:
        keep = np.array(case['mask'], bool)
        n = case['n']
        xb, xd = apply_mask(case['v1'], keep), apply_mask(case['v2'], keep)
        model = ModelWeighted('m', RDMs(xb.copy()))
        data = RDMs(xd.copy())
        kwargs = {}
    if not (rows_ok(xb, keep) and rows_ok(xd, keep)):
        raise Reject('constant row after sampling', 'degenerate:constant-row')
    xb, xd = xb[:, keep], xd[:, keep]
    v = cref.dense_v_kept(n, keep, sk) if method in WHITENED else None
    # Which V normalises the data RDMs before they are pooled is not C13's business: the pinned
    # tree pools with util.pooling.pool_rdm(data, method) WITHOUT sigma_k (also for complete
    # RDMs), the C08 repair passes sigma_k on.  Both are accepted; they coincide for one data
    # RDM or sigma_k=None.
    if method in cref.CORR_TYPES:
        xb = xb - xb.mean(axis=1, keepdims=True)
    wants = []
    pools = [None] if (sk is None or len(xd) == 1 or method not in WHITENED) else [None, sk]
    for sk_pool in pools:
        v_pool = cref.dense_v_kept(n, keep, sk_pool) if method in WHITENED else None
        y = pooled_ref(xd, method, 'pooling', v_pool)
        try:
            cref.check_pooled(y, method)
        except cref.Degenerate as e:
            raise Reject(str(e), 'degenerate:zero-pool')
        if method in cref.CORR_TYPES:
            y = y - y.mean()
        wants.append(fit_reference(xb, y, case['fn'], v, ridge)[0])
    want = wants[0]
    # library whitening solves V x = b by conjugate gradients with rtol 1e-5: relative error of
    # V^-1 x up to cond(V)*1e-5 = 1e-3 on the restricted domain (cond(V) <= 100), doubled.
    # measured on 25000 cases: <= 2.5e-4 (and up to 5e-3 for cond(V) > 1e3, hence the restriction)
    atol = TOL_FIT_CG if v is not None else 1e-7
    # fit_regress_nn's active-set loop stops on an absolute threshold (100*eps) and can spin
    # for ever on data with a large dynamic range: inconclusive, not a C13 matter
    if ridge:
        kwargs['ridge_weight'] = ridge
    with core.watchdog(3):
        theta = lib(fn, model, data, method=method, sigma_k=sk, on_error='violation',
                    sig=sig + ':raises', **kwargs)
    theta = np.asarray(theta, dtype=float)
    require(theta.shape == want.shape, 'theta shape %s' % (theta.shape,), sig + ':shape')
    if len(wants) > 1 and core.close(theta, wants[1], 0, atol):
        want = wants[1]
    require_close(theta, want, 'fit_%s(%s, %s) with %d missing entries (%s mask) vs the fit on the '
                  'remaining entries' % (case['fn'], method, sigma_label(case['sigma']),
                                         int((~keep).sum()), case['mask_kind']),
                  sig, rtol=0, atol=atol)


def classify_fit(case):
    labels = ['mode:' + case['mode'], 'fn:' + case['fn'], 'method:' + case['method']]
    if case['mode'] == 'misplaced':
        labels.append('where:' + case['where'])
        return labels, True
    keep = case_keep(case)
    labels += common_labels(case, keep) + ['n_basis=%d' % len(case['v1']),
                                           'ridge' if case.get('ridge') else 'no-ridge']
    if case['method'] in WHITENED:
        labels.append(sigma_label(case['sigma']))
    return labels, not all(keep)


# ---------------------------------------------------------------------------
# stacks whose RDMs miss different entries (mean, rescale)

@st.composite
def cond_subsets(draw, n, k, chain):
    """k subsets (>=2 conditions) of range(n); chain: every later subset shares >=2
    conditions with an earlier one (overlap graph connected through shared pairs)"""
    subs = []
    for i in range(k):
        bits = draw(st.lists(st.booleans(), min_size=n, max_size=n))
        sub = [c for c in range(n) if bits[c]]
        if chain and i > 0:
            prev = subs[draw(st.integers(0, i - 1))]
            pick = draw(st.lists(st.sampled_from(prev), min_size=2, max_size=2, unique=True))
            sub = sorted(set(sub) | set(pick))
        while len(sub) < 2:
            extra = draw(st.sampled_from([c for c in range(n) if c not in sub]))
            sub = sorted(sub + [extra])
        subs.append(sub)
    return subs


def partial_stack(base_rows, n, subs, via):
    """RDMs object (n conditions) whose i-th RDM has values only among subs[i].
    via='from_partials' builds it with the library from small RDMs labelled by 'conds';
    via='direct' writes the NaNs itself.  returns (RDMs, expected array)"""
    expect = np.full((len(subs), ref.n_pairs(n)), np.nan)
    parts = []
    for i, sub in enumerate(subs):
        sq = ref.to_square(base_rows[i], n)
        for k_, (a_, b_) in enumerate(ref.pairs(n)):
            if a_ in sub and b_ in sub:
                expect[i, k_] = sq[a_, b_]
        small = [sq[sub[x], sub[y]] for (x, y) in ref.pairs(len(sub))]
        parts.append(RDMs(np.array([small], dtype=float),
                          pattern_descriptors={'conds': ['c%d' % c for c in sub]}))
    if via == 'from_partials':
        rd = lib(from_partials, parts, all_patterns=['c%d' % c for c in range(n)])
        require(core.close(rd.dissimilarities, expect, 0, 0),
                'from_partials does not place the partial RDMs as expected', 'from_partials:placement')
        return rd, expect
    return RDMs(expect.copy()), expect


@st.composite
def ragged_stack(draw, positive=True):
    """stack with per-RDM masks. kinds: none / common / differing (bit masks) / partials"""
    n = draw(st.integers(3, 6))
    p = ref.n_pairs(n)
    k = draw(st.sampled_from([2, 3, 4, p])) if p <= 6 else draw(st.integers(2, 4))
    mk = draw(st.sampled_from(['none', 'common', 'differing', 'differing', 'partials', 'partials']))
    kind = draw(st.sampled_from(['pos', 'pos', 'smallpos']))
    el = st.integers(1, 64).map(lambda q: q / 8.0) if kind == 'pos' else st.integers(1, 4).map(float)
    rows = draw(st.lists(st.lists(el, min_size=p, max_size=p), min_size=k, max_size=k))
    case = dict(n=n, rows=rows, mask_kind=mk, kind=kind)
    if mk == 'partials':
        case['subs'] = draw(cond_subsets(n, k, chain=False))
        case['via'] = draw(st.sampled_from(['from_partials', 'direct']))
    elif mk == 'common':
        m = draw(common_mask(p, 1)) if p > 1 else [True]
        case['masks'] = [m] * k
    elif mk == 'differing':
        masks = []
        for _ in range(k):
            m = draw(st.lists(st.booleans(), min_size=p, max_size=p))
            if not any(m):
                m[draw(st.integers(0, p - 1))] = True
            masks.append(m)
        case['masks'] = masks
    else:
        case['masks'] = [[True] * p] * k
    return case


def build_ragged(case):
    n = case['n']
    if case['mask_kind'] == 'partials':
        return partial_stack(case['rows'], n, case['subs'], case['via'])
    arr = np.array(case['rows'], dtype=float)
    arr[~np.array(case['masks'], bool)] = np.nan
    return RDMs(arr.copy()), arr


def ragged_finite(case):
    n = case['n']
    if case['mask_kind'] == 'partials':
        return np.array([[a in s and b in s for (a, b) in ref.pairs(n)] for s in case['subs']])
    return np.array(case['masks'], bool)


def ragged_labels(case):
    fin = ragged_finite(case)
    labels = ['mask:' + case['mask_kind'], 'n_rdm=%d' % len(fin)]
    if case['mask_kind'] == 'partials':
        labels.append('via:' + case['via'])
    if (~fin.any(axis=0)).any():
        labels.append('pair-missing-everywhere')
    if len(fin) == fin.shape[1]:
        labels.append('n_rdm==n_pairs')
    partial = bool((fin.any(axis=0) & ~fin.all(axis=0)).any())
    return labels, partial


# ---------------------------------------------------------------------------
# 6. RDMs.mean

def ref_mean(d, w):
    """per pair: sum_i w_i d_i / sum_i w_i over the RDMs that have the pair; NaN if none has"""
    k, p = d.shape
    out = []
    for j in range(p):
        num = den = 0.0
        any_ = False
        for i in range(k):
            if not math.isnan(d[i, j]):
                num += w[i, j] * d[i, j]
                den += w[i, j]
                any_ = True
        out.append(num / den if any_ else float('nan'))
    return np.array(out)


@st.composite
def mean_case(draw):
    case = draw(ragged_stack())
    k, p = len(case['rows']), len(case['rows'][0])
    wk = draw(st.sampled_from(['none', 'full-finite', 'full-nanmatched', 'per-rdm',
                               'name-per-rdm', 'name-full']))
    case['weights'] = wk
    if wk in ('per-rdm', 'name-per-rdm'):
        case['w'] = draw(gen.pos_vector(k))
    elif wk != 'none':
        case['w'] = [draw(gen.pos_vector(p)) for _ in range(k)]
    case['desc'] = draw(st.booleans())
    return case


def check_mean(case):
    rd, d = build_ragged(case)
    k, p = d.shape
    wk = case['weights']
    if wk == 'none':
        w_full = np.ones((k, p))
        arg = None
    elif wk in ('per-rdm', 'name-per-rdm'):
        w_full = np.tile(np.array(case['w'], dtype=float).reshape(k, 1), (1, p))
        arg = np.array(case['w'], dtype=float)
    else:
        w_full = np.array(case['w'], dtype=float)
        arg = w_full.copy()
        if wk == 'full-nanmatched' or wk == 'name-full':
            arg[np.isnan(d)] = np.nan
    if case['desc']:
        rd.descriptors = {'session': 'a'}
    if wk.startswith('name-'):
        rd.rdm_descriptors['wts'] = arg if wk == 'name-full' else list(arg)
        arg = 'wts'
    sig = 'mean:' + wk
    before = None if arg is None or isinstance(arg, str) else arg.copy()
    m = lib(rd.mean, weights=arg, on_error='violation', sig=sig + ':raises')
    got = np.asarray(m.dissimilarities, dtype=float)
    require(got.shape == (1, p), 'mean(): dissimilarities shape %s, expected (1, %d)' % (got.shape, p),
            sig + ':shape')
    if before is not None:
        require(core.close(arg, before, 0, 0), 'mean() changed the weights array it was given',
                sig + ':weights-mutated')
    want = ref_mean(d, w_full)
    require(np.array_equal(np.isnan(got[0]), np.isnan(want)),
            'mean(weights=%s): NaN at pairs %s, but the pairs no RDM has are %s' % (
                wk, np.where(np.isnan(got[0]))[0].tolist(), np.where(np.isnan(want))[0].tolist()),
            sig + ':nan-pattern')
    require_close(got[0], want, 'mean(weights=%s) of %d RDMs (%s masks) vs per-pair weighted mean over '
                  'the RDMs that have the pair' % (wk, k, case['mask_kind']), sig,
                  rtol=1e-12, atol=1e-12)


def classify_mean(case):
    labels, partial = ragged_labels(case)
    labels.append('weights:' + case['weights'])
    return labels, partial


# ---------------------------------------------------------------------------
# 7. rescale: structure on arbitrary stacks

@st.composite
def rescale_case(draw):
    case = draw(ragged_stack())
    case['method'] = draw(st.sampled_from(RESCALE_METHODS))
    return case


def row_constants(out, d, sig, what):
    """every output row = c_i * input row with one c_i > 0 and the same NaN pattern"""
    require(out.shape == d.shape, '%s: output shape %s vs input %s' % (what, out.shape, d.shape),
            sig + ':shape')
    require(np.array_equal(np.isnan(out), np.isnan(d)),
            '%s: NaN pattern changed (input missing %s, output missing %s)' % (
                what, np.argwhere(np.isnan(d)).tolist(), np.argwhere(np.isnan(out)).tolist()),
            sig + ':nan-pattern')
    cs = []
    for i in range(len(d)):
        fin = ~np.isnan(d[i])
        ratio = out[i, fin] / d[i, fin]
        c = float(ratio[0])
        require(c > 0 and math.isfinite(c), '%s: RDM %d scaled by %r' % (what, i, c), sig + ':constant')
        require(core.close(ratio, np.full(ratio.shape, c), rtol=1e-9, atol=0),
                '%s: RDM %d is not multiplied by one constant (ratios %s)' % (
                    what, i, core._short(ratio)), sig + ':constant')
        cs.append(c)
    return cs


def check_rescale(case):
    rd, d = build_ragged(case)
    method = case['method']
    sig = 'rescale:' + method
    with core.watchdog(8):
        out = lib(rescale, rd, method=method, on_error='violation', sig=sig + ':raises')
    require(np.array_equal(rd.dissimilarities, d, equal_nan=True), 'rescale modified its input',
            sig + ':input-mutated')
    o = np.asarray(out.dissimilarities, dtype=float)
    row_constants(o, d, sig, 'rescale(%s)' % method)
    w = out.rdm_descriptors.get('rescalingWeights')
    require(w is not None, 'rescale(%s): no rescalingWeights descriptor' % method, sig + ':weights')
    w = np.asarray(w, dtype=float)
    require(w.shape == d.shape, 'rescale(%s): rescalingWeights shape %s, dissimilarities %s' % (
        method, w.shape, d.shape), sig + ':weights')
    fin = ~np.isnan(d)
    require(bool(np.all(w[fin] > 0)), 'rescale(%s): non-positive weight at an existing entry' % method,
            sig + ':weights')
    # the documented workflow: weighted mean with the stored weights
    m = lib(out.mean, weights='rescalingWeights', on_error='violation', sig=sig + ':mean-raises')
    want = ref_mean(o, np.where(fin, w, 1.0))
    require_close(np.asarray(m.dissimilarities, dtype=float)[0], want,
                  "rescale(%s).mean(weights='rescalingWeights') vs weighted mean" % method,
                  sig + ':weighted-mean', rtol=1e-12, atol=1e-12)


def classify_rescale(case):
    labels, partial = ragged_labels(case)
    labels.append('method:' + case['method'])
    return labels, partial


# ---------------------------------------------------------------------------
# 8. rescale: mutually proportional partial RDMs reach a common scale

@st.composite
def proportional_case(draw):
    n = draw(st.integers(3, 6))
    p = ref.n_pairs(n)
    k = draw(st.integers(2, 4))
    base = draw(st.lists(st.integers(8, 32).map(lambda q: q / 8.0), min_size=p, max_size=p))
    subs = draw(cond_subsets(n, k, chain=True))
    scales = draw(st.lists(st.integers(4, 16).map(lambda q: q / 8.0), min_size=k, max_size=k))
    equal = draw(st.sampled_from([False, False, False, True]))
    if equal:
        scales = [scales[0]] * k
    # the whole stack in small or large units (volt, tesla, raw scanner units): exact factor 2^e
    return dict(n=n, base=base, subs=subs, scales=scales, unit=draw(st.sampled_from([0, 0, 0, -40, -27, 30])),
                method=draw(st.sampled_from(RESCALE_METHODS)),
                via=draw(st.sampled_from(['from_partials', 'direct'])))


def spread(arr):
    """largest max/min - 1 over the pairs present in >= 2 RDMs"""
    s = 0.0
    for j in range(arr.shape[1]):
        col = arr[~np.isnan(arr[:, j]), j]
        if len(col) > 1:
            s = max(s, float(col.max() / col.min() - 1))
    return s


def check_proportional(case):
    n, method = case['n'], case['method']
    u = 2.0 ** case.get('unit', 0)
    rows = [[c * b * u for b in case['base']] for c in case['scales']]
    rd, d = partial_stack(rows, n, case['subs'], case['via'])
    sig = 'rescale-proportional:' + method
    before = spread(d)
    with core.watchdog(8):
        out = lib(rescale, rd, method=method, on_error='violation', sig=sig + ':raises')
    o = np.asarray(out.dissimilarities, dtype=float)
    row_constants(o, d, sig, 'rescale(%s)' % method)
    after = spread(o)
    require(after <= before + 1e-9,
            'rescale(%s): proportional partial RDMs are further apart after rescaling (spread %.3g -> '
            '%.3g)' % (method, before, after), sig + ':diverges')
    with core.watchdog(20):
        fine = lib(rescale, rd, method=method, threshold=1e-16, on_error='violation',
                   sig=sig + ':raises')
    f = np.asarray(fine.dissimilarities, dtype=float)
    row_constants(f, d, sig, 'rescale(%s, threshold=1e-16)' % method)
    require(spread(f) <= 1e-3,
            'rescale(%s, threshold=1e-16): mutually proportional partial RDMs (scales %s, subsets %s) '
            'are not on a common scale: shared pairs still differ by %.3g (before: %.3g)' % (
                method, case['scales'], case['subs'], spread(f), before), sig + ':common-scale')


def classify_proportional(case):
    fin = np.array([[a in s and b in s for (a, b) in ref.pairs(case['n'])] for s in case['subs']])
    shared = bool((fin.sum(axis=0) >= 2).any())
    labels = ['method:' + case['method'], 'via:' + case['via'], 'n_rdm=%d' % len(fin),
              'scales:' + ('equal' if len(set(case['scales'])) == 1 else 'different'),
              'partial' if not fin.all() else 'complete']
    return labels, shared and not fin.all()


SUBCHECKS = [
    SubCheck('compare_common', compare_common_case(), check_compare_common, classify_compare_common,
             quick=700, doc='compare() on stacks missing the same entries == the measure on the '
                            'remaining entries (whitened: dense V with rows/columns deleted)'),
    SubCheck('compare_reject', compare_reject_case(), check_compare_reject, classify_compare_reject,
             quick=500, doc='missing entries at different positions (between stacks or inside one '
                            'stack, equal or unequal counts) must raise'),
    SubCheck('pool_common', pool_case(), check_pool, classify_pool, quick=400,
             doc='both pool_rdm implementations: NaN pattern kept, values == pooling of the '
                 'remaining entries (up to the invariance of the measure)'),
    SubCheck('pool_missing_condition', embedded_case(), check_embedded, classify_embedded, quick=300,
             doc='both pool_rdm implementations on RDMs in which whole conditions are missing == the '
                 'pooled RDM of the smaller complete RDMs, scale included'),
    SubCheck('ceiling_common', ceiling_case(), check_ceiling, classify_ceiling, quick=300,
             doc='boot_noise_ceiling with a common mask == own leave-one-group-out on the remaining '
                 'entries'),
    SubCheck('fit', fit_case(), check_fit, classify_fit, quick=500,
             doc='fit_regress / fit_regress_nn: common mask == (NN)GLS on the remaining entries; '
                 'model/data masks at different positions must raise'),
    SubCheck('mean', mean_case(), check_mean, classify_mean, quick=700,
             doc='RDMs.mean: per-pair weighted mean over the RDMs that have the pair, all weight forms'),
    SubCheck('rescale', rescale_case(), check_rescale, classify_rescale, quick=300,
             doc='rescale: one positive constant per RDM, NaN pattern kept, rescalingWeights usable'),
    SubCheck('rescale_proportional', proportional_case(), check_proportional, classify_proportional,
             quick=200, doc='mutually proportional partial RDMs: never further apart, common scale '
                            'at a fine threshold'),
]

# every check starts from numpy's default floating-point error state (see c07_ref.reset_fp)
for _sc in SUBCHECKS:
    _sc.check = cref.guarded(_sc.check)
