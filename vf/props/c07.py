"""C07 - noise ceilings: upper unbeatable, lower leave-one-out and not above it."""
import itertools

import numpy as np
from hypothesis import strategies as st

from vf import core, gen, ref
from vf.core import SubCheck, Enumeration, Reject, lib, require, require_close
from vf.props import c07_ref as cref

from rsatoolbox.rdm import RDMs, compare
from rsatoolbox.util.inference_util import pool_rdm
from rsatoolbox.inference.noise_ceiling import boot_noise_ceiling, cv_noise_ceiling
from rsatoolbox.inference.crossvalsets import sets_k_fold

OPT_METHODS = ['rho-a', 'cosine', 'corr']
ORDER_METHODS = ['cosine', 'corr', 'cosine_cov', 'corr_cov']
ALL_METHODS = ['cosine', 'corr', 'rho-a', 'spearman', 'cosine_cov', 'corr_cov', 'kendall', 'tau-a']
CV_METHODS = ['cosine', 'corr', 'rho-a', 'spearman', 'cosine_cov', 'corr_cov']

RULE = ("Hypothesis-generated stacks of 2-6 data RDMs over 3-7 conditions (positive dyadic-grid, "
        "small-integer (ties) and decimal values), optionally with a common mask of missing entries "
        "(bit mask or RDMs.subsample_pattern with repeated conditions), grouped by an rdm descriptor "
        "(singleton groups with permuted labels, or 2-3 groups of unequal size). Oracles: the "
        "closed-form maximum over all vectors (cosine, corr, rho-a) plus generated competitors "
        "(random vectors, the data RDMs, the optimum +- perturbations); an explicit "
        "leave-one-group-out loop with own pooling on the existing entries; lower <= upper; "
        "invariance under per-RDM positive scaling / positive affine maps; cv_noise_ceiling "
        "recomputed from the rdm/pattern indices of sets_k_fold folds (shuffle seeded from the case). "
        "Thorough tier: for 3 and 4 conditions every tie-bearing rank vector (13 / 4683) is tried "
        "as a competitor for rho-a. Non-trivial: >= 3 RDMs, or ties, or missing entries, or a "
        "group with >= 2 RDMs. Distinct by SHA1 of the case.")
ASSUMPTIONS = [
    "candidate RDMs are arbitrary real vectors over the existing entries (no metric constraint)",
    "for whitened measures the noise ceiling is computed with sigma_k=None (the functions take no "
    "sigma_k) and the pooled RDM is the one util.inference_util.pool_rdm defines (plain unit "
    "normalisation); optimality of the upper bound is claimed by the property, and checked, only "
    "for cosine, corr and rho-a",
    "cv_noise_ceiling: the upper bound pools all RDMs over all conditions and then restricts the "
    "pooled RDM to the test conditions (docstring: 'pooling all rdms for the appropriate patterns')",
    "data RDMs whose existing entries are constant are outside the domain (correlation undefined)",
    "fold composition itself (which RDMs/conditions go where) belongs to C05; here the folds are "
    "read back by descriptor and the ceiling is recomputed from the original data",
]


# ---------------------------------------------------------------------------
# generators

def spread_rows(rows, keep):
    keep = list(keep)
    first = keep.index(True)
    out = []
    for r in rows:
        r = [float(x) for x in r]
        kept = [x for x, k in zip(r, keep) if k]
        mx = max(abs(x) for x in kept)
        if max(kept) - min(kept) < 0.0625 * max(1.0, mx):
            r[first] = r[first] + 1.0 + mx
        out.append(r)
    return out


@st.composite
def data_rows(draw, k, p, kind):
    if kind == 'smallpos':
        # small counts, or (a third of the stacks) counts up to 240 whose squares no longer fit
        # a narrow integer type
        top = draw(st.sampled_from([4, 4, 240]))
        el = st.integers(0, top).map(float)
    elif kind == 'float':
        el = gen.any_float(0.0, 100.0)
    else:
        el = st.integers(0, 64).map(lambda q: q / 8.0)
    return draw(st.lists(st.lists(el, min_size=p, max_size=p), min_size=k, max_size=k))


@st.composite
def stack(draw, k_range=(2, 6), n_range=(3, 7), masks=('none', 'none', 'arbitrary', 'bootstrap'),
          grouped=None):
    k = draw(st.integers(*k_range))
    kind = draw(st.sampled_from(['pos', 'smallpos', 'float']))
    mk = draw(st.sampled_from(list(masks)))
    case = dict(kind=kind, mask_kind=mk)
    if mk == 'bootstrap':
        n0 = draw(st.integers(3, 6))
        m = draw(st.integers(4, 7))
        extra = draw(st.lists(st.integers(0, n0 - 1), min_size=m - 4, max_size=m - 4))
        idx = [0, 1, 2] + extra
        idx.append(idx[draw(st.integers(0, len(idx) - 1))])
        shift = draw(st.integers(0, n0 - 1))
        idx = sorted((i + shift) % n0 for i in idx)
        used = [a in idx and b in idx for (a, b) in ref.pairs(n0)]
        case.update(n0=n0, idx=idx, n=m, rows=spread_rows(draw(data_rows(k, ref.n_pairs(n0), kind)), used))
    else:
        n = draw(st.integers(*n_range))
        if mk == 'arbitrary' and n == 3:
            n = 4
        p = ref.n_pairs(n)
        keep = [True] * p
        if mk == 'arbitrary':
            keep = draw(st.lists(st.booleans(), min_size=p, max_size=p))
            perm = draw(gen.permutation(p))
            for i in perm:
                if sum(keep) >= 3:
                    break
                keep[i] = True
            if all(keep):
                keep[draw(st.integers(0, p - 1))] = False
        case.update(n=n, mask=keep, rows=spread_rows(draw(data_rows(k, p, kind)), keep))
    if grouped is None:
        grouped = draw(st.booleans()) and k >= 3
    if grouped:
        g = draw(st.lists(st.integers(0, 2), min_size=k, max_size=k))
        g[0], g[1] = 0, 1
        labs = draw(st.sampled_from([[3, -2, 10], [0, 1, 2], [7, 5, 100],
                                     [20240112, 20240105, 20240119],      # date stamps
                                     ['sub-02', 'sub-01', 'sub-10'], [2.5, 1.5, 1.0]]))
        case['groups'] = [labs[x] for x in g]
    else:
        base = draw(st.sampled_from([0, 0, 20240100]))
        case['groups'] = [base + 3 * x - 4 for x in draw(gen.permutation(k))]
    return case


def build(case):
    """-> (NaN-bearing array as given to the library, keep mask, n_cond)"""
    if case['mask_kind'] == 'bootstrap':
        idx = case['idx']
        full = RDMs(np.array(case['rows'], dtype=float))
        sub = lib(full.subsample_pattern, 'index', list(idx))
        a = ref.sample_rdm_vectors(case['rows'], case['n0'], range(len(case['rows'])), idx)
        require(core.close(sub.dissimilarities, a, 0, 0),
                'subsample_pattern(%r) does not give the expected sample' % (idx,),
                'bootstrap:subsample_pattern')
        keep = ~np.isnan(a[0])
        return a, keep, len(idx)
    keep = np.array(case['mask'], bool)
    a = np.array(case['rows'], dtype=float)
    a[:, ~keep] = np.nan
    return a, keep, case['n']


def keep_of(case):
    if case['mask_kind'] == 'bootstrap':
        idx = case['idx']
        return [idx[i] != idx[j] for (i, j) in ref.pairs(len(idx))]
    return case['mask']


def has_ties(case):
    keep = keep_of(case)
    if case['mask_kind'] == 'bootstrap':
        return case['kind'] == 'smallpos'
    for r in case['rows']:
        kept = [x for x, k in zip(r, keep) if k]
        if len(set(kept)) < len(kept):
            return True
    return False


def base_labels(case):
    k = len(case['rows'])
    singleton = len(set(case['groups'])) == k
    ties = has_ties(case)
    labels = ['n_rdm=%d' % k, 'n=%d' % case['n'], 'mask:' + case['mask_kind'],
              'values:' + case['kind'], 'groups:' + ('singleton' if singleton else 'grouped'),
              'ties' if ties else 'no-ties']
    nt = k >= 3 or ties or case['mask_kind'] != 'none' or not singleton
    return labels, nt


def make_rdms(a, groups):
    a = np.array(a, dtype=float)
    if a.size and not np.isnan(a).any() and np.all(a == np.round(a)) and a.min() >= 0 \
            and a.max() <= 255 and int(a.sum()) % 2 == 0:
        # integral data RDMs (counts, Hamming distances) stored in a narrow integer type:
        # the ceilings are those of the numbers held, whatever the storage type
        a = a.astype(np.uint8 if int(a.sum()) % 4 == 0 else np.int16)
    return RDMs(gen.relayout(a.copy()), rdm_descriptors={'grp': list(groups)})


# ---------------------------------------------------------------------------
# 1. the upper bound is the maximum over all candidate RDMs (singleton groups)

@st.composite
def optimal_case(draw):
    case = draw(stack(grouped=False))
    case['method'] = draw(st.sampled_from(OPT_METHODS))
    p = len(keep_of(case))
    cands = []
    for _ in range(draw(st.integers(2, 6))):
        ck = draw(st.sampled_from(['perturbed', 'perturbed', 'random', 'data', 'optimum']))
        c = {'kind': ck}
        if ck == 'random':
            c['v'] = draw(gen.vector(p))
        elif ck == 'data':
            c['i'] = draw(st.integers(0, len(case['rows']) - 1))
        elif ck == 'perturbed':
            c['v'] = draw(gen.vector(p, kind=draw(st.sampled_from(['grid', 'smallint']))))
            c['eps'] = draw(st.sampled_from([1.0, 0.25, 0.0625, 2.0 ** -7, 2.0 ** -10]))
        cands.append(c)
    case['cands'] = cands
    return case


def score(cand_full, rd, method, sig):
    """mean similarity of one candidate to the data RDMs, by the library's compare"""
    s = lib(compare, RDMs(np.array([cand_full], dtype=float)), rd, method=method,
            on_error='violation', sig=sig + ':compare-raises')
    return float(np.mean(s))


def check_optimal(case):
    a, keep, n = build(case)
    method = case['method']
    sig = 'upper:' + method
    rd = make_rdms(a, case['groups'])
    lo, up = lib(boot_noise_ceiling, rd, method=method, rdm_descriptor='grp',
                 on_error='violation', sig=sig + ':raises')
    x = a[:, keep]
    best, opt = cref.analytic_upper(x, method)
    try:
        cref.ceilings(np.nan_to_num(a), cref.groups_of(case['groups']), method, n=n, keep=keep)
    except cref.Degenerate as e:
        raise Reject(str(e), 'degenerate:zero-pool')
    require_close(up, best, 'upper noise ceiling (%s, %d RDMs, %d of %d entries) vs the analytic '
                  'maximum of the mean similarity over all vectors' % (method, len(x), keep.sum(),
                                                                      keep.size),
                  sig + ':value', rtol=1e-9, atol=1e-9)
    # the pooled RDM attains it
    pooled = lib(pool_rdm, rd, method=method, on_error='violation', sig=sig + ':pool-raises')
    s_pool = float(np.mean(lib(compare, pooled, rd, method=method, on_error='violation',
                               sig=sig + ':compare-raises')))
    require_close(s_pool, up, 'mean similarity of pool_rdm(%s) to the data vs the upper bound' % method,
                  sig + ':pooled-attains', rtol=1e-9, atol=1e-9)
    # no candidate beats it
    scale = float(np.max(np.abs(opt))) or 1.0
    for c in case['cands']:
        if c['kind'] == 'random':
            v = np.array(c['v'], dtype=float)[keep]
        elif c['kind'] == 'data':
            v = x[c['i'] % len(x)]
        elif c['kind'] == 'optimum':
            v = opt
        else:
            v = opt + c['eps'] * scale * np.array(c['v'], dtype=float)[keep] / 8.0
        full = np.full(keep.size, np.nan)
        full[keep] = v
        s = score(full, rd, method, sig)
        require(s <= up + 1e-9, 'candidate (%s) scores %.12g > upper noise ceiling %.12g (%s)' % (
            c['kind'], s, up, method), sig + ':beaten')
        if c['kind'] == 'optimum':
            require_close(s, up, 'score of the analytic optimum vs upper bound (%s)' % method,
                          sig + ':value', rtol=1e-9, atol=1e-9)
    if method in ORDER_METHODS:     # the ordering is claimed for cosine / correlation types only
        require(lo <= up + 1e-9, 'lower %.12g > upper %.12g (%s)' % (lo, up, method),
                'ordering:' + method)


def classify_optimal(case):
    labels, nt = base_labels(case)
    labels.append('method:' + case['method'])
    labels += sorted({'cand:' + c['kind'] for c in case['cands']})
    return labels, nt


# ---------------------------------------------------------------------------
# 2. lower/upper = explicit leave-one-group-out loop; ordering for singleton groups

@st.composite
def many_groups(draw):
    """the everyday group study: 18-24 subjects with 1-3 sessions each (labels sub-NN, float or
    date-like ids), 3-4 conditions, no missing entries"""
    n_sub = draw(st.integers(18, 24))
    sessions = [draw(st.sampled_from([2, 2, 1, 3])) for _ in range(n_sub)]
    sessions[0] = 2
    names = draw(st.sampled_from(['sub', 'float', 'date']))
    ids = draw(gen.permutation(n_sub))
    lab = {'sub': lambda i: 'sub-%02d' % (i + 1), 'float': lambda i: 0.5 + i / 4.0,
           'date': lambda i: 20240100 + i}[names]
    groups = [lab(ids[i]) for i in range(n_sub) for _ in range(sessions[i])]
    order = draw(gen.permutation(len(groups)))
    if draw(st.booleans()):
        groups = [groups[i] for i in order]       # sessions of a subject not adjacent
    k = len(groups)
    n = draw(st.integers(3, 4))
    kind = draw(st.sampled_from(['pos', 'float']))
    p = ref.n_pairs(n)
    return dict(kind=kind, mask_kind='none', n=n, mask=[True] * p, groups=groups,
                rows=spread_rows(draw(data_rows(k, p, kind)), [True] * p))


@st.composite
def loo_case(draw):
    case = draw(many_groups()) if draw(st.integers(0, 7)) == 0 else draw(stack())
    case['method'] = draw(st.sampled_from(ALL_METHODS))
    return case


def check_loo(case):
    a, keep, n = build(case)
    method = case['method']
    rd = make_rdms(a, case['groups'])
    singleton = len(set(map(repr, case['groups']))) == len(case['groups'])
    if singleton and len(a) % 2 == 0 and len(a) >= 2:
        # every RDM its own group through the default descriptor, on a stack put together from
        # separately created objects (one per subject file) by the library
        from rsatoolbox.rdm import concat
        parts = [RDMs(a[i:i + 1].copy()) for i in range(len(a))]
        merged = lib(concat, parts, on_error='reject')
        lo, up = lib(boot_noise_ceiling, merged, method=method, on_error='violation',
                     sig='ceiling:%s:raises' % method)
    else:
        lo, up = lib(boot_noise_ceiling, rd, method=method, rdm_descriptor='grp',
                     on_error='violation', sig='ceiling:%s:raises' % method)
    groups = cref.groups_of(case['groups'])
    try:
        want_lo, want_up = cref.ceilings(np.nan_to_num(a), groups, method, n=n, keep=keep)
    except cref.Degenerate as e:
        raise Reject(str(e), 'degenerate:zero-pool')
    what = 'boot_noise_ceiling(%s), %d RDMs in %d groups, %d of %d entries' % (
        method, len(a), len(groups), keep.sum(), keep.size)
    require_close(lo, want_lo, what + ': lower bound vs explicit leave-one-group-out',
                  'lower:' + method, rtol=1e-9, atol=1e-9)
    require_close(up, want_up, what + ': upper bound vs pooling of all RDMs',
                  'upper-loop:' + method, rtol=1e-9, atol=1e-9)
    if method in ORDER_METHODS and len(groups) == len(a):
        require(lo <= up + 1e-9, '%s: lower %.12g > upper %.12g' % (what, lo, up),
                'ordering:' + method)
    # a second ceiling with another measure on the very same object (a user comparing measures):
    # it must be the ceiling of the data as given, whatever was computed from the object before
    method2 = 'cosine' if method in ('corr', 'corr_cov') else 'corr'
    if not singleton:
        try:
            want_lo2, want_up2 = cref.ceilings(np.nan_to_num(a), groups, method2, n=n, keep=keep)
        except cref.Degenerate:
            return
        lo2, up2 = lib(boot_noise_ceiling, rd, method=method2, rdm_descriptor='grp',
                       on_error='reject')
        what2 = 'boot_noise_ceiling(%s) after boot_noise_ceiling(%s) on the same object' % (
            method2, method)
        require_close(lo2, want_lo2, what2 + ': lower bound', 'second-call:lower', rtol=1e-9,
                      atol=1e-9)
        require_close(up2, want_up2, what2 + ': upper bound', 'second-call:upper', rtol=1e-9,
                      atol=1e-9)


def classify_loo(case):
    labels, nt = base_labels(case)
    labels.append('method:' + case['method'])
    if case['method'] in ORDER_METHODS and len(set(case['groups'])) == len(case['rows']):
        labels.append('ordering-asserted')
    return labels, nt


# ---------------------------------------------------------------------------
# 3. invariance under per-RDM rescaling (cosine types) / positive affine maps (corr types)

@st.composite
def invariance_case(draw):
    case = draw(stack())
    k = len(case['rows'])
    case['method'] = draw(st.sampled_from(ORDER_METHODS))
    case['scales'] = draw(st.lists(st.sampled_from([0.125, 0.5, 1.0, 3.0, 7.5, 100.0, 0.3]),
                                   min_size=k, max_size=k))
    case['shifts'] = draw(st.lists(st.sampled_from([0.0, 0.5, 2.0, 17.25, 1000.0, 1048576.0]),
                                   min_size=k, max_size=k))
    # individual data RDMs in very small / large units (exact power-of-two factors)
    case['units'] = draw(st.lists(st.sampled_from([0, 0, 0, -60, -90, 40]), min_size=k, max_size=k))
    return case


def check_invariance(case):
    a, keep, n = build(case)
    method = case['method']
    sig = 'invariance:' + method
    rd = make_rdms(a, case['groups'])
    lo, up = lib(boot_noise_ceiling, rd, method=method, rdm_descriptor='grp',
                 on_error='violation', sig=sig + ':raises')
    b = a * np.array(case['scales'], dtype=float).reshape(-1, 1)
    if method in cref.CORR_TYPES:
        b = b + np.array(case['shifts'], dtype=float).reshape(-1, 1)
    b = b * (2.0 ** np.array(case.get('units', [0] * len(b)), dtype=float)).reshape(-1, 1)
    lo2, up2 = lib(boot_noise_ceiling, make_rdms(b, case['groups']), method=method,
                   rdm_descriptor='grp', on_error='violation', sig=sig + ':raises')
    try:    # a vanishing leave-one-out pool has no defined direction: outside the domain
        cref.ceilings(np.nan_to_num(a), cref.groups_of(case['groups']), method, n=n, keep=keep)
    except cref.Degenerate as e:
        raise Reject(str(e), 'degenerate:zero-pool')
    tol = 1e-9 if max(case['shifts']) < 100 or method in cref.COS_TYPES else 1e-7
    what = 'boot_noise_ceiling(%s) after per-RDM %s' % (
        method, 'positive affine maps' if method in cref.CORR_TYPES else 'positive rescaling')
    require_close(lo2, lo, what + ': lower bound', sig + ':lower', rtol=tol, atol=tol)
    require_close(up2, up, what + ': upper bound', sig + ':upper', rtol=tol, atol=tol)


def classify_invariance(case):
    labels, nt = base_labels(case)
    labels.append('method:' + case['method'])
    labels.append('scales:' + ('equal' if len(set(case['scales'])) == 1 else 'different'))
    labels.append('units:' + ('mixed' if len(set(case.get('units', [0]))) > 1 else 'same'))
    return labels, nt and len(set(case['scales'])) > 1


# ---------------------------------------------------------------------------
# 4. cross-validated ceiling recomputed from the fold indices

def no_constant_triangle(rows, n):
    """construction instead of rejection: whatever >= 3 conditions a fold selects, the restricted
    RDM must not be constant; a constant triangle gets one side raised above the row maximum"""
    idx = {pr: j for j, pr in enumerate(ref.pairs(n))}
    out = []
    for r in rows:
        r = [float(x) for x in r]
        for (a, b, c) in itertools.combinations(range(n), 3):
            tri = [r[idx[(a, b)]], r[idx[(a, c)]], r[idx[(b, c)]]]
            mx = max(abs(x) for x in r)
            if max(tri) - min(tri) < 0.0625 * max(1.0, mx):
                r[idx[(a, b)]] = 1.0 + 2 * mx
        out.append(r)
    return out


@st.composite
def cv_case(draw):
    n = draw(st.integers(6, 9))
    p = ref.n_pairs(n)
    k = draw(st.integers(2, 6))
    kind = draw(st.sampled_from(['pos', 'float', 'smallpos']))
    rows = no_constant_triangle(draw(data_rows(k, p, kind)), n)
    grouped = draw(st.booleans()) and k >= 4
    if grouped:
        g = draw(st.lists(st.integers(0, 2), min_size=k, max_size=k))
        g[0], g[1], g[2] = 0, 1, 2
        groups = [[3, -2, 10][x] for x in g]
    else:
        groups = [3 * x - 4 for x in draw(gen.permutation(k))]
    n_groups = len(set(groups))
    k_rdm = draw(st.integers(2, n_groups))
    k_pattern = draw(st.sampled_from([1, 2, 2]))
    if n >= 9:
        k_pattern = draw(st.sampled_from([1, 2, 3]))
    # pattern folds over a grouping descriptor whose members are stored interleaved and whose labels
    # are not in sorted order: 4 groups of >= 2 conditions (n >= 8), at most 2 folds, so that every
    # test fold holds >= 2 groups (>= 4 conditions)
    cat = None
    if n >= 8 and draw(st.booleans()):
        names = draw(st.sampled_from([[7, -1, 3, 5], ['tool', 'body', 'face', 'house'],
                                      [2.5, 0.5, 10.0, -1.5]]))
        members = [0, 1, 2, 3, 0, 1, 2, 3] + [draw(st.integers(0, 3)) for _ in range(n - 8)]
        order = draw(gen.permutation(n))
        cat = [names[members[i]] for i in order]
        k_pattern = draw(st.sampled_from([1, 2]))
    # ... or over a descriptor with one distinct label per condition, held as an array in an order
    # that is not sorted (stimulus names / ids as they come from the experiment)
    uniq = None
    if cat is None and draw(st.integers(0, 2)) == 0:
        _, labs = draw(gen.label_set(n))
        uniq = labs
    return dict(n=n, rows=rows, kind=kind, groups=groups, k_rdm=k_rdm, k_pattern=k_pattern, cat=cat,
                uniq=uniq,
                random=draw(st.booleans()), seed=draw(st.integers(0, 2 ** 31 - 1)),
                method=draw(st.sampled_from(CV_METHODS)))


def check_cv(case):
    n, method = case['n'], case['method']
    sig = 'cv:' + method
    a = np.array(case['rows'], dtype=float)
    k = len(a)
    cat = case.get('cat')
    uniq = case.get('uniq')
    pdesc = 'cat' if cat is not None else 'stim' if uniq is not None else 'index'
    pdescs = {'cat': list(cat)} if cat is not None else \
        {'stim': np.array(uniq)} if uniq is not None else None
    rd = RDMs(a.copy(), rdm_descriptors={'grp': list(case['groups']), 'rid': list(range(k))},
              pattern_descriptors=pdescs)
    np.random.seed(case['seed'])
    train_set, test_set, ceil_set = lib(sets_k_fold, rd, k_rdm=case['k_rdm'],
                                        k_pattern=case['k_pattern'], random=case['random'],
                                        pattern_descriptor=pdesc, rdm_descriptor='grp')
    # read the folds back by descriptor and recompute from the original data
    full_pool = cref.pool(a, method)
    lows, ups = [], []
    for ceil, test in zip(ceil_set, test_set):
        tr_ids = [int(i) for i in ceil[0].rdm_descriptors['rid']]
        te_ids = [int(i) for i in test[0].rdm_descriptors['rid']]
        if uniq is not None:
            named = [core.tolist(x) for x in test[1]]
            cond = [i for i in range(n) if uniq[i] in named]
            require(len(cond) == len(named), 'fold names %r, labels are %r' % (named, uniq), 'harness')
        elif cat is None:
            cond = [int(c) for c in test[1]]
        else:   # the fold names group labels: its conditions are all members, in storage order
            named = list(test[1])
            cond = [i for i in range(n) if any(cat[i] == x for x in named)]
        require(len(cond) >= 3 and len(te_ids) >= 1 and len(tr_ids) >= 1, 'fold too small', 'harness')
        v = ref.dense_v(len(cond)) if method in cref.WHITENED else None
        tr = np.array([ref.restrict_vector(a[i], n, cond) for i in tr_ids])
        te = np.array([ref.restrict_vector(a[i], n, cond) for i in te_ids])
        for r in list(tr) + list(te):
            if r.max() - r.min() < 0.0625 * max(1.0, np.abs(r).max()):
                raise Reject('constant restricted RDM', 'degenerate:constant-row')
        pred_lo = cref.pool(tr, method)
        pred_up = ref.restrict_vector(full_pool, n, cond)
        try:
            cref.check_pooled(pred_lo, method)
            cref.check_pooled(pred_up, method)
            lows.append(np.mean([cref.similarity(method, pred_lo, t, v) for t in te]))
            ups.append(np.mean([cref.similarity(method, pred_up, t, v) for t in te]))
        except cref.Degenerate as e:
            raise Reject(str(e), 'degenerate:zero-pool')
    want_lo, want_up = float(np.mean(lows)), float(np.mean(ups))
    if not (np.isfinite(want_lo) and np.isfinite(want_up)):
        raise Reject('undefined similarity', 'degenerate:zero-pool')
    lo, up = lib(cv_noise_ceiling, rd, ceil_set, test_set, method=method, pattern_descriptor=pdesc,
                 on_error='violation', sig=sig + ':raises')
    what = 'cv_noise_ceiling(%s), %d RDMs, k_rdm=%d, k_pattern=%d' % (method, k, case['k_rdm'],
                                                                     case['k_pattern'])
    require_close(lo, want_lo, what + ': lower bound vs training RDMs pooled at the test conditions',
                  sig + ':lower', rtol=1e-9, atol=1e-9)
    require_close(up, want_up, what + ': upper bound vs pool of all RDMs at the test conditions',
                  sig + ':upper', rtol=1e-9, atol=1e-9)


def classify_cv(case):
    k = len(case['rows'])
    singleton = len(set(case['groups'])) == k
    labels = ['method:' + case['method'], 'k_rdm=%d' % case['k_rdm'],
              'k_pattern=%d' % case['k_pattern'], 'random' if case['random'] else 'ordered',
              'groups:' + ('singleton' if singleton else 'grouped'), 'values:' + case['kind'],
              'folds-over:' + ('interleaved-category' if case.get('cat') is not None else
                               'unique-label-array' if case.get('uniq') is not None else 'index')]
    return labels, k >= 3 or not singleton or case['kind'] == 'smallpos'


# ---------------------------------------------------------------------------
# 5. exhaustive: every rank vector with ties as competitor for rho-a (3 and 4 conditions)

def enum_rank_cases_n3(tier, seed):
    w3 = cref.weak_orders(3)
    for r1, r2 in itertools.product(w3, repeat=2):
        if len(set(r1)) > 1 and len(set(r2)) > 1:
            yield dict(n=3, rows=[list(r1), list(r2)])
    triples = [t for t in itertools.product(w3, repeat=3) if min(len(set(r)) for r in t) > 1]
    if tier != 'thorough':
        triples = triples[(seed % 4)::4]
    for r1, r2, r3 in triples:
        yield dict(n=3, rows=[list(r1), list(r2), list(r3)])


N4_SHARDS = 4


def enum_rank_cases_n4(shard):
    """data stacks over 4 conditions (6 pairs): the identity ranking (w.l.o.g. by relabelling the
    pairs) against every `step`-th weak ordering, plus three-RDM stacks with a tied first RDM;
    the competitors are ALL 4683 weak orderings in every case"""
    def fn(tier, seed):
        ident = [0.0, 1.0, 2.0, 3.0, 4.0, 5.0]
        tied = [0.0, 0.0, 1.0, 2.0, 2.0, 3.0]
        w6 = cref.weak_orders(6)
        step = 9 if tier == 'thorough' else 400
        picks = w6[(seed % step)::step]
        for j, r2 in enumerate(picks):
            if len(set(r2)) > 1 and j % N4_SHARDS == shard:
                yield dict(n=4, rows=[ident, list(r2)])
        picks = w6[(seed % (7 * step))::(7 * step)]
        for j, r2 in enumerate(picks):
            if len(set(r2)) > 1 and j % N4_SHARDS == shard:
                yield dict(n=4, rows=[tied, list(r2), ident])
    return fn


_W = {}


def check_enum(case):
    a = np.array(case['rows'], dtype=float)
    p = a.shape[1]
    rd = RDMs(a.copy())
    lo, up = lib(boot_noise_ceiling, rd, method='rho-a', on_error='violation', sig='upper:rho-a:raises')
    if p not in _W:
        _W[p] = np.array(cref.weak_orders(p), dtype=float)
    cands = _W[p]
    s = lib(compare, cands, rd, method='rho-a', on_error='violation', sig='upper:rho-a:compare-raises')
    scores = np.asarray(s, dtype=float).mean(axis=1)
    best = float(scores.max())
    require(best <= up + 1e-9, 'rank vector %s scores %.12g > upper noise ceiling %.12g (rho-a)' % (
        cands[int(scores.argmax())].tolist(), best, up), 'upper:rho-a:beaten')
    require(best >= up - 1e-9, 'no rank vector reaches the upper noise ceiling %.12g (best %.12g)' % (
        up, best), 'upper:rho-a:value')
    # the library's scores of the competitors themselves are cross-checked on the best one
    own = np.mean([ref.s_rho_a(cands[int(scores.argmax())], r) for r in a])
    require_close(best, own, 'rho-a score of the best rank vector', 'upper:rho-a:score', 1e-9, 1e-9)


def classify_enum(case):
    return ['exhaustive:n=%d' % case['n'], 'n_rdm=%d' % len(case['rows'])], True


SUBCHECKS = [
    SubCheck('upper_optimal', optimal_case(), check_optimal, classify_optimal, quick=500,
             doc='singleton groups, cosine/corr/rho-a: upper == analytic maximum, pooled RDM attains '
                 'it, no generated competitor exceeds it'),
    SubCheck('leave_one_out', loo_case(), check_loo, classify_loo, quick=500,
             doc='lower and upper == explicit leave-one-group-out loop with own pooling on the '
                 'existing entries; lower <= upper for cosine/corr (plain, whitened), singleton groups'),
    SubCheck('invariance', invariance_case(), check_invariance, classify_invariance, quick=300,
             doc='bounds unchanged by per-RDM positive scaling (cosine types) / affine maps (corr types)'),
    SubCheck('crossval', cv_case(), check_cv, classify_cv, quick=250,
             doc='cv_noise_ceiling == recomputation from the fold indices of sets_k_fold'),
    Enumeration('rho_a_all_rank_vectors_n3', enum_rank_cases_n3, check_enum, classify_enum,
                doc='3 conditions: all pairs (quick: a quarter of the triples, thorough: all triples) '
                    'of non-constant weak orderings as data, every weak ordering (13) as competitor: '
                    'none beats, one attains the rho-a upper bound', tiers=('quick', 'thorough')),
] + [
    Enumeration('rho_a_all_rank_vectors_n4_%d' % k, enum_rank_cases_n4(k), check_enum, classify_enum,
                doc='4 conditions: every weak ordering of the 6 pairs (4683) as competitor against '
                    'identity x every 9th (quick: 400th) weak ordering as data (shard %d of %d)' % (
                        k + 1, N4_SHARDS), tiers=('quick', 'thorough'))
    for k in range(N4_SHARDS)
]

# every check starts from numpy's default floating-point error state (see c07_ref.reset_fp)
for _sc in SUBCHECKS:
    _sc.check = cref.guarded(_sc.check)
