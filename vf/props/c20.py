"""C20 - importers recover exactly the structure encoded in external names and files.

Five independent sub-checks: BIDS paths, Meadows files, MNE epochs, HRF design matrices,
SPM high-pass filter."""
import json
import math
import os
import shutil
import tempfile

import numpy as np
from hypothesis import strategies as st

from vf import core, gen, ref
from vf.core import SubCheck, Enumeration, Violation, Reject, lib, require, require_close

import pandas  # noqa: E402
from scipy.io import savemat  # noqa: E402
from rsatoolbox.io import bids as B  # noqa: E402
from rsatoolbox.io import meadows as M  # noqa: E402
from rsatoolbox.io import mne as MN  # noqa: E402
from rsatoolbox.io.fmriprep import make_design_matrix  # noqa: E402
from rsatoolbox.io.spm import SpmGlm  # noqa: E402
from rsatoolbox.io.petnames import PETNAMES  # noqa: E402

RULE = ("bids: every presence/absence combination of ses, task, run, space, desc, derivative "
        "(64, enumerated in both tiers with three value sets, and drawn uniformly in the "
        "generated sub-check) x alphanumeric values, 6 modalities, 9 suffixes, 8 extensions "
        "(multi-part included); oracle = own formatter/parser of the BIDS grammar, files placed "
        "in a temp tree for get_meta/get_events/get_frame. meadows: files written with "
        "scipy.io.savemat / json in the three name shapes (1 participant 1 task .mat, 1 "
        "participant n tasks .json with interleaved non-arrangement tasks, n participants .mat "
        "with generated variable order), 3-7 stimuli in generated order with extensions of "
        "different length, random dissimilarity vectors, sort True/False. mne: Epochs cut lazily (preload=False) from a 40-80 sample RawArray with 2-6 events, optional peak-to-peak rejection and events running off the recording; EpochsArray "
        "1-6 epochs x 1-5 channels x 1-8 samples, event table with distinct columns, optional "
        "FIF round trip under a BIDS-style name. design: 1-4 conditions x 1-4 onsets inside the "
        "run, 7 TRs, 30-120 volumes, 0-3 confound columns + optional NaN column, confound row labels default / offset (iloc[k:]) / volume number / time, generated row "
        "permutation and alternative onsets for the other conditions. spm: 1-4 runs of "
        "generated lengths, orthonormal bases (DCT or QR of a generated matrix, 0-4 "
        "regressors), data 1-5 voxels; get_residuals through a nitools stand-in. Non-trivial: "
        "bids >= 2 optional entities; meadows >= 3 stimuli whose file order is not "
        "alphabetical; mne >= 2 epochs and >= 2 channels; design >= 2 conditions or confounds; "
        "spm >= 2 runs of different length. Distinct by SHA1 of the case.")
ASSUMPTIONS = [
    "BIDS grammar subset: sub[/ses]/modality/sub[_ses][_task][_run][_space][_desc]_suffix.ext, "
    "optionally below derivatives/<name>/; values alphanumeric; modality, suffix and extension "
    "always present",
    "Meadows multi-participant .mat files list the stimuli in the same order for every "
    "participant (as in the bundled fixture); stimulus base names are unique; .mat stimuli are a "
    "MATLAB char matrix (scipy pads shorter names after the extension)",
    "Meadows arrangements have at least 3 stimuli (with 2 the multi-participant loader's "
    "squeeze() collapses the single pair; not claimed)",
    "the upper-triangular vector convention of the Meadows files is the one of RDMs "
    "(row-major upper triangle)",
    "mne.EpochsArray / Epochs.save / numpy.linalg.qr / pinv are trusted",
    "design-matrix regressor *shape* (HRF resampling by pchip) is not compared with an "
    "independent convolution - only what the statement says: one centred, range-normalised "
    "column per condition that is flat before the condition's first onset and does not depend "
    "on other conditions' onsets or on the row order, confound columns = normalised table "
    "columns without NaN, flags, dof",
    "SPM filter bases are given as 2-D arrays (runs x regressors) with orthonormal columns",
]


# ===========================================================================
# 1. BIDS

OPTIONAL = ['ses', 'task', 'run', 'space', 'desc', 'derivative']
ALNUM = 'abcdefghijklmnopqrstuvwxyzABCDEFGHIJKLMNOPQRSTUVWXYZ0123456789'
MODALITIES = ['func', 'anat', 'meg', 'eeg', 'fmap', 'dwi']
SUFFIXES = ['bold', 'T1w', 'mask', 'events', 'timeseries', 'dseg', 'meg', 'epo', 'boldref']
EXTS = ['nii.gz', 'nii', 'tsv', 'json', 'fif', 'dtseries.nii', 'func.gii', 'tsv.gz']
VALUE_SETS = [
    dict(sub='01', ses='02', task='rest', run='1', space='MNI152NLin2009cAsym', desc='preproc',
         derivative='fmriprep', modality='func', suffix='bold', ext='nii.gz'),
    dict(sub='sub', ses='ses', task='run', run='task', space='desc', desc='space',
         derivative='derivatives', modality='anat', suffix='T1w', ext='nii'),
    dict(sub='A1b', ses='0', task='desc1', run='007', space='T1w', desc='brain',
         derivative='myPipe2', modality='meg', suffix='mask', ext='dtseries.nii'),
]
value_st = st.one_of(
    st.text(alphabet=ALNUM, min_size=1, max_size=6),
    st.sampled_from(['01', '1', '0', 'sub', 'ses', 'run', 'task', 'space', 'desc', 'None',
                     'preproc', 'brain', 'confounds', 'aparcaseg', 'T1w', 'events', 'json']))


def fmt_path(e):
    """BIDS relative path from an entity dict (own formatter)"""
    dirs = []
    if e.get('derivative'):
        dirs += ['derivatives', e['derivative']]
    dirs.append('sub-' + e['sub'])
    if e.get('ses'):
        dirs.append('ses-' + e['ses'])
    dirs.append(e['modality'])
    fn = ['sub-' + e['sub']]
    for k in ('ses', 'task', 'run', 'space', 'desc'):
        if e.get(k):
            fn.append('%s-%s' % (k, e[k]))
    fn.append('%s.%s' % (e['suffix'], e['ext']))
    return os.sep.join(dirs + ['_'.join(fn)])


ATTRS = ['sub', 'ses', 'run', 'task', 'space', 'desc', 'derivative', 'modality', 'suffix', 'ext']


def expect_attrs(f, e, what):
    for k in ATTRS:
        got = getattr(f, k, '<unset>')
        want = e.get(k)
        require(got == want, '%s: %s = %r, expected %r (path %r)' % (what, k, got, want, f.relpath),
                'bids:%s:%s' % (what.split(' ')[0], k))


def check_bids(case):
    e = dict(case['ent'])
    root = tempfile.mkdtemp(prefix='vf_c20_bids_')
    try:
        layout = B.BidsLayout(root, nibabel=object())
        rel = fmt_path(e)
        f = lib(B.BidsMriFile, rel, layout, object(), on_error='violation', sig='bids:parse:raises')
        require(f.relpath == rel, 'relpath changed', 'bids:parse:relpath')
        expect_attrs(f, e, 'parse')
        back = lib(layout._replace, f, {}, on_error='violation', sig='bids:format:raises')
        require(back == rel, 'parse -> format: %r, original %r' % (back, rel), 'bids:roundtrip')
        require(f.fpath == os.path.join(root, rel), 'fpath %r' % f.fpath, 'bids:fpath')

        # generic replacement
        rep = {k: v for k, v in case.get('replace', {}).items()}
        if rep:
            e2 = dict(e)
            e2.update(rep)
            got = lib(layout._replace, f, dict(rep), on_error='violation', sig='bids:format:raises')
            require(got == fmt_path(e2), '_replace(%r): %r, expected %r' % (rep, got, fmt_path(e2)),
                    'bids:replace')

        sd, ss = case['sib_desc'], case['sib_suffix']
        lookups = [
            ('meta', lambda: layout.find_meta_for(f), dict(ext='json'), B.BidsJsonFile),
            ('events', lambda: layout.find_events_for(f),
             dict(derivative=None, space=None, desc=None, suffix='events', ext='tsv'),
             B.BidsTableFile),
            ('table_sibling', lambda: layout.find_table_sibling_of(f, sd, ss),
             dict(desc=sd, suffix=ss, ext='tsv', space=None), B.BidsTableFile),
            ('mri_sibling', lambda: layout.find_mri_sibling_of(f, sd, ss),
             dict(desc=sd, suffix=ss), B.BidsMriFile),
        ]
        for name, call, change, cls in lookups:
            e2 = dict(e)
            e2.update(change)
            g = lib(call, on_error='violation', sig='bids:%s:raises' % name)
            require(isinstance(g, cls), '%s returns %s' % (name, type(g).__name__),
                    'bids:%s:type' % name)
            require(g.relpath == fmt_path(e2), '%s look-up for %r: %r, expected %r' % (
                name, rel, g.relpath, fmt_path(e2)), 'bids:%s:path' % name)
            expect_attrs(g, e2, name)
        # the base object is untouched by the look-ups
        expect_attrs(f, e, 'parse after look-ups')
        # a second file with identical file-name entities in another derivative pipeline, served
        # by the same layout object: its look-ups must change only what they are asked to change
        e_b = dict(e, derivative='pipeB' if e.get('derivative') != 'pipeB' else 'pipeC')
        f_b = lib(B.BidsMriFile, fmt_path(e_b), layout, object(), on_error='violation',
                  sig='bids:parse:raises')
        for who, fo, eo in (('other pipeline', f_b, e_b), ('first file again', f, e)):
            g = lib(layout.find_meta_for, fo, on_error='violation', sig='bids:meta:raises')
            e2 = dict(eo, ext='json')
            require(g.relpath == fmt_path(e2), 'meta look-up (%s) for %r: %r, expected %r' % (
                who, fo.relpath, g.relpath, fmt_path(e2)), 'bids:meta:path')
            expect_attrs(g, e2, 'meta')

        # the same through the file objects, with real files at the BIDS locations
        def put(ent, text):
            p = os.path.join(root, fmt_path(ent))
            os.makedirs(os.path.dirname(p), exist_ok=True)
            with open(p, 'w') as fh:
                fh.write(text)
        meta = {'RepetitionTime': 2.0, 'who': rel}
        e_meta = dict(e, ext='json')
        put(e_meta, json.dumps(meta))
        e_ev = dict(e, derivative=None, space=None, desc=None, suffix='events', ext='tsv')
        e_tab = dict(e, desc=sd, suffix=ss, ext='tsv', space=None)
        clash = fmt_path(e_ev) == fmt_path(e_tab) or fmt_path(e_meta) in (fmt_path(e_ev),
                                                                         fmt_path(e_tab))
        put(e_ev, 'onset\tduration\ttrial_type\n1.5\t2.0\tevents-file\n')
        if not clash:
            put(e_tab, 'a\tb\n1\tsibling-file\n')
        got_meta = lib(f.get_meta, on_error='violation', sig='bids:get_meta:raises')
        if fmt_path(e_meta) not in (fmt_path(e_ev), fmt_path(e_tab)):
            require(got_meta == meta, 'get_meta returned %r' % (got_meta,), 'bids:get_meta')
        ev = lib(f.get_events, on_error='violation', sig='bids:get_events:raises')
        require(list(ev.columns) == ['onset', 'duration', 'trial_type'] and
                ev.trial_type[0] == 'events-file', 'get_events read another file',
                'bids:get_events')
        if not clash:
            tab = lib(lambda: f.get_table_sibling(sd, ss).get_frame(), on_error='violation',
                      sig='bids:get_table_sibling:raises')
            require(list(tab.columns) == ['a', 'b'] and tab.b[0] == 'sibling-file',
                    'get_table_sibling read another file', 'bids:get_table_sibling')
    finally:
        shutil.rmtree(root, ignore_errors=True)


def _ent_from(values, present):
    e = dict(values)
    for i, k in enumerate(OPTIONAL):
        if not (present >> i) & 1:
            e[k] = None
    return e


@st.composite
def bids_case(draw):
    present = draw(st.integers(0, 63))
    vals = {k: draw(value_st) for k in ['sub'] + OPTIONAL}
    vals['modality'] = draw(st.sampled_from(MODALITIES))
    vals['suffix'] = draw(st.sampled_from(SUFFIXES))
    vals['ext'] = draw(st.sampled_from(EXTS))
    e = _ent_from(vals, present)
    rep = {}
    for k in draw(st.lists(st.sampled_from(OPTIONAL + ['suffix', 'ext', 'sub']), max_size=3,
                           unique=True)):
        if k in OPTIONAL:
            rep[k] = draw(st.one_of(st.none(), value_st))
        elif k == 'suffix':
            rep[k] = draw(st.sampled_from(SUFFIXES))
        elif k == 'ext':
            rep[k] = draw(st.sampled_from(EXTS))
        else:
            rep[k] = draw(value_st)
    return dict(ent=e, present=present, replace=rep, sib_desc=draw(value_st),
                sib_suffix=draw(st.sampled_from(SUFFIXES)))


def bids_enum(tier, seed):
    for vals in VALUE_SETS:
        for present in range(64):
            yield dict(ent=_ent_from(vals, present), present=present, replace={},
                       sib_desc='confounds', sib_suffix='timeseries')


def classify_bids(case):
    e = case['ent']
    n_opt = sum(1 for k in OPTIONAL if e.get(k))
    labels = ['n_optional=%d' % n_opt, 'ext:' + ('multi' if '.' in e['ext'] else 'single'),
              'derivative' if e.get('derivative') else 'raw', 'ses' if e.get('ses') else 'no-ses',
              'replace=%d' % len(case.get('replace', {}))]
    return labels, n_opt >= 2


# ===========================================================================
# 2. Meadows

ANIMALS = [a for a in ['fly', 'koi', 'bunny', 'mole', 'ox', 'cat', 'bear', 'crab', 'owl', 'yak']
           if a in PETNAMES]
ADJECTIVES = ['able', 'clean', 'cuddly', 'informed', 'zany', 'big', 'Calm', 'quick']
# (incl. names that are a prefix of another one followed by a character that sorts before '.':
#  'face' / 'face-inverted', 'house' / 'house 2' - alphabetical order is that of the labels,
#  not of the file names with their extension)
STIM_BASES = ['stim118', 'stim117', 'beach', 'river', 'fireplace', 'a', 'B', 'zz', 'stim2',
              'stim10', 'Alpha', 'c3', 'x', 'img007', 'house', 'face', 'face-inverted', 'house 2',
              'face+body', 'a-1']
STIM_EXTS = ['png', 'jpg', 'jpeg', 'mp4', 'gif']
name_st = st.text(alphabet='abcdefghijklmnopqrstuvwxyzABCDEFGHIJKLMNOPQRSTUVWXYZ0123456789',
                  min_size=1, max_size=7)
letters_st = st.text(alphabet='abcdefghijklmnopqrstuvwxyzABCDEFGHIJKLMNOPQRSTUVWXYZ',
                     min_size=1, max_size=1)


@st.composite
def petname_st(draw):
    return draw(st.sampled_from(ADJECTIVES)) + '-' + draw(st.sampled_from(ANIMALS))


@st.composite
def meadows_case(draw):
    shape = draw(st.sampled_from(['mat1', 'json1', 'matN']))
    n_stim = draw(st.integers(3, 7))
    idx = draw(st.lists(st.integers(0, len(STIM_BASES) - 1), min_size=n_stim, max_size=n_stim,
                        unique=True))
    bases = [STIM_BASES[i] for i in idx]
    if shape == 'json1':
        stimuli = bases
    else:
        stimuli = [b + '.' + draw(st.sampled_from(STIM_EXTS)) for b in bases]
    npair = ref.n_pairs(n_stim)
    if shape == 'mat1':
        n_rdm = 1
    elif shape == 'matN':
        n_rdm = draw(st.integers(1, 4))
    else:
        n_rdm = draw(st.integers(1, 3))
    utvs = [draw(st.lists(st.integers(0, 4000).map(lambda k: k / 4096.0), min_size=npair,
                          max_size=npair)) for _ in range(n_rdm)]
    case = dict(shape=shape, exp=draw(letters_st) + draw(name_st), version=draw(st.integers(1, 12)),
                stimuli=stimuli, utvs=utvs, sort=draw(st.booleans()),
                structure=draw(st.sampled_from(['1D', '2D', 'tree'])))
    if shape == 'mat1':
        case['participants'] = [draw(st.one_of(petname_st(), letters_st.flatmap(
            lambda c: name_st.map(lambda s: c + s))))]
        case['task_index'] = draw(st.integers(0, 25))
    elif shape == 'matN':
        ps = draw(st.lists(petname_st(), min_size=n_rdm, max_size=n_rdm, unique=True))
        case['participants'] = ps
        # task names are free text: also an everyday word that happens to be in the pet-name list
        case['task_name'] = draw(st.one_of(letters_st.flatmap(lambda c: name_st.map(lambda t: c + t)),
                                           letters_st.flatmap(lambda c: name_st.map(lambda t: c + t)),
                                           st.sampled_from(['bird', 'fly', 'cat', 'lab', 'fish', 'dog'])))
        case['var_order'] = draw(st.sampled_from(['rdm-first', 'stim-first', 'interleaved',
                                                   'blocks-in-different-orders']))
    else:
        case['participants'] = [draw(petname_st())]
        # position of the arrangement tasks among other tasks
        layout = ['ma'] * n_rdm + ['info'] * draw(st.integers(0, 3))
        layout = [layout[i] for i in draw(gen.permutation(len(layout)))]
        case['layout'] = layout
        case['task_names'] = [draw(letters_st) + draw(name_st) for _ in layout]
        # later arrangement tasks may list the same stimuli in another order (the loader
        # documents 'Varying stimuli among ma tasks, only selecting matching')
        orders = [list(range(n_stim))]
        for _ in range(n_rdm - 1):
            orders.append(draw(gen.permutation(n_stim)) if draw(st.integers(0, 2)) == 0
                          else list(range(n_stim)))
        case['task_orders'] = orders
    return case


def meadows_fname(case):
    pre = 'Meadows_%s_v_v%d_' % (case['exp'], case['version'])
    if case['shape'] == 'mat1':
        return pre + '%s_%d_%s.mat' % (case['participants'][0], case['task_index'],
                                       case['structure'])
    if case['shape'] == 'matN':
        return pre + '%s_%s.mat' % (case['task_name'], case['structure'])
    return pre + '%s_%s.json' % (case['participants'][0], case['structure'])


def write_meadows(case, path):
    stimuli, utvs = case['stimuli'], case['utvs']
    if case['shape'] == 'mat1':
        savemat(path, {'stimuli': np.array(stimuli), 'rdmutv': np.array([utvs[0]])})
    elif case['shape'] == 'matN':
        items_r = [('rdmutv_' + p.replace('-', '_'), np.array([u]))
                   for p, u in zip(case['participants'], utvs)]
        items_s = [('stimuli_' + p.replace('-', '_'), np.array(stimuli))
                   for p in case['participants']]
        if case['var_order'] == 'rdm-first':
            items = items_r + items_s
        elif case['var_order'] == 'stim-first':
            items = items_s + items_r
        elif case['var_order'] == 'blocks-in-different-orders':
            # the two variable blocks list the participants in different orders (files edited or
            # re-exported): every participant still gets the vector stored under its own name
            items = items_s + items_r[1:] + items_r[:1]
        else:
            items = [x for pair in zip(items_s, items_r) for x in pair]
        savemat(path, dict(items))
    else:
        tasks, k = [], 0
        for kind, name in zip(case['layout'], case['task_names']):
            if kind == 'ma':
                tasks.append({'status': 'finished',
                              'task': {'name': name, 'task_type': 'multiarrange'},
                              'stimuli': [{'id': 'id%d' % i, 'name': stimuli[i], 'type': 'png'}
                                          for i in case.get('task_orders', [list(range(len(stimuli)))] * (k + 1))[k]],
                              'trials': [], 'rdm': list(utvs[k])})
                k += 1
            else:
                tasks.append({'status': 'finished', 'task': {'name': name, 'task_type': 'info'},
                              'stimuli': [], 'trials': [], 'isInfo': True})
        with open(path, 'w', encoding='utf-8') as fh:
            json.dump({'token': 'abc', 'tasks': tasks}, fh)


def check_meadows(case):
    d = tempfile.mkdtemp(prefix='vf_c20_meadows_')
    try:
        path = os.path.join(d, meadows_fname(case))
        write_meadows(case, path)
        shape = case['shape']
        info = lib(M.extract_filename_segments, path, on_error='violation',
                   sig='meadows:filename:raises')
        want_info = dict(experiment_name=case['exp'], version=str(case['version']),
                         structure=case['structure'], filetype='json' if shape == 'json1' else 'mat')
        if shape == 'mat1':
            want_info.update(participant_scope='single', task_scope='single',
                             participant=case['participants'][0], task_index=case['task_index'])
        elif shape == 'matN':
            want_info.update(participant_scope='multiple', task_scope='single',
                             task_name=case['task_name'])
        else:
            want_info.update(participant_scope='single', task_scope='multiple',
                             participant=case['participants'][0])
        for k, v in want_info.items():
            require(info.get(k) == v, 'file name %r: %s = %r, expected %r' % (
                os.path.basename(path), k, info.get(k), v), 'meadows:filename:' + k)
        rdms = lib(M.load_rdms, path, sort=case['sort'], on_error='violation',
                   sig='meadows:load:raises:' + shape)
        utvs = np.array(case['utvs'], dtype=float)
        n_rdm, n_stim = utvs.shape[0], len(case['stimuli'])
        bases = [s.split('.')[0] for s in case['stimuli']]
        orders = case.get('task_orders') or [list(range(n_stim))] * n_rdm
        ident = list(range(n_stim))
        # arrangement tasks listing the stimuli in another order than the first one may be
        # skipped (documented) or loaded - but if loaded, values must sit at their own labels
        must = [r for r in range(n_rdm) if orders[r] == ident]
        require(len(must) <= rdms.n_rdm <= n_rdm and rdms.n_cond == n_stim,
                '%s: %d RDMs x %d conditions, file has %d (of which %d in the first task\'s '
                'stimulus order) x %d' % (shape, rdms.n_rdm, rdms.n_cond, n_rdm, len(must), n_stim),
                'meadows:shape:' + shape)
        n_loaded = rdms.n_rdm
        conds = [str(c) for c in rdms.pattern_descriptors['conds']]
        if case['sort']:
            require(conds == sorted(bases), 'sort=True: conds %s, expected %s' % (
                conds, sorted(bases)), 'meadows:labels:sorted')
        else:
            require(conds == bases, 'sort=False: conds %s, file order %s' % (conds, bases),
                    'meadows:labels:file-order')
        # expected records; RDM <-> record matching is by the identifying descriptor (participant
        # for multi-participant files, task position for json), so that only the association
        # of values with descriptors is asserted, not the order of the RDMs
        rd = {k: [x.item() if hasattr(x, 'item') else x for x in v]
              for k, v in rdms.rdm_descriptors.items()}
        if shape == 'mat1':
            recs = [dict(participant=case['participants'][0], task_index=case['task_index'])]
            key = 'participant'
        elif shape == 'matN':
            recs = [dict(participant=p, task=case['task_name']) for p in case['participants']]
            key = 'participant'
        else:
            pos = [i for i, kd in enumerate(case['layout']) if kd == 'ma']
            recs = [dict(participant=case['participants'][0], task=case['task_names'][i],
                         task_index=i) for i in pos]
            key = 'task_index'
        for k in recs[0]:
            require(k in rd and len(rd[k]) == n_loaded, '%s: rdm descriptor %s = %r' % (
                shape, k, rd.get(k)), 'meadows:descriptor:' + k)
        have = sorted(rd[key], key=str)
        require(len(set(have)) == len(have)
                and set(have) <= {r[key] for r in recs}
                and {recs[r][key] for r in must} <= set(have),
                '%s: rdm descriptor %s = %r, file has %r' % (shape, key, rd[key],
                                                            [r[key] for r in recs]),
                'meadows:descriptor:' + key)
        mats = rdms.get_matrices()
        for r, rec in enumerate(recs):
            if rec[key] not in rd[key]:
                continue
            rl = rd[key].index(rec[key])
            for k, v in rec.items():
                require(rd[k][rl] == v, '%s: RDM of %s %r has %s = %r, expected %r' % (
                    shape, key, rec[key], k, rd[k][rl], v), 'meadows:descriptor:' + k)
            sq = ref.to_square(utvs[r], n_stim)
            own = [bases[i] for i in orders[r]]     # this task's own stimulus order in the file
            for a in range(n_stim):
                for b in range(n_stim):
                    if a == b:
                        continue
                    ia, ib = conds.index(own[a]), conds.index(own[b])
                    if mats[rl][ia, ib] != sq[a, b]:
                        raise Violation('%s sort=%s: RDM of %s %r, value for (%s, %s) = %r, file '
                                        'has %r' % (shape, case['sort'], key, rec[key], own[a],
                                                    own[b], float(mats[rl][ia, ib]),
                                                    float(sq[a, b])),
                                        'meadows:values:' + ('sorted' if case['sort']
                                                             else 'file-order'))
        require(rdms.descriptors.get('experiment_name') == case['exp'],
                'experiment_name %r' % rdms.descriptors.get('experiment_name'),
                'meadows:descriptor:experiment_name')
        require(rdms.dissimilarity_measure == 'euclidean', 'measure', 'meadows:descriptor:measure')
    finally:
        shutil.rmtree(d, ignore_errors=True)


def classify_meadows(case):
    bases = [s.split('.')[0] for s in case['stimuli']]
    labels = ['shape:' + case['shape'], 'sort=%s' % case['sort'], 'n_stim=%d' % len(bases),
              'n_rdm=%d' % len(case['utvs']),
              'alphabetical-file' if bases == sorted(bases) else 'unsorted-file']
    if case['shape'] == 'matN':
        labels.append('vars:' + case['var_order'])
    if case.get('task_orders'):
        labels.append('json-task-orders:' + ('varying' if any(
            o != list(range(len(o))) for o in case['task_orders']) else 'same'))
    return labels, len(bases) >= 3 and bases != sorted(bases)


# ===========================================================================
# 3. MNE

CH_POOL = ['Cz', 'A1', 'MEG 001', 'MEG 0113', 'Fp1', 'O2', 'EEG 010', 'x']


@st.composite
def mne_case(draw):
    n_ep, n_ch, n_t = draw(st.integers(1, 6)), draw(st.integers(1, 5)), draw(st.integers(1, 8))
    data = [draw(gen.matrix(n_ch, n_t, kind='grid')) for _ in range(n_ep)]
    steps = draw(st.lists(st.integers(1, 50), min_size=n_ep, max_size=n_ep))
    samples = list(np.cumsum(steps).tolist())
    events = [[samples[i], draw(st.integers(0, 9)), draw(st.sampled_from([3, 12, 1, 255, 7, 40]))]
              for i in range(n_ep)]
    names = [CH_POOL[i] for i in draw(st.lists(st.integers(0, len(CH_POOL) - 1), min_size=n_ch,
                                               max_size=n_ch, unique=True))]
    sfreq = draw(st.sampled_from([250.0, 100.0, 1000.0, 128.0]))
    return dict(data=data, events=events, names=names, sfreq=sfreq,
                tmin_samples=draw(st.integers(-5, 3)), scale=draw(st.sampled_from([1.0, 1e-6])),
                descriptors=draw(st.sampled_from([None, {'sub': 'x', 'n': 3}])),
                file=draw(st.booleans()),
                fname_ent=dict(sub=draw(value_st), task=draw(st.one_of(st.none(), value_st)),
                               run=draw(st.one_of(st.none(), value_st)),
                               ses=draw(st.one_of(st.none(), value_st))))


def check_mne(case):
    import mne
    data = np.array(case['data'], dtype=float) * case['scale']
    events = np.array(case['events'], dtype=int)
    sfreq = case['sfreq']
    tmin = case['tmin_samples'] / sfreq
    info = mne.create_info(list(case['names']), sfreq, ch_types='eeg', verbose='error')
    try:
        ep = mne.EpochsArray(data.copy(), info, events=events.copy(), tmin=tmin, verbose='error')
    except Exception as e:  # noqa: BLE001
        raise Reject('mne refused the epochs: %s' % e, 'harness:mne-constructor')
    descs = case['descriptors']
    ds = lib(MN.dataset_from_epochs, ep, None if descs is None else dict(descs),
             on_error='violation', sig='mne:dataset_from_epochs:raises')

    def compare(ds, what, exact):
        require(ds.measurements.shape == data.shape, '%s: measurements shape %s, epochs %s' % (
            what, ds.measurements.shape, data.shape), 'mne:shape')
        if exact:
            require(np.array_equal(ds.measurements, data), '%s: measurements differ from the '
                    'epochs data (max diff %.3g)' % (what, core.maxdiff(ds.measurements, data)),
                    'mne:measurements')
        else:
            require_close(ds.measurements, data, what + ': measurements', 'mne:measurements',
                          rtol=1e-6, atol=1e-9 * case['scale'])
        ev = [int(v) for v in ds.obs_descriptors['event']]
        require(ev == [int(v) for v in events[:, 2]], '%s: event descriptor %s, event codes %s' % (
            what, ev, events[:, 2].tolist()), 'mne:events')
        require(list(ds.channel_descriptors['name']) == list(case['names']),
                '%s: channel names %s' % (what, list(ds.channel_descriptors['name'])),
                'mne:channels')
        t = np.asarray(ds.time_descriptors['time'], dtype=float)
        want_t = (case['tmin_samples'] + np.arange(data.shape[2])) / sfreq
        require(t.shape == want_t.shape and core.close(t, want_t, rtol=1e-12, atol=1e-12),
                '%s: times %s, expected %s' % (what, t, want_t), 'mne:times')

    compare(ds, 'dataset_from_epochs', True)
    # the dataset owns its numbers: working on it in place leaves the epochs as they were, so a
    # second import gives the recorded data again
    ds.measurements[...] = ds.measurements + 1.0
    ds_again = lib(MN.dataset_from_epochs, ep, on_error='violation', sig='mne:dataset_from_epochs:raises')
    compare(ds_again, 'dataset_from_epochs (second import, after the first dataset was changed in place)',
            True)
    for k, v in (descs or {}).items():
        require(ds.descriptors.get(k) == v, 'descriptor %s lost' % k, 'mne:descriptors')

    ent = case['fname_ent']
    segs = ['sub-' + ent['sub']] + ['%s-%s' % (k, ent[k]) for k in ('ses', 'task', 'run') if ent[k]]
    fname = '_'.join(segs + ['epo.fif'])
    got = lib(MN.descriptors_from_bids_filename, fname, on_error='violation',
              sig='mne:bids-filename:raises')
    want = {k: ent[k] for k in ('sub', 'run', 'task') if ent[k]}
    require(got == want, 'descriptors_from_bids_filename(%r) = %r, expected %r' % (fname, got, want),
            'mne:bids-filename')
    if case['file']:
        d = tempfile.mkdtemp(prefix='vf_c20_mne_')
        try:
            p = os.path.join(d, fname)
            try:
                ep.save(p, fmt='double', overwrite=True, verbose='error')
            except Exception as e:  # noqa: BLE001
                raise Reject('mne could not save: %s' % e, 'harness:mne-save')
            ds2 = lib(MN.read_epochs, p, on_error='violation', sig='mne:read_epochs:raises')
            compare(ds2, 'read_epochs', False)
            want_d = dict(filename=fname, **want)
            require(dict(ds2.descriptors) == want_d, 'read_epochs descriptors %r, expected %r' % (
                dict(ds2.descriptors), want_d), 'mne:file-descriptors')
        finally:
            shutil.rmtree(d, ignore_errors=True)


def classify_mne(case):
    n_ep, n_ch, n_t = len(case['data']), len(case['data'][0]), len(case['data'][0][0])
    labels = ['file' if case['file'] else 'memory', 'n_epochs=%d' % n_ep,
              'single-channel' if n_ch == 1 else 'channels>1',
              'single-sample' if n_t == 1 else 'samples>1',
              'tmin<0' if case['tmin_samples'] < 0 else 'tmin>=0']
    return labels, n_ep >= 2 and n_ch >= 2


# 3b. MNE epochs cut lazily from a continuous recording (preload=False, the MNE default): the first
# get_data() applies the rejection criterion and drops epochs that run off the recording


@st.composite
def mne_lazy_case(draw):
    n_ch = draw(st.integers(1, 4))
    n_s = draw(st.integers(40, 80))
    raw = draw(gen.matrix(n_ch, n_s, kind='grid'))
    n_ev = draw(st.integers(2, 6))
    steps = draw(st.lists(st.integers(1, 20), min_size=n_ev, max_size=n_ev))
    samples = [int(x) for x in np.cumsum(steps)]
    if draw(st.booleans()):     # last event next to the end of the recording
        samples[-1] = max(samples[-2] + 1, n_s - draw(st.integers(1, 3))) if n_ev >= 2 else n_s - 2
    samples = [min(x, n_s - 1) for x in samples]
    samples = sorted(set(samples))
    events = [[x, 0, draw(st.sampled_from([3, 12, 1, 255, 7, 40]))] for x in samples]
    spikes = draw(st.lists(st.tuples(st.integers(0, n_ch - 1), st.integers(0, n_s - 1)), max_size=2))
    names = [CH_POOL[i] for i in draw(st.lists(st.integers(0, len(CH_POOL) - 1), min_size=n_ch,
                                               max_size=n_ch, unique=True))]
    return dict(raw=raw, events=events, spikes=[list(x) for x in spikes], names=names,
                sfreq=draw(st.sampled_from([250.0, 100.0, 1000.0, 128.0])),
                tmin_samples=draw(st.integers(-4, 0)), tmax_samples=draw(st.integers(1, 6)),
                reject=draw(st.booleans()))


def check_mne_lazy(case):
    import mne
    mne.set_log_level('error')
    sfreq = case['sfreq']
    raw_data = np.array(case['raw'], dtype=float)
    for ch, smp in case['spikes']:
        raw_data[ch, smp] += 1000.0
    events = np.array(case['events'], dtype=int)
    info = mne.create_info(list(case['names']), sfreq, ch_types='eeg', verbose='error')
    lo, hi = case['tmin_samples'], case['tmax_samples']
    kw = dict(tmin=lo / sfreq, tmax=hi / sfreq, baseline=None,
              reject=dict(eeg=500.0) if case['reject'] else None, verbose='error')
    try:
        raw = mne.io.RawArray(raw_data.copy(), info, verbose='error')
        lazy = mne.Epochs(raw, events.copy(), preload=False, **kw)
    except Exception as e:  # noqa: BLE001
        raise Reject('mne refused the epochs: %s' % e, 'harness:mne-constructor')
    # own cut of the recording: complete epochs only, peak-to-peak below the criterion
    want, codes = [], []
    for smp, _, code in events:
        a, b = smp + lo, smp + hi + 1
        if a < 0 or b > raw_data.shape[1]:
            continue
        seg = raw_data[:, a:b]
        if case['reject'] and np.any(seg.max(axis=1) - seg.min(axis=1) > 500.0):
            continue
        want.append(seg)
        codes.append(int(code))
    if not want:
        raise Reject('no epoch survives', 'degenerate:no-epochs')
    want = np.array(want)
    what = 'dataset_from_epochs(Epochs(raw, %d events, preload=False%s))' % (
        len(events), ', reject' if case['reject'] else '')
    ds = lib(MN.dataset_from_epochs, lazy, on_error='violation', sig='mne:lazy:raises')
    # cross-check of the oracle with MNE's own preloaded epochs (MNE trusted)
    try:
        ref_ep = mne.Epochs(raw, events.copy(), preload=True, **kw)
        ok = np.array_equal(ref_ep.get_data(), want) and [int(c) for c in ref_ep.events[:, 2]] == codes
    except Exception as e:  # noqa: BLE001
        raise Reject('mne refused the preloaded epochs: %s' % e, 'harness:mne-constructor')
    if not ok:
        raise Reject('own cut of the recording differs from preloaded MNE epochs', 'harness:mne-cut')
    require(ds.measurements.shape == want.shape, '%s: measurements shape %s, %d epochs survive: %s' % (
        what, ds.measurements.shape, len(want), want.shape), 'mne:lazy:shape')
    require(np.array_equal(ds.measurements, want), '%s: measurements differ from the recording (max '
            'diff %.3g)' % (what, core.maxdiff(ds.measurements, want)), 'mne:lazy:measurements')
    ev = [int(v) for v in ds.obs_descriptors['event']]
    require(ev == codes, '%s: event descriptor %s, codes of the returned epochs %s' % (what, ev, codes),
            'mne:lazy:events')
    require(list(ds.channel_descriptors['name']) == list(case['names']), '%s: channel names %s' % (
        what, list(ds.channel_descriptors['name'])), 'mne:lazy:channels')
    t = np.asarray(ds.time_descriptors['time'], dtype=float)
    want_t = np.arange(lo, hi + 1) / sfreq
    require(t.shape == want_t.shape and core.close(t, want_t, rtol=1e-12, atol=1e-12),
            '%s: times %s, expected %s' % (what, t, want_t), 'mne:lazy:times')


def classify_mne_lazy(case):
    n_s = len(case['raw'][0])
    lo, hi = case['tmin_samples'], case['tmax_samples']
    off = sum(1 for e in case['events'] if e[0] + lo < 0 or e[0] + hi + 1 > n_s)
    labels = ['reject' if case['reject'] else 'no-reject', 'spikes=%d' % len(case['spikes']),
              'off-recording=%d' % min(off, 2), 'events=%d' % len(case['events'])]
    return labels, off > 0 or (case['reject'] and len(case['spikes']) > 0)


# ===========================================================================
# 4. HRF design matrix

TRS = [2.0, 1.5, 1.0, 0.72, 2.5, 3.0, 0.5, 0.8, 1.3, 0.7, 1.1]     # (multiband TRs: not binary fractions)
DURS = [1.0, 0.5, 2.0, 0.1, 3.5, 5.0, 10.0]
COND_NAMES = ['b', 'a', 'face', 'House', 'c10', 'c9']
CONF_NAMES = ['global_signal', 'csf', 'trans_x', 'rot_z']


@st.composite
def design_case(draw):
    tr = draw(st.sampled_from(TRS))
    n_vols = draw(st.integers(max(30, int(math.ceil(45 / tr)) + 1), 120))
    t_end = tr * (n_vols - 1)
    n_cond = draw(st.integers(1, 4))
    names = [COND_NAMES[i] for i in draw(st.lists(st.integers(0, len(COND_NAMES) - 1),
                                                  min_size=n_cond, max_size=n_cond, unique=True))]
    max_on = int((t_end - 12) * 4)
    onset = st.integers(0, max_on).map(lambda k: k / 4.0)
    rows, alt = [], []
    for c in range(n_cond):
        n_on = draw(st.integers(1, 4))
        ons = draw(st.lists(onset, min_size=n_on, max_size=n_on, unique=True))
        alts = draw(st.lists(onset, min_size=n_on, max_size=n_on, unique=True))
        if draw(st.integers(0, 3)) == 0:
            # an event shortly before the first kept volume (dummy scans were discarded): BIDS allows
            # negative onsets and its response falls into the run
            ons[0] = draw(st.sampled_from([-1.0, -2.5, -0.5]))
        for o, a in zip(ons, alts):
            rows.append([o, draw(st.sampled_from(DURS)), c])
            alt.append(a)
    perm0 = draw(gen.permutation(len(rows)))
    rows = [rows[i] for i in perm0]
    alt = [alt[i] for i in perm0]
    conf = None
    if draw(st.sampled_from([True, True, False])):
        n_cf = draw(st.sampled_from([2, 1, 3, 0]))
        cols = []
        for _ in range(n_cf):
            col = draw(gen.vector(n_vols, kind='grid'))
            if max(col) == min(col):
                col[0] += 1.0
            cols.append(col)
        # confounds come in their own units (radians, mm, volts, arbitrary scanner units): an exact
        # power-of-two factor per column; the normalised design column does not depend on it
        units = [draw(st.sampled_from([0, 0, -40, -30, 20])) for _ in range(n_cf)]
        cols = [[v * 2.0 ** e for v in col] for col, e in zip(cols, units)]
        # a column with n/a entries: in the first volume (derivatives), in the last (lead
        # regressors) or somewhere in between (censored volumes) -- such columns are left out
        conf = dict(names=CONF_NAMES[:n_cf], cols=cols, units=units,
                    nan_at=draw(st.one_of(st.integers(0, n_cf), st.none())),
                    nan_rows=draw(st.sampled_from([[0], [0], [-1], [3], [0, 1], [5, -1]])))
    case = dict(tr=tr, n_vols=n_vols, names=names, rows=rows, alt_onsets=alt,
                perm=draw(gen.permutation(len(rows))), target=draw(st.integers(0, n_cond - 1)),
                confounds=conf)
    # row labels of the confound table (drawn last): the default 0..n-1 of a freshly read table, or
    # what an ordinary earlier step leaves behind - dummy volumes sliced off (labels k..k+n-1),
    # 1-based volume numbers, acquisition times. Rows are volumes by position in every case.
    case['conf_index'] = draw(st.sampled_from(['default', 'default', 'default', 'offset', 'offset',
                                               'volume-number', 'time']))
    case['conf_offset'] = draw(st.integers(1, 12))
    return case


def _events_frame(rows, names):
    return pandas.DataFrame(dict(onset=[float(r[0]) for r in rows],
                                 duration=[float(r[1]) for r in rows],
                                 trial_type=[names[r[2]] for r in rows]))


def _confound_frame(conf, n_vols):
    """returns (DataFrame, list of kept column arrays)"""
    if conf is None:
        return None, []
    cols, kept = {}, []
    k = 0
    for i in range(len(conf['names']) + 1):
        if conf['nan_at'] == i:
            # fmriprep derivative columns: n/a in the first volume
            col = [float(v) for v in range(n_vols)]
            for r in conf.get('nan_rows') or [0]:
                col[r] = float('nan')
            cols['deriv_nan'] = col
        if i < len(conf['names']):
            cols[conf['names'][i]] = [float(v) for v in conf['cols'][i]]
            kept.append(np.array(conf['cols'][i], dtype=float))
            k += 1
    if not cols:
        return pandas.DataFrame(index=range(n_vols)), []
    return pandas.DataFrame(cols), kept


def _reindexed(conf, case):
    """the same confound table (same rows in the same order) under other row labels"""
    kind, n = case.get('conf_index', 'default'), conf.shape[0]
    if kind == 'offset':        # what table.iloc[k:] of a longer table carries
        k = int(case['conf_offset'])
        long = pandas.concat([conf.iloc[:k], conf], ignore_index=True)
        return long.iloc[k:]
    out = conf.copy()
    if kind == 'volume-number':
        out.index = pandas.Index(np.arange(1, n + 1), name='volume')
    elif kind == 'time':
        out.index = pandas.Index(case['tr'] * np.arange(n), name='time')
    return out


def check_design(case):
    tr, n_vols, names, rows = case['tr'], case['n_vols'], case['names'], case['rows']
    events = _events_frame(rows, names)
    conf, kept = _confound_frame(case['confounds'], n_vols)
    if conf is not None and case.get('conf_index', 'default') != 'default':
        # rows of the confound table are the run's volumes by position: the row labels the table
        # happens to carry do not enter the design matrix
        conf_i = _reindexed(conf, case)
        if conf_i.shape != conf.shape or not np.array_equal(conf_i.values, conf.values,
                                                            equal_nan=True):
            raise Reject('re-labelled confound table differs', 'harness:confound-index')
        d0 = np.asarray(lib(make_design_matrix, events.copy(), tr, n_vols, conf,
                            on_error='violation', sig='design:raises')[0], dtype=float)
        o1 = lib(make_design_matrix, events.copy(), tr, n_vols, conf_i, on_error='violation',
                 sig='design:confound-index:raises')
        d1 = np.asarray(o1[0], dtype=float)
        require(d1.shape == d0.shape and np.array_equal(d1, d0, equal_nan=True),
                'confound table with row labels %s (%s, same %d rows in the same order): design '
                'matrix shape %s, with the default labels %s%s' % (
                    list(conf_i.index[:3]), case['conf_index'], n_vols, d1.shape, d0.shape,
                    '' if d1.shape != d0.shape else ', max diff %.3g, %d NaN' % (
                        core.maxdiff(np.nan_to_num(d1), np.nan_to_num(d0)), int(np.isnan(d1).sum()))),
                'design:confound-index')
    ev_before = events.copy()
    out = lib(make_design_matrix, events, tr, n_vols, conf, on_error='violation',
              sig='design:raises')
    require(isinstance(out, tuple) and len(out) == 3, 'return value is not a 3-tuple',
            'design:format')
    dm, flags, dof = out
    dm = np.asarray(dm, dtype=float)
    order = ref.first_appearance([names[r[2]] for r in rows])
    n_cond, n_cf = len(order), len(kept)
    require(dm.shape == (n_vols, n_cond + n_cf), 'design matrix shape %s, expected %s '
            '(%d conditions + %d confounds without NaN)' % (dm.shape, (n_vols, n_cond + n_cf),
                                                            n_cond, n_cf), 'design:shape')
    flags = np.asarray(flags)
    require(flags.dtype == bool and flags.tolist() == [True] * n_cond + [False] * n_cf,
            'predictor flags %s, expected %d x True then %d x False' % (flags.tolist(), n_cond, n_cf),
            'design:flags')
    require(int(dof) == n_vols - (n_cond + n_cf), 'dof %r, expected %d volumes - %d columns' % (
        dof, n_vols, n_cond + n_cf), 'design:dof')
    require(not np.isnan(dm).any(), 'NaN in the design matrix', 'design:nan')
    require(core.close(dm.mean(axis=0), np.zeros(dm.shape[1]), rtol=0, atol=1e-12),
            'column means %s' % dm.mean(axis=0), 'design:centred')
    require(core.close(dm.max(axis=0) - dm.min(axis=0), np.ones(dm.shape[1]), rtol=0, atol=1e-12),
            'column ranges %s' % (dm.max(axis=0) - dm.min(axis=0)), 'design:range')
    require(events.equals(ev_before), 'events table modified', 'design:input-mutated')
    # confound columns: the table columns without NaN, in table order, normalised
    for j, col in enumerate(kept):
        want = (col - col.mean()) / (col.max() - col.min())
        require_close(dm[:, n_cond + j], want, 'confound column %d' % j, 'design:confound-values',
                      rtol=1e-12, atol=1e-12)
    # predictor column c belongs to condition order[c]: flat until that condition's first onset,
    # and it moves afterwards
    times = tr * np.arange(n_vols)
    for c, name in enumerate(order):
        ons = [r[0] for r in rows if names[r[2]] == name]
        pre = dm[times < min(ons), c]
        if pre.size:
            require(float(pre.max() - pre.min()) <= 1e-12, 'column %d (%s) changes before the '
                    'first onset %.2f s of its condition' % (c, name, min(ons)),
                    'design:column-condition')
        peak_t = times[int(np.argmax(dm[:, c]))]
        require(min(ons) < peak_t, 'column %d (%s) peaks at %.2f s, before its first onset %.2f s'
                % (c, name, peak_t, min(ons)), 'design:column-condition')

    def by_name(rows_):
        ev = _events_frame(rows_, names)
        d, _, _ = make_design_matrix(ev, tr, n_vols, conf)
        ordr = ref.first_appearance([names[r[2]] for r in rows_])
        return {nm: np.asarray(d)[:, i] for i, nm in enumerate(ordr)}, np.asarray(d)

    base = {nm: dm[:, i] for i, nm in enumerate(order)}
    # row order of the table is irrelevant (columns follow first appearance)
    rows_p = [rows[i] for i in case['perm']]
    cols_p, dm_p = by_name(rows_p)
    for nm in order:
        require_close(cols_p[nm], base[nm], 'column of %s after permuting table rows' % nm,
                      'design:row-order', rtol=1e-9, atol=1e-9)
    require_close(dm_p[:, n_cond:], dm[:, n_cond:], 'confound columns after permuting table rows',
                  'design:row-order', rtol=0, atol=0)
    # column of the target condition does not depend on the other conditions' onsets
    tname = names[case['target']]
    if n_cond >= 2:
        rows_a = [[r[0] if names[r[2]] == tname else a, r[1], r[2]]
                  for r, a in zip(rows, case['alt_onsets'])]
        cols_a, _ = by_name(rows_a)
        require_close(cols_a[tname], base[tname], 'column of %s after moving the onsets of the '
                      'other conditions' % tname, 'design:other-conditions', rtol=1e-12, atol=1e-12)


def classify_design(case):
    cf = case['confounds']
    n_cond = len(case['names'])
    labels = ['n_cond=%d' % n_cond, 'tr=%g' % case['tr'],
              'confounds:none' if cf is None else 'confounds:%d' % len(cf['names']),
              'nan-column' if cf is not None and cf['nan_at'] is not None else 'no-nan-column',
              'table-sorted' if [r[0] for r in case['rows']] == sorted(r[0] for r in case['rows'])
              else 'table-unsorted',
              'conf-index:' + (case.get('conf_index', 'default') if cf is not None else 'n/a')]
    return labels, n_cond >= 2 or (cf is not None and len(cf['names']) > 0)


# ===========================================================================
# 5. SPM filter

class NitoolsStub:
    """the injectable stand-in SpmGlm accepts for nitools"""

    def __init__(self, data):
        self.data = data
        self.calls = []

    def get_mask_coords(self, mask):
        self.calls.append(('coords', mask))
        return 'COORDS'

    def sample_images(self, files, coords, use_dataobj=True):
        self.calls.append(('sample', list(files), coords))
        return self.data.copy()


def dct_basis(n, k):
    """SPM's high-pass set: DCT-II regressors 1..k (orthonormal, no constant)"""
    t = np.arange(n)
    cols = [math.sqrt(2.0 / n) * np.cos(math.pi * (2 * t + 1) * j / (2.0 * n))
            for j in range(1, k + 1)]
    return np.array(cols).T.reshape(n, k)


@st.composite
def spm_case(draw):
    n_runs = draw(st.integers(1, 4))
    runs = draw(st.lists(st.integers(3, 12), min_size=n_runs, max_size=n_runs))
    if n_runs >= 2 and draw(st.integers(0, 2)) == 0:
        # sessions of equal length (the usual design) - their filter bases may still differ
        runs = [runs[0]] * n_runs
    basis = draw(st.sampled_from(['dct', 'qr']))
    ks = [draw(st.integers(1 if draw(st.integers(0, 9)) else 0, min(4, n - 1))) for n in runs]
    raw = None
    if basis == 'qr':
        raw = [draw(gen.matrix(n, k, kind='grid', kmax=16)) if k else [[] for _ in range(n)]
               for n, k in zip(runs, ks)]
    p = draw(st.integers(1, 5))
    nscans_dtype = draw(st.sampled_from(['int64', 'int64', 'uint8', 'uint16', 'int32']))
    if draw(st.integers(0, 5)) == 0:
        # realistic session lengths (a real SPM.mat read by loadmat delivers the scan counts in
        # the narrowest integer type that holds them, e.g. uint8 for 3 x 120 scans); the data are
        # produced from a small generated pattern so that the case stays compact
        n_runs = draw(st.integers(2, 3))
        runs = [draw(st.integers(90, 130)) for _ in range(n_runs)]
        basis, raw = 'dct', None
        ks = [draw(st.integers(1, 3)) for _ in runs]
        pat = [draw(st.integers(1, 40)), draw(st.integers(1, 40)), draw(st.integers(2, 23))]
        t = sum(runs)
        data = {'pattern': pat, 'shape': [t, p]}
    else:
        t = sum(runs)
        data = draw(gen.matrix(t, p))
    q = draw(st.integers(1, 3))
    if isinstance(data, dict):      # long sessions: filter only (keeps the case small)
        return dict(runs=runs, ks=ks, basis=basis, raw=raw, data=data, nscans_dtype=nscans_dtype,
                    design=[], weight='identity', wdiag=[], residuals=False)
    return dict(runs=runs, ks=ks, basis=basis, raw=raw, data=data, nscans_dtype=nscans_dtype,
                design=draw(gen.matrix(t, q, kind='grid', kmax=8)),
                weight=draw(st.sampled_from(['identity', 'diag'])),
                wdiag=draw(st.lists(st.integers(1, 8).map(lambda k: k / 4.0), min_size=t,
                                    max_size=t)),
                residuals=draw(st.booleans()))


def _bases(case):
    out = []
    for i, (n, k) in enumerate(zip(case['runs'], case['ks'])):
        if k == 0:
            out.append(np.zeros((n, 0)))
        elif case['basis'] == 'dct':
            out.append(dct_basis(n, k))
        else:
            a = np.array(case['raw'][i], dtype=float).reshape(n, k)
            qm, _ = np.linalg.qr(a)
            out.append(qm)
    return out


def ref_filter(data, runs, bases):
    """per run: Y - X0 (X0' Y), explicit loops over runs and voxels"""
    out = np.array(data, dtype=float)
    start = 0
    for n, x0 in zip(runs, bases):
        for v in range(out.shape[1]):
            y = np.array(data[start:start + n, v], dtype=float)
            comp = np.zeros(n)
            for j in range(x0.shape[1]):
                comp = comp + x0[:, j] * float(np.dot(x0[:, j], y))
            out[start:start + n, v] = y - comp
        start += n
    return out


def spm_data(case):
    d = case['data']
    if isinstance(d, dict):
        a, b, m = d['pattern']
        t, p = d['shape']
        return np.array([[((i * a + j * b + (i * i) % 7) % m) / 4.0 - 1.0 for j in range(p)]
                         for i in range(t)], dtype=float)
    return np.array(d, dtype=float)


def check_spm(case):
    runs = [int(n) for n in case['runs']]
    bases = _bases(case)
    data = spm_data(case)
    stub = NitoolsStub(data)
    spm = lib(SpmGlm, '/proj/glm_firstlevel', stub, on_error='violation', sig='spm:init:raises')
    spm.nscans = np.array(runs, dtype=case.get('nscans_dtype', 'int64'))
    spm.nruns = len(runs)
    spm.filter_matrices = [b.copy() for b in bases]
    before = data.copy()
    out = lib(spm.spm_filter, data, on_error='violation', sig='spm:filter:raises')
    out = np.asarray(out, dtype=float)
    require(np.array_equal(data, before), 'spm_filter modified its input', 'spm:input-mutated')
    require(out.shape == data.shape, 'output shape %s' % (out.shape,), 'spm:shape')
    want = ref_filter(data, runs, bases)
    scale = max(float(np.max(np.abs(data))), 1.0)
    filt_active = any(b.shape[1] > 0 and np.max(np.abs(b.T @ data[s:s + n])) > 1e-9 * scale
                      for b, n, s in zip(bases, runs, np.cumsum([0] + runs[:-1])))
    if not core.close(out, want, rtol=1e-9, atol=1e-9 * scale):
        unf = np.array_equal(out, data)
        raise Violation('runs %s, %s regressors per run: filtered data differ from Y - X0 (X0\' Y) '
                        '(max diff %.3g)%s' % (runs, [b.shape[1] for b in bases],
                                               core.maxdiff(out, want),
                                               ' - the output equals the unfiltered input'
                                               if unf and filt_active else ''),
                        'spm:filter:unfiltered' if unf and filt_active else 'spm:filter:value')
    start = 0
    for i, (n, b) in enumerate(zip(runs, bases)):
        if b.shape[1]:
            proj = b.T @ out[start:start + n]
            require(float(np.max(np.abs(proj))) <= 1e-9 * scale * n, 'run %d: filtered data keep '
                    'a component %.3g in the filter regressors' % (i, np.max(np.abs(proj))),
                    'spm:filter:residual-component')
        start += n
    if case['residuals']:
        t = data.shape[0]
        w = np.eye(t) if case['weight'] == 'identity' else np.diag(np.array(case['wdiag']))
        x = np.array(case['design'], dtype=float)
        q = x.shape[1]
        spm.weight = w
        spm.design_matrix = x
        spm.pinvX = np.linalg.pinv(x)
        spm.rawdata_files = ['/proj/func/run%d.nii,1  ' % i for i in range(t)]
        spm.reg_of_interest = np.array([q, 1]) if q > 1 else np.array([1])
        spm.beta_names = np.array(['c%d' % j for j in range(q)])
        spm.run_number = np.arange(q) + 1
        res = lib(spm.get_residuals, 'MASK', on_error='violation', sig='spm:residuals:raises')
        require(isinstance(res, tuple) and len(res) == 3, 'get_residuals format',
                'spm:residuals:format')
        resid, beta, info = res
        f = ref_filter(w @ data, runs, bases)
        b_all = spm.pinvX @ f
        idx = spm.reg_of_interest - 1
        s2 = max(float(np.max(np.abs(f))), 1.0)
        require_close(resid, f - x @ b_all, 'get_residuals: residuals vs (filtered, weighted data) '
                      '- X pinvX (...)', 'spm:residuals:value', rtol=1e-8, atol=1e-8 * s2)
        require_close(beta, b_all[idx], 'get_residuals: betas of the regressors of interest',
                      'spm:residuals:beta', rtol=1e-8, atol=1e-8 * s2)
        require(list(info['reg_name']) == ['c%d' % j for j in idx] and
                [int(v) for v in info['run_number']] == [int(j) + 1 for j in idx],
                'get_residuals info %r' % (info,), 'spm:residuals:info')
    # relocate_file: SPM path of another machine/OS -> current project directory
    for src in ('/Users/j doe/old proj/func/sub01_run01.nii,3  ',
                'C:\\data\\old\\func\\sub01_run01.nii,3  '):
        got = spm.relocate_file(src)
        require(got == '/proj/func/sub01_run01.nii,3  ', 'relocate_file(%r) = %r' % (src, got),
                'spm:relocate')


def classify_spm(case):
    runs, ks = case['runs'], case['ks']
    labels = ['n_runs=%d' % len(runs), 'basis:' + case['basis'],
              'equal-runs' if len(set(runs)) == 1 else 'unequal-runs',
              'some-empty-basis' if 0 in ks else 'all-bases>0',
              'nscans:' + case.get('nscans_dtype', 'int64'), 'long-runs' if sum(runs) > 255 else 'short-runs',
              'residuals' if case['residuals'] else 'filter-only']
    return labels, len(runs) >= 2 and (len(set(runs)) > 1 or len(set(ks)) > 1 or case['basis'] == 'qr')


SUBCHECKS = [
    SubCheck('bids', bids_case(), check_bids, classify_bids, quick=800, thorough=8000,
             doc='parse == generated entities, parse->format identity, _replace, meta / events / '
                 'table / mri sibling look-ups change exactly the requested entities (paths, '
                 're-parsed attributes, real files read back)'),
    Enumeration('bids_presence', bids_enum, check_bids, classify_bids,
                doc='all 64 presence/absence combinations of ses, task, run, space, desc, '
                    'derivative x 3 value sets'),
    SubCheck('meadows', meadows_case(), check_meadows, classify_meadows, quick=600, thorough=8000,
             doc='three file shapes: values by label pair, labels (sorted / file order), '
                 'participant / task / task_index / experiment descriptors, file-name segments'),
    SubCheck('mne', mne_case(), check_mne, classify_mne, quick=300, thorough=3000,
             doc='EpochsArray -> TemporalDataset: data, event codes, channel names, times; '
                 'BIDS file-name descriptors; FIF round trip'),
    SubCheck('mne_lazy', mne_lazy_case(), check_mne_lazy, classify_mne_lazy, quick=150, thorough=2000,
             doc='Epochs cut lazily from a RawArray (preload=False) with a rejection criterion and '
                 'events running off the recording: data and event codes of exactly the kept epochs'),
    SubCheck('design', design_case(), check_design, classify_design, quick=300, thorough=3000,
             doc='shape, flags, centred, range 1, dof, confound columns, column<->condition, '
                 'row-order and other-condition independence'),
    SubCheck('spm', spm_case(), check_spm, classify_spm, quick=600, thorough=8000,
             doc='spm_filter == Y - X0 (X0\' Y) per run, X0\'out = 0, input untouched; '
                 'get_residuals on top of it; relocate_file'),
]
