"""C18 - simulation <-> estimation: make_dataset / make_design round trip with calc_rdm.

All library randomness (numpy.random.uniform inside make_dataset / make_signal) is
made a function of the case: np.random.seed(case['seed']) before every call, and
the draws are *recorded* through a wrapper around numpy.random.uniform where the
noise term has to be compared with the draws it was built from.
"""
import math
from unittest import mock

import numpy as np
from hypothesis import strategies as st
from scipy.stats import norm

from vf import core, gen, ref
from vf.core import SubCheck, Enumeration, Violation, Reject, lib, require, require_close

from rsatoolbox.data.dataset import Dataset
from rsatoolbox.model import ModelFixed, ModelWeighted
from rsatoolbox.rdm.calc import calc_rdm
from rsatoolbox.simulation import sim

RULE = ("Hypothesis-generated model RDMs = squared Euclidean distances of generated point clouds "
        "(2-7 conditions, embedding dimension 1..n+1, dyadic-grid / small-integer / two-decimal "
        "coordinates, variants with coincident conditions, with the first condition at the centroid, "
        "scales 1e-2..1e2; fixed model or non-negative weighted sum of two such RDMs), channels = "
        "conditions + {0,1,2,5,20}, design as make_design vector, relabelled row-permuted vector with "
        "unequal repetitions, or explicit indicator matrix, 1-4 partitions, 1-3 simulations, signal "
        "strengths 0.01..10, noise variances, SPD noise channel covariance, same-/fresh-signal "
        "option, RNG seed drawn by Hypothesis (np.random.seed). Oracle: signal x model RDM looked up "
        "by condition label (rtol 1e-5), descriptor contents, bit-identity / difference of "
        "simulations, noise term recovered as data(v)-data(0) at equal seed and compared with the "
        "recorded uniform draws. Non-trivial: >=3 conditions and >=2 observations per condition on "
        "average (>=2 partitions); distinct by SHA1 of the case.")
ASSUMPTIONS = [
    "randomness of the library is numpy's global RNG only; np.random.seed(seed) makes a call a "
    "deterministic function of the case and identical seeds give identical draw sequences whatever "
    "the noise variance or signal strength (the number of draws does not depend on them)",
    "exact-signal tolerance rtol 1e-5 (library floors LDL pivots at 1e-15, measured <1e-6)",
    "'fresh signal differs' is asserted only for >=3 channels (with 2 channels the exact signal of a "
    "rank-1 model has just two possible values)",
    "the documented meaning of noise / noise_cov_channel ('noise variance', 'covariance matrix of "
    "noise') is asserted on the recovered noise term: eps = sqrt(v) * Phi^-1(U) @ M with M'M = cov",
    "the scale of noise_cov_channel is part of the requested covariance: at equal seed the noise "
    "term for 4*cov is twice the one for cov (metamorphic; factor/orientation not asserted)",
    "calc_rdm is applied to the simulated dataset itself for a condition vector with scalar/None "
    "theta; for an explicit design matrix or a parameter vector of length != 1 (which calc_rdm "
    "refuses as rdm descriptor) it is applied to the same measurements with the condition labels "
    "derived from the design",
    "noise_cov_trial and signal_cov_channel are outside the property's quantifier and not generated",
]

SIGNALS = [0.01, 0.25, 1.0, 2.0, 10.0, 1e-20]      # (1e-20: data in very small units; the relation is linear in the signal)
NOISES = [0.01, 0.25, 1.0, 4.0, 100.0]


# ---------------------------------------------------------------------------
# building blocks

def sq_dists(points, scale):
    n = len(points)
    out = []
    for i in range(n):
        for j in range(i + 1, n):
            out.append(scale * sum((a - b) ** 2 for a, b in zip(points[i], points[j])))
    return out


def model_rdm(case):
    """(library model, theta, predicted RDM vector from explicit loops)"""
    out = _model_rdm(case)
    if float(np.max(np.abs(out[2]))) < 1e-10:
        # all points coincide up to rounding (e.g. a centroid of equal points): a vanishing model
        # RDM is outside the domain (the library works with absolute 1e-15 thresholds, DESIGN 1.4)
        raise Reject('model RDM vanishes up to rounding', 'degenerate:zero-model-rdm')
    return out


def _model_rdm(case):
    m = case['model']
    d0 = sq_dists(m['points'], m['scale'])
    if m['kind'] == 'fixed':
        if (len(m['points']) + case['n_channel']) % 2 == 0:
            # the model RDM handed over as an RDMs object whose measure label says what it holds in
            # the user's words (movie frames are labelled 'euclidean' although squared): the
            # prediction is the numbers, whatever the label
            from rsatoolbox.rdm import RDMs
            label = ['euclidean', 'Euclidean', 'squared euclidean', None][len(m['points']) % 4]
            obj = RDMs(np.array([d0], dtype=float), dissimilarity_measure=label)
            return ModelFixed('sim_model', obj), None, np.array(d0)
        vec = np.array(d0, dtype=float)
        if vec.size and np.all(vec == np.round(vec)) and vec.max() < 60000:
            # integral model RDMs (Hamming / count / category distances) as they are usually held:
            # unsigned or signed integer vectors, by the parity of their sum
            tot = int(vec.sum())
            vec = vec.astype(np.uint16 if tot % 3 == 0 else np.uint8 if tot % 3 == 1 and vec.max() < 256
                             else np.int64)
        return ModelFixed('sim_model', vec), None, np.array(d0)
    d1 = sq_dists(m['points2'], m['scale'])
    if m['kind'] == 'fixed_multi':
        from rsatoolbox.rdm import RDMs
        mod = ModelFixed('sim_mean_of_two', RDMs(np.array([d0, d1], dtype=float)))
        return mod, None, np.array([(a + b) / 2.0 for a, b in zip(d0, d1)])
    theta = np.array(m['theta'], dtype=float)
    mod = ModelWeighted('sim_weighted', np.array([d0, d1]))
    pred = np.array([theta[0] * a + theta[1] * b for a, b in zip(d0, d1)])
    return mod, theta, pred


def design_of(case):
    """(cond_vec argument, condition index per observation)"""
    d = case['design']
    n_cond = len(case['model']['points'])
    if d['form'] == 'make_design':
        cv, pv = sim.make_design(n_cond, d['n_part'])
        return np.asarray(cv), [int(c) for c in cv]
    idx = list(d['rows'])
    if d['form'] == 'vector':
        labels = d['labels']            # increasing numbers: condition k <-> k-th smallest label
        return np.array([labels[k] for k in idx], dtype=float), idx
    z = np.zeros((len(idx), n_cond))
    for r, k in enumerate(idx):
        z[r, k] = 1.0
    if d['form'] == 'mixture':
        # encoding-style design matrix: besides one-condition rows, rows that mix two conditions
        # with weights summing to one (compound trials, amplitude-modulated regressors)
        extra = np.zeros((len(d['mix']), n_cond))
        for r, (a, b, w) in enumerate(d['mix']):
            extra[r, a % n_cond] += w
            extra[r, (a + 1 + b % (n_cond - 1)) % n_cond] += 1.0 - w
        z = np.vstack([z, extra])[list(d['order'])]
        return z, None
    return z, idx


def simulate(case, mod, theta, cond_vec, record=None, **over):
    kw = dict(n_channel=case['n_channel'], n_sim=case['n_sim'], signal=case['signal'],
              noise=case.get('noise', 0.0), use_exact_signal=case['exact'],
              use_same_signal=case['same_signal'])
    if case.get('noise_cov') is not None:
        kw['noise_cov_channel'] = np.array(case['noise_cov'], dtype=float)
    kw.update(over)
    np.random.seed(case['seed'])
    if record is None:
        return lib(sim.make_dataset, mod, theta, cond_vec.copy(), on_error='violation',
                   sig='raises:make_dataset', **kw)
    orig = np.random.uniform

    def rec(*a, **k):
        out = orig(*a, **k)
        record.append(np.array(out))
        return out
    with mock.patch.object(np.random, 'uniform', rec):
        return lib(sim.make_dataset, mod, theta, cond_vec.copy(), on_error='violation',
                   sig='raises:make_dataset', **kw)


def rdm_by_condition(ds, cond_idx, direct):
    """squared-Euclidean RDM by condition through calc_rdm -> dict (a,b)->value, a<b condition index"""
    if direct:
        r = lib(calc_rdm, ds, method='euclidean', descriptor='cond_vec', on_error='violation',
                sig='raises:calc_rdm')
        labs = [float(v) for v in r.pattern_descriptors['cond_vec']]
        order = sorted(set(float(v) for v in np.asarray(ds.obs_descriptors['cond_vec'])))
        pos = [order.index(v) for v in labs]      # k-th smallest label <-> model condition k
    else:
        d2 = Dataset(np.array(ds.measurements), obs_descriptors={'cond': list(cond_idx)})
        r = lib(calc_rdm, d2, method='euclidean', descriptor='cond', on_error='violation',
                sig='raises:calc_rdm')
        pos = [int(v) for v in r.pattern_descriptors['cond']]
    vec = np.asarray(r.dissimilarities, dtype=float)[0]
    out = {}
    for k, (i, j) in enumerate(ref.pairs(len(pos))):
        a, b = pos[i], pos[j]
        out[(min(a, b), max(a, b))] = float(vec[k])
    return out


def check_descriptors(ds, case, mod, theta, cond_vec, noise):
    od = ds.obs_descriptors
    require('cond_vec' in od, 'dataset has no cond_vec obs descriptor: %r' % list(od), 'descriptor:cond_vec')
    got = np.asarray(od['cond_vec'], dtype=float)
    require(got.shape == cond_vec.shape and np.array_equal(got, cond_vec),
            'cond_vec descriptor %s differs from the design passed in %s' % (
                core._short(got), core._short(cond_vec)), 'descriptor:cond_vec')
    de = ds.descriptors
    for key in ('signal', 'noise', 'model', 'theta'):
        require(key in de, 'dataset descriptor %r missing (has %r)' % (key, list(de)),
                'descriptor:missing')
    require(de['signal'] == case['signal'], 'descriptor signal=%r, requested %r' % (
        de['signal'], case['signal']), 'descriptor:signal')
    require(de['noise'] == noise, 'descriptor noise=%r, requested %r' % (de['noise'], noise),
            'descriptor:noise')
    require(de['model'] == mod.name, 'descriptor model=%r, model name %r' % (de['model'], mod.name),
            'descriptor:model')
    if theta is None:
        require(de['theta'] is None, 'descriptor theta=%r, requested None' % (de['theta'],),
                'descriptor:theta')
    else:
        require(de['theta'] is not None and np.array_equal(np.asarray(de['theta'], dtype=float), theta),
                'descriptor theta=%r, requested %r' % (de['theta'], theta), 'descriptor:theta')


# ---------------------------------------------------------------------------
# sub-check 1: exact signal, zero noise -> RDM == signal * model RDM

def check_roundtrip(case):
    mod, theta, pred = model_rdm(case)
    n_cond = len(case['model']['points'])
    cond_vec, cond_idx = design_of(case)
    dss = simulate(case, mod, theta, cond_vec, noise=0.0)
    require(isinstance(dss, list) and len(dss) == case['n_sim'],
            'make_dataset returned %d datasets for n_sim=%d' % (len(dss), case['n_sim']), 'n_sim')
    if cond_idx is None:
        return check_mixture_design(case, dss, mod, theta, pred, cond_vec)
    direct = cond_vec.ndim == 1 and (theta is None or len(theta) == 1)
    expect = {pr: case['signal'] * float(pred[k]) for k, pr in enumerate(ref.pairs(n_cond))}
    dmax = max(expect.values())
    for s, ds in enumerate(dss):
        meas = np.asarray(ds.measurements)
        require(meas.shape == (len(cond_idx), case['n_channel']),
                'simulation %d: measurements %s, expected %s' % (s, meas.shape,
                                                                 (len(cond_idx), case['n_channel'])),
                'shape')
        require(np.isfinite(meas).all(), 'simulation %d: non-finite measurements' % s, 'exact:rdm')
        check_descriptors(ds, case, mod, theta, cond_vec, 0.0)
        got = rdm_by_condition(ds, cond_idx, direct)
        require(sorted(got) == sorted(expect), 'RDM pairs %r' % sorted(got), 'exact:conditions')
        for pr, e in expect.items():
            if not core.close(got[pr], e, rtol=1e-5, atol=1e-8 * dmax):
                raise Violation('simulation %d: squared-Euclidean RDM of conditions %r = %.10g, signal x '
                                'model RDM = %.10g (signal %g, %d conditions, %d channels)' % (
                                    s, pr, got[pr], e, case['signal'], n_cond, case['n_channel']),
                                'exact:rdm')
    if len(dss) >= 2:
        first = np.asarray(dss[0].measurements)
        for s in range(1, len(dss)):
            other = np.asarray(dss[s].measurements)
            if case['same_signal']:
                require(np.array_equal(first, other),
                        'use_same_signal: simulation %d differs from simulation 0 at zero noise '
                        '(max diff %.3g)' % (s, core.maxdiff(first, other)), 'same-signal')
            elif case['n_channel'] >= 3:
                require(core.maxdiff(first, other) > 1e-9 * math.sqrt(dmax),
                        'default (fresh signal): simulation %d equals simulation 0' % s, 'fresh-signal')
    check_siblings_after_sort(case, dss, mod, theta, cond_vec)


def check_mixture_design(case, dss, mod, theta, pred, z):
    """rows z_r with equal row sums: ||y_r - y_s||^2 / P = signal * (-1/2) (z_r - z_s)' D (z_r - z_s),
    D the model's predicted RDM in square form (differences of such rows sum to zero, so only D
    enters)"""
    n_cond = z.shape[1]
    dsq = ref.to_square(np.asarray(pred, dtype=float), n_cond)
    dmax = case['signal'] * float(np.max(pred))
    for s, ds in enumerate(dss):
        meas = np.asarray(ds.measurements, dtype=float)
        require(meas.shape == (z.shape[0], case['n_channel']), 'simulation %d: measurements %s, '
                'expected %s' % (s, meas.shape, (z.shape[0], case['n_channel'])), 'shape')
        check_descriptors(ds, case, mod, theta, z, 0.0)
        for r in range(z.shape[0]):
            for q in range(r + 1, z.shape[0]):
                dz = z[r] - z[q]
                want = case['signal'] * (-0.5) * float(dz @ dsq @ dz)
                got = float(np.sum((meas[r] - meas[q]) ** 2)) / case['n_channel']
                if not core.close(got, want, rtol=1e-5, atol=1e-8 * dmax):
                    raise Violation('simulation %d, explicit design matrix with mixed rows: squared '
                                    'distance of observations %d %s and %d %s = %.10g, the design and '
                                    'the model RDM give %.10g' % (s, r, core._short(z[r]), q,
                                                                 core._short(z[q]), got, want),
                                    'exact:design-matrix-rows')


def check_siblings_after_sort(case, dss, mod, theta, cond_vec):
    """each simulated dataset carries the condition vector: sorting one of them in place (what one
    does before averaging by condition) leaves the others as they were simulated"""
    if len(dss) < 2 or cond_vec.ndim != 1:
        return
    before = [np.array(d.measurements, copy=True) for d in dss]
    lib(dss[0].sort_by, 'cond_vec', on_error='reject')
    for s_ in range(1, len(dss)):
        got = np.asarray(dss[s_].obs_descriptors['cond_vec'], dtype=float)
        require(got.shape == cond_vec.shape and np.array_equal(got, cond_vec) and
                np.array_equal(np.asarray(dss[s_].measurements), before[s_]),
                'after sorting simulation 0 in place by its condition vector, simulation %d carries '
                'cond_vec %s (simulated with %s)' % (s_, core._short(got), core._short(cond_vec)),
                'descriptor:cond_vec:shared-between-simulations')


def classify_sim(case):
    m = case['model']
    n_cond = len(m['points'])
    d = case['design']
    n_obs = n_cond * d['n_part'] if d['form'] == 'make_design' else len(d['rows'])
    labels = ['n_cond:%d' % n_cond, 'model:' + m['kind'], 'cloud:' + m['variant'],
              'scale:%g' % m['scale'], 'design:' + d['form'],
              'channels:' + ('=cond' if case['n_channel'] == n_cond else '>cond'
                             if case['n_channel'] > n_cond else '<cond'),
              'n_sim:%d' % case['n_sim'], 'same_signal:%s' % case['same_signal'],
              'exact:%s' % case['exact'], 'noise_cov:' + ('yes' if case.get('noise_cov') else 'no')]
    if d['form'] != 'make_design':
        counts = [d['rows'].count(k) for k in range(n_cond)]
        labels.append('reps:' + ('equal' if len(set(counts)) == 1 else 'unequal'))
    nt = n_cond >= 3 and n_obs >= 2 * n_cond
    return labels, bool(nt)


# ---------------------------------------------------------------------------
# sub-check 2: make_design (exhaustive grid)

def enumerate_designs(tier, seed):
    top = (12, 8) if tier == 'quick' else (40, 25)
    for n_cond in range(1, top[0] + 1):
        for n_part in range(1, top[1] + 1):
            yield dict(n_cond=n_cond, n_part=n_part)


def check_design(case):
    _check_design_once(case)
    # the returned vectors are the caller's (relabelled, shuffled, trimmed in analysis scripts): a
    # design requested again afterwards must be a proper design again
    n_cond, n_part = case['n_cond'], case['n_part']
    out = lib(sim.make_design, n_cond, n_part, on_error='violation', sig='raises:make_design')
    for a in out:
        if isinstance(a, np.ndarray) and a.size:
            try:
                a[...] = -7
            except ValueError:
                pass        # a read-only result cannot be spoiled
    try:
        _check_design_once(case)
    except Violation as v:
        raise Violation('after the vectors of an earlier make_design(%d,%d) result were overwritten '
                        'by the caller: %s' % (n_cond, n_part, v), 'design:result-shared-between-calls')


def _check_design_once(case):
    n_cond, n_part = case['n_cond'], case['n_part']
    out = lib(sim.make_design, n_cond, n_part, on_error='violation', sig='raises:make_design')
    require(isinstance(out, tuple) and len(out) == 2, 'make_design returns %r' % (type(out),), 'design:shape')
    cv, pv = np.asarray(out[0]), np.asarray(out[1])
    require(cv.shape == (n_cond * n_part,) and pv.shape == (n_cond * n_part,),
            'make_design(%d,%d): shapes %s %s' % (n_cond, n_part, cv.shape, pv.shape), 'design:shape')
    parts = sorted(set(float(p) for p in pv))
    require(len(parts) == n_part, 'make_design(%d,%d): %d distinct partitions' % (n_cond, n_part, len(parts)),
            'design:partitions')
    conds = sorted(set(float(c) for c in cv))
    require(len(conds) == n_cond, 'make_design(%d,%d): %d distinct conditions' % (n_cond, n_part, len(conds)),
            'design:conditions')
    for p in parts:
        inside = sorted(float(c) for c, q in zip(cv, pv) if float(q) == p)
        require(inside == conds, 'make_design(%d,%d): partition %r lists conditions %r' % (
            n_cond, n_part, p, inside), 'design:once-per-partition')


def classify_design(case):
    return ['design-grid'], case['n_cond'] >= 3 and case['n_part'] >= 2


# ---------------------------------------------------------------------------
# sub-check 3: noise term additive, scales with sqrt(variance); equals the recorded draws

def _candidate_draws(record, n_obs, n_channel):
    """recorded numpy.random.uniform results that have the shape of a noise matrix (the order
    and number of the library's calls is deliberately not assumed)"""
    return [r for r in record if r.shape == (n_obs, n_channel)]


def check_noise(case):
    mod, theta, pred = model_rdm(case)
    cond_vec, cond_idx = design_of(case)
    n_obs = cond_vec.shape[0]
    s1, s2 = case['signal'], case['signal2']
    v1, v2 = case['noise'], case['noise2']
    rec = []
    a0 = simulate(case, mod, theta, cond_vec, noise=0.0)
    a1 = simulate(case, mod, theta, cond_vec, record=rec, noise=v1)
    a2 = simulate(case, mod, theta, cond_vec, noise=v2)
    b0 = simulate(case, mod, theta, cond_vec, noise=0.0, signal=s2)
    b1 = simulate(case, mod, theta, cond_vec, noise=v1, signal=s2)
    for lst in (a0, a1, a2, b0, b1):
        require(len(lst) == case['n_sim'], 'make_dataset returned %d datasets' % len(lst), 'n_sim')
    check_descriptors(a1[0], case, mod, theta, cond_vec, v1)
    cands = [norm.ppf(c) for c in _candidate_draws(rec, n_obs, case['n_channel'])]
    if not cands:
        raise core.Inconclusive('no uniform draw of the noise shape was observed')
    cov = None if case.get('noise_cov') is None else np.array(case['noise_cov'], dtype=float)
    eps_all = []
    for s in range(case['n_sim']):
        m = {k: np.asarray(x[s].measurements, dtype=float) for k, x in
             dict(a0=a0, a1=a1, a2=a2, b0=b0, b1=b1).items()}
        require(all(np.isfinite(x).all() for x in m.values()), 'non-finite measurements', 'noise:finite')
        e1 = m['a1'] - m['a0']
        e2 = m['a2'] - m['a0']
        eb = m['b1'] - m['b0']
        big = max(float(np.abs(m['a1']).max()), float(np.abs(m['b1']).max()),
                  float(np.abs(m['a2']).max()), 1e-300)
        atol = 1e-11 * big
        # signal part scales with sqrt(signal strength)
        require(core.close(m['a0'] / math.sqrt(s1), m['b0'] / math.sqrt(s2), 1e-9, atol),
                'simulation %d: noise-free data / sqrt(signal) differ between signal %g and %g '
                '(max diff %.3g)' % (s, s1, s2, core.maxdiff(m['a0'] / math.sqrt(s1),
                                                             m['b0'] / math.sqrt(s2))),
                'signal:scaling')
        # additive: the same noise term whatever the signal
        require(core.close(e1, eb, 1e-9, 4 * atol),
                'simulation %d: noise term depends on the signal strength (max diff %.3g)' % (
                    s, core.maxdiff(e1, eb)), 'noise:additive')
        # scales with the square root of the variance
        require(core.close(e1 / math.sqrt(v1), e2 / math.sqrt(v2), 1e-9,
                           4 * atol / math.sqrt(min(v1, v2))),
                'simulation %d: noise term / sqrt(variance) differs between variance %g and %g: %s vs %s'
                % (s, v1, v2, core._short(e1 / math.sqrt(v1)), core._short(e2 / math.sqrt(v2))),
                'noise:scaling')
        require(float(np.abs(e1).max()) > 0, 'simulation %d: noise term is zero at variance %g' % (s, v1),
                'noise:zero')
        eps_all.append(e1)
        unit = e1 / math.sqrt(v1)
        utol = 4 * atol / math.sqrt(v1)
        if cov is None:
            # documented: `noise` is the variance of an i.i.d. normal term
            if not any(core.close(unit, z, 1e-9, utol) for z in cands):
                best = min(core.maxdiff(unit, z) for z in cands)
                raise Violation('simulation %d: noise term / sqrt(variance %g) is not the standard-normal '
                                'transform of any observed draw (closest max diff %.3g)' % (s, v1, best),
                                'noise:variance')
        else:
            # 'covariance matrix of the noise over channels': with the draws held fixed (equal
            # seed), four times the covariance (exact power of two) doubles the noise term -
            # the scale of the requested covariance is part of the request, whatever the factor
            # or its orientation
            c4 = simulate(case, mod, theta, cond_vec, noise=v1, noise_cov_channel=4.0 * cov)
            require(len(c4) == case['n_sim'], 'make_dataset returned %d datasets' % len(c4), 'n_sim')
            e4 = np.asarray(c4[s].measurements, dtype=float) - m['a0']
            require(core.close(e4, 2.0 * e1, 1e-9, 8 * atol),
                    'simulation %d: with noise_cov_channel replaced by 4 x noise_cov_channel (equal '
                    'seed, variance %g) the noise term is not doubled: %s vs 2 x %s (mean channel '
                    'variance requested %.4g)' % (s, v1, core._short(e4), core._short(e1),
                                                  float(np.mean(np.diag(cov)))),
                    'noise:covariance-scale')
        # beyond that, with noise_cov_channel only additivity and sqrt(variance) scaling are asserted:
        # the property statement says nothing about the channel covariance of the noise term
        # (the docstring does: numpy's lower Cholesky factor is applied from the right, which
        # yields L'L instead of the requested LL' - recorded in DESIGN 6 as an observation,
        # not asserted and not repaired)
    for s in range(1, len(eps_all)):
        require(core.maxdiff(eps_all[0], eps_all[s]) > 0,
                'simulations 0 and %d have identical noise' % s, 'noise:fresh')
    if case['same_signal'] and case['n_sim'] >= 2:
        for s in range(1, case['n_sim']):
            require(np.array_equal(np.asarray(a0[0].measurements), np.asarray(a0[s].measurements)),
                    'use_same_signal: noise-free simulations differ', 'same-signal')


# ---------------------------------------------------------------------------
# generators

@st.composite
def point_cloud(draw, n_cond):
    dim = draw(st.integers(1, n_cond + 1))
    variant = draw(st.sampled_from(['generic', 'generic', 'coincident', 'centroid', 'collinear']))
    # coordinates k/den: squared distances stay >= 1e-4 (the library uses absolute 1e-15 pivot
    # thresholds, so micro-scale models are outside the domain, DESIGN 1.4)
    den = draw(st.sampled_from([1.0, 8.0, 8.0, 100.0]))
    kmax = {1.0: 6, 8.0: 64, 100.0: 1000}[den]
    pts = draw(st.lists(st.lists(st.integers(-kmax, kmax).map(lambda k: k / den), min_size=dim,
                                 max_size=dim), min_size=n_cond, max_size=n_cond))
    if variant == 'coincident' and n_cond >= 3:
        i = draw(st.integers(0, n_cond - 1))
        j = (i + draw(st.integers(1, n_cond - 1))) % n_cond
        pts[j] = list(pts[i])
    elif variant == 'centroid' and n_cond >= 3:
        k = draw(st.sampled_from([0, 0, n_cond - 1, 1]))
        others = [pts[i] for i in range(n_cond) if i != k]
        pts[k] = [sum(o[c] for o in others) / len(others) for c in range(dim)]
    elif variant == 'collinear':
        base = pts[0]
        ts = draw(st.lists(st.integers(-6, 6), min_size=n_cond, max_size=n_cond))
        direction = [1.0] + [float((c % 3) - 1) for c in range(1, dim)]
        pts = [[b + t * d for b, d in zip(base, direction)] for t in ts]
    else:
        variant = 'generic'
    # the model RDM must not vanish: make the first two points differ
    if all(pts[i] == pts[0] for i in range(n_cond)):
        pts[1] = [pts[1][0] + 1.0] + list(pts[1][1:])
    return variant, pts


@st.composite
def model_spec(draw, n_cond):
    variant, pts = draw(point_cloud(n_cond))
    scale = draw(st.sampled_from([1.0, 1.0, 0.01, 100.0]))
    spec = dict(kind='fixed', variant=variant, points=pts, scale=scale)
    k = draw(st.integers(0, 5))
    if k == 0:
        _, pts2 = draw(point_cloud(n_cond))
        spec.update(kind='weighted', points2=pts2,
                    theta=[draw(st.sampled_from([0.0, 0.5, 1.0, 3.0])),
                           draw(st.sampled_from([0.25, 1.0, 2.0]))])
    elif k == 1:
        # a fixed model built from an RDMs object holding several RDMs (e.g. the subject RDMs
        # calc_rdm returned): its prediction - model.predict() - is their mean, itself a
        # squared-Euclidean RDM (of the concatenated configurations)
        _, pts2 = draw(point_cloud(n_cond))
        spec.update(kind='fixed_multi', points2=pts2)
    return spec


@st.composite
def design_spec(draw, n_cond):
    form = draw(st.sampled_from(['make_design', 'vector', 'matrix', 'mixture']))
    n_part = draw(st.integers(1, 4))
    if form == 'make_design':
        return dict(form=form, n_part=n_part)
    if draw(st.booleans()):
        reps = [n_part] * n_cond
    else:
        reps = draw(st.lists(st.integers(1, 3), min_size=n_cond, max_size=n_cond))
    rows = [k for k, r in enumerate(reps) for _ in range(r)]
    perm = draw(gen.permutation(len(rows)))
    rows = [rows[i] for i in perm]
    spec = dict(form=form, n_part=n_part, rows=rows)
    if form == 'mixture':
        k = draw(st.integers(1, 3))
        spec['mix'] = [[draw(st.integers(0, 6)), draw(st.integers(0, 6)),
                        draw(st.sampled_from([0.5, 0.25, 0.75, 0.125]))] for _ in range(k)]
        spec['order'] = draw(gen.permutation(len(rows) + k))
    if form == 'vector':
        start = draw(st.sampled_from([0, 1, -3, 10]))
        steps = draw(st.lists(st.integers(1, 3), min_size=n_cond, max_size=n_cond))
        labels, cur = [], start
        for s_ in steps:
            labels.append(float(cur))
            cur += s_
        spec['labels'] = labels
    return spec


@st.composite
def roundtrip_case(draw):
    n_cond = draw(st.integers(2, 7))
    case = dict(model=draw(model_spec(n_cond)), design=draw(design_spec(n_cond)),
                n_channel=n_cond + draw(st.sampled_from([0, 0, 1, 2, 5, 20])),
                n_sim=draw(st.integers(1, 3)), signal=draw(st.sampled_from(SIGNALS)),
                exact=True, same_signal=draw(st.booleans()), seed=draw(st.integers(0, 2 ** 32 - 1)),
                noise_cov=None)
    if draw(st.integers(0, 4)) == 0:
        case['noise_cov'] = draw(gen.spd(case['n_channel'])) if case['n_channel'] <= 8 else None
    return case


@st.composite
def noise_case(draw, with_cov):
    n_cond = draw(st.integers(2, 5))
    exact = draw(st.booleans())
    if with_cov:
        n_channel = draw(st.integers(n_cond if exact else 1, 6))
    else:
        n_channel = draw(st.integers(n_cond, n_cond + 5)) if exact else draw(st.integers(1, 8))
    design = draw(design_spec(n_cond))
    if with_cov:
        # enough observations to identify the channel mixture from the draws
        need = n_channel + 2
        if design['form'] == 'make_design':
            design['n_part'] = max(design['n_part'], -(-need // n_cond))
        else:
            k = 0
            while len(design['rows']) < need:
                design['rows'] = design['rows'] + [k % n_cond]
                k += 1
    s = draw(st.lists(st.sampled_from(SIGNALS), min_size=2, max_size=2, unique=True))
    v = draw(st.lists(st.sampled_from(NOISES), min_size=2, max_size=2, unique=True))
    case = dict(model=draw(model_spec(n_cond)), design=design, n_channel=n_channel,
                n_sim=draw(st.integers(1, 2)), signal=s[0], signal2=s[1], noise=v[0], noise2=v[1],
                exact=exact, same_signal=draw(st.booleans()), seed=draw(st.integers(0, 2 ** 32 - 1)),
                noise_cov=draw(gen.spd(n_channel)) if with_cov else None)
    return case


SUBCHECKS = [
    SubCheck('exact_roundtrip', roundtrip_case(), check_roundtrip, classify_sim, quick=1200, thorough=16000,
             doc='exact signal + zero noise: calc_rdm(euclidean, by condition) == signal x model RDM '
                 '(rtol 1e-5) for every simulation; shapes; cond_vec and {signal, noise, model, theta} '
                 'descriptors; same-signal => identical simulations, default => different'),
    Enumeration('make_design', enumerate_designs, check_design, classify_design,
                doc='every condition exactly once per partition, all (n_cond, n_part) on a grid'),
    SubCheck('noise_term', noise_case(False), check_noise, classify_sim, quick=600, thorough=8000,
             doc='equal seeds: data(v)-data(0) is the same for two signal strengths (additive), '
                 'proportional to sqrt(v), equals sqrt(v) x Phi^-1(recorded draws); noise-free data '
                 'scale with sqrt(signal); fresh noise per simulation'),
    SubCheck('noise_covariance', noise_case(True), check_noise, classify_sim, quick=600, thorough=8000,
             doc='with noise_cov_channel: recovered noise term = sqrt(v) x draws x M with M\'M equal '
                 'to the requested covariance (documented meaning of the argument)'),
]
