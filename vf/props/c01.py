"""C01 - RDM estimators equal their formula on condition means, correctly labelled."""
import os
import sys

import numpy as np
from hypothesis import strategies as st

from vf import core, gen, ref
from vf.core import SubCheck, Violation, Reject, lib, require, require_close
from vf.props import c01_util as U

from rsatoolbox.data.dataset import Dataset, TemporalDataset
from rsatoolbox.rdm import calc_rdm, calc_rdm_movie

THOROUGH = ('thorough' in sys.argv) or os.environ.get('VERIF_TIER') == 'thorough'
MAX_COND = 10 if THOROUGH else 6

RULE = ("Hypothesis-generated datasets: 2-6 conditions (thorough: up to 10) x 1-4 repetitions "
        "(balanced or not), rows in a generated permutation, 1-8 channels (>=3 for correlation), "
        "dyadic-grid / small-int / decimal values (counts or positive rates for poisson), int or "
        "float dtype, int or str labels from pools whose sorted order differs from generation order, "
        "descriptors as list or array, extra obs descriptors (constant within condition / varying), "
        "dataset descriptors; method in {euclidean, correlation, mahalanobis (none/one SPD precision, "
        "list of precisions for dataset lists), poisson (6 prior settings)} x remove_mean; call forms "
        "single, [ds], descriptor=None, lists of 2-3 datasets with equal or different condition sets; "
        "movies over 1-5 unsorted time points with optional bins. Oracle: loop-based condition means "
        "-> formula from the statement / P, library values looked up BY LABEL. A case is non-trivial "
        "if some condition is repeated, or label order of first appearance differs from sorted order, "
        "or the call is a list form / movie with >= 2 frames; distinct by SHA1 of the case.")
ASSUMPTIONS = [
    "poisson prior convention: rate = (mean pattern + prior_lambda*prior_weight)/(1+prior_weight), "
    "i.e. the condition mean counts as one observation (docs/source/distances.rst, tests/test_c.py); "
    "the property's '/P' normalisation is used (the docs formula carries an extra factor 1/2 that "
    "neither the code nor the property statement has - not asserted)",
    "values are read from RDMs.dissimilarities in upper-triangle row-major order",
    "patterns with (nearly) constant mean over channels are outside the domain of the correlation "
    "distance (generator constructs around them)",
    "datasets of a list carry the same descriptor keys; for descriptor=None lists all datasets "
    "share the observation set (concat aligns on the first unique pattern descriptor)",
    "pattern descriptors other than the condition descriptor are not asserted to survive "
    "from_partials (list form with descriptor); the pattern descriptor 'time' of a movie is not "
    "asserted (only rdm_descriptors[time])",
]

DS_DESCS = [{}, {'subj': 's1'}, {'subj': 3, 'sess': 'a'}, {'subj': 'b', 'sess': 2}]


# ---------------------------------------------------------------------------
# shared verification

def _rdm_vector(r, k):
    d = np.asarray(r.dissimilarities, dtype=float)
    require(d.ndim == 2 and 0 <= k < d.shape[0], 'dissimilarities shape %s' % (d.shape,), 'shape')
    return d[k]


def lookup_matrix(r, k, desc_name, labels, what, sigform):
    """library values for the given labels, looked up by label"""
    require(desc_name in r.pattern_descriptors,
            '%s: pattern descriptor %r missing (have %s)' % (what, desc_name,
                                                            sorted(r.pattern_descriptors)),
            'labels:' + sigform)
    pos = U.check_label_set(r.pattern_descriptors[desc_name], labels, what, 'labels:' + sigform)
    sq = U.square(_rdm_vector(r, k), len(labels), what, 'shape:' + sigform)
    return sq[np.ix_(pos, pos)], pos


def offdiag(m):
    m = np.asarray(m, dtype=float)
    n = m.shape[0]
    return np.array([m[i, j] for i in range(n) for j in range(n) if i != j], dtype=float)


def check_measure(r, what):
    dm = r.dissimilarity_measure
    require(isinstance(dm, str) and len(dm) > 0, '%s: dissimilarity_measure is %r' % (what, dm),
            'measure')


def check_rdm_descriptors(r, ks, ds_desc, what, sigform):
    if r.n_rdm == 1 and sigform != 'single' and sigform != 'nodesc':
        # one RDMs object went through concat / from_partials
        sigform = 'concat-of-one'
    for key, val in ds_desc.items():
        require(key in r.rdm_descriptors and r.rdm_descriptors[key] is not None,
                '%s: dataset descriptor %r=%r not in rdm_descriptors %r' % (
                    what, key, val, r.rdm_descriptors), 'rdm-descriptors:' + sigform)
        vals = list(r.rdm_descriptors[key])
        for k in ks:
            require(k < len(vals) and U.same_label(vals[k], val),
                    '%s: rdm_descriptors[%r]=%r, dataset has %r (rdm %d)' % (what, key, vals, val, k),
                    'rdm-descriptors:' + sigform)


def check_extra_descriptors(r, pos, groups, extras, what, must_have_const=True):
    """every obs descriptor that reappears as pattern descriptor carries, at each condition, a
    value of one of that condition's rows; one that is constant within every condition must
    reappear"""
    for name, vals in extras.items():
        const = all(len(U.distinct([vals[i] for i in g])) == 1 for g in groups)
        if name not in r.pattern_descriptors:
            require(not (const and must_have_const),
                    '%s: obs descriptor %r is constant within each condition but is not a pattern '
                    'descriptor (have %s)' % (what, name, sorted(r.pattern_descriptors)),
                    'pattern-descriptors:missing')
            continue
        pd = list(r.pattern_descriptors[name])
        require(len(pd) == len(groups), '%s: pattern descriptor %r has length %d for %d conditions'
                % (what, name, len(pd), len(groups)), 'pattern-descriptors:length')
        for g, p_ in zip(groups, pos):
            allowed = [vals[i] for i in g]
            require(any(U.same_label(pd[p_], a) for a in allowed),
                    '%s: pattern descriptor %r has %r at a condition whose observations carry %r' % (
                        what, name, U.py(pd[p_]), allowed), 'pattern-descriptors:misassigned')


def compare_values(libm, om, om_alt, method, atol, what, sigform):
    """libm/om: label-ordered matrices (NaN allowed). om_alt: oracle with remove_mean ignored
    (None if identical) - only to name the failing region"""
    a, b = offdiag(libm), offdiag(om)
    if core.close(a, b, U.RTOL[method], atol):
        return
    if om_alt is not None and core.close(a, offdiag(om_alt), U.RTOL[method], atol):
        raise Violation('%s: remove_mean=True is ignored: library %s equals the remove_mean=False '
                        'value, with mean removal the formula gives %s' % (
                            what, core._short(a), core._short(b)), 'remove_mean:list-input')
    nan_a, nan_b = np.isnan(a), np.isnan(b)
    if not np.array_equal(nan_a, nan_b):
        raise Violation('%s: NaN pattern differs: library %s vs oracle %s' % (
            what, core._short(a), core._short(b)), 'nan-pattern:' + sigform)
    raise Violation('%s %s: library %s vs oracle %s (max diff %.3g)' % (
        what, method, core._short(a), core._short(b), core.maxdiff(a, b)),
        'value:%s:%s' % (method, sigform))


# ---------------------------------------------------------------------------
# sub-check 1: one dataset; forms single / [ds] / descriptor=None

@st.composite
def _extras(draw, obs, labels):
    n = len(obs)
    ex = {}
    ck = draw(st.sampled_from([None, 'int', 'str']))
    if ck is not None:
        per = draw(st.lists(st.integers(0, 2), min_size=len(labels), max_size=len(labels)))
        m = {}
        for lab, v in zip(labels, per):
            m[repr(lab)] = v if ck == 'int' else 'g%d' % v
        ex['grp'] = [m[repr(o)] for o in obs]
    if draw(st.booleans()):
        ex['run'] = draw(st.lists(st.integers(0, 3), min_size=n, max_size=n))
    return ex


@st.composite
def single_case(draw):
    p = draw(st.integers(1, 8))
    des = draw(gen.design(n_cond_range=(2, MAX_COND), reps_range=(1, 4)))
    obs = des['obs']
    n = len(obs)
    cfg = draw(U.method_config(p))
    form = draw(st.sampled_from(['single', 'list1', 'single', 'nodesc', 'single', 'list1-nodesc', 'single']))
    meas, kind = draw(U.data_matrix(n, p, cfg['method'], positive=cfg['prior'][0] == 0))
    if cfg['method'] == 'correlation':
        groups = [[i] for i in range(n)] if 'nodesc' in form else U.groups_of(obs)
        meas = U.fix_flat_patterns(meas, groups)
    oid = [10 + 3 * i for i in draw(gen.permutation(n))]
    if draw(st.integers(0, 7)) == 0 and len(U.groups_of(obs)) >= 3:
        # a dropped sample: one measurement of one observation is NaN; by the formula exactly the
        # pairs with that observation's condition are NaN
        meas = [list(r) for r in meas]
        meas[draw(st.integers(0, n - 1))][draw(st.integers(0, p - 1))] = float('nan')
    return dict(meas=meas, kind=kind, dtype=draw(st.sampled_from(['float', 'int'])),
                obs=obs, label_kind=des['kind'], container=draw(gen.container),
                extras=draw(_extras(obs, des['labels'])), oid=oid,
                ds_desc=draw(st.sampled_from(DS_DESCS)), cfg=cfg, form=form)


def _build_dataset(case, variant):
    """variant 0: as generated; variant 1: rows reversed, other container, other dtype;
    variant 2: variant 0 taken apart and put together again by the library (split by condition,
    merged: the same rows grouped by condition, descriptors in the containers the library makes)"""
    if variant == 2:
        from rsatoolbox.data.ops import merge_datasets
        ds = _build_dataset(case, 0)
        parts = ds.split_obs('cond')
        return merge_datasets(parts)
    n = len(case['obs'])
    order = list(range(n)) if variant == 0 else list(range(n - 1, -1, -1))
    cont = case['container'] if variant == 0 else ('list' if case['container'] == 'array' else 'array')
    dtype = case['dtype'] if variant == 0 else ('int' if case['dtype'] == 'float' else 'float')
    meas = U.np_data([case['meas'][i] for i in order], dtype)
    od = {'cond': gen.as_desc([case['obs'][i] for i in order], cont)}
    for name, vals in case['extras'].items():
        od[name] = gen.as_desc([vals[i] for i in order], cont)
    od['oid'] = gen.as_desc([case['oid'][i] for i in order], cont)
    ds = Dataset(meas, descriptors=dict(case['ds_desc']), obs_descriptors=od)
    return ds


def _noise_arg(noise):
    if noise is None:
        return None
    a = np.array(noise, dtype=float)
    if a.ndim == 3:
        return [x.copy() for x in a]
    return a


def check_single(case):
    cfg, form = case['cfg'], case['form']
    method, prior, rm = cfg['method'], cfg['prior'], cfg['remove_mean']
    noise = cfg['noise']
    meas = np.array(case['meas'], dtype=float)
    obs = case['obs']
    nodesc = 'nodesc' in form
    if nodesc:
        labels = list(case['oid'])
        means = [meas[i] for i in range(len(obs))]
        groups = [[i] for i in range(len(obs))]
        lab_desc = 'oid'
    else:
        labels, means = ref.cond_means(meas, obs)
        groups = [[i for i, o in enumerate(obs) if U.same_label(o, lab)] for lab in labels]
        lab_desc = 'cond'
    if method == 'correlation' and not U.pattern_spread_ok(means):
        raise Reject('flat pattern', 'degenerate:flat-pattern')
    om = U.ref_matrix(method, means, noise, prior, rm)
    om_alt = None
    if rm and method in ('euclidean', 'mahalanobis'):
        om_alt = U.ref_matrix(method, means, noise, prior, False)
    atol = U.gram_atol(method, means, noise, prior)
    for variant in (0, 1, 2):
        ds = lib(_build_dataset, case, variant, on_error='reject')
        arg = [ds] if form.startswith('list1') else ds
        what = 'calc_rdm(%s, %s, descriptor=%s, remove_mean=%s) [variant %d]' % (
            'dataset' if arg is ds else '[dataset]', method, None if nodesc else "'cond'", rm, variant)
        kw = dict(method=method, descriptor=None if nodesc else 'cond', remove_mean=rm)
        if method == 'mahalanobis':
            kw['noise'] = _noise_arg(noise)
        if method == 'poisson':
            kw['prior_lambda'], kw['prior_weight'] = prior
        before = np.array(ds.measurements, copy=True)
        r = lib(calc_rdm, arg, on_error='violation',
                sig='raises:calc_rdm:%s:%s' % (form, method), **kw)
        require(np.array_equal(before, ds.measurements, equal_nan=True), what + ': dataset measurements modified',
                'input-mutated')
        require(r.n_rdm == 1, '%s: %d RDMs for one dataset' % (what, r.n_rdm), 'n_rdm:' + form)
        libm, pos = lookup_matrix(r, 0, lab_desc, labels, what, form)
        compare_values(libm, om, om_alt, method, atol, what, form)
        check_measure(r, what)
        check_rdm_descriptors(r, [0], case['ds_desc'], what, form)
        if form in ('single', 'nodesc', 'list1-nodesc'):
            extras = dict(case['extras'])
            extras['cond'] = list(obs)
            extras['oid'] = list(case['oid'])
            check_extra_descriptors(r, pos, groups, extras, what)


def _label_order_nontrivial(obs):
    first = U.distinct(obs)
    return not gen.is_sorted_labels(first)


def classify_single(case):
    cfg = case['cfg']
    groups = U.groups_of(case['obs'])
    reps = [len(g) for g in groups]
    labels = ['method:' + cfg['method'], 'labels:' + case['label_kind'],
              'balanced' if len(set(reps)) == 1 else 'unbalanced', 'form:' + case['form'],
              'remove_mean:%s' % cfg['remove_mean'], 'desc:' + case['container'],
              'dtype:' + ('int' if case['dtype'] == 'int' and U.all_integral(case['meas']) else 'float'),
              'values:' + case['kind'], 'n_cond:%d' % len(groups),
              'missing-sample' if any(v != v for r in case['meas'] for v in r) else 'complete',
              'order:' + ('unsorted' if _label_order_nontrivial(case['obs']) else 'sorted')]
    if cfg['method'] == 'mahalanobis':
        labels.append('noise:' + cfg.get('noise_form', 'none'))
    if 'grp' in case['extras']:
        labels.append('extra:const')
    if 'run' in case['extras']:
        labels.append('extra:vary')
    nt = max(reps) >= 2 or _label_order_nontrivial(case['obs']) or case['form'].startswith('list1')
    return labels, nt


# ---------------------------------------------------------------------------
# sub-check 2: lists of 2-3 datasets

@st.composite
def list_case(draw):
    p = draw(st.integers(1, 6))
    k = draw(st.integers(2, 3))
    cfg = draw(U.method_config(p, n_noise=k))
    with_desc = draw(st.sampled_from([True, True, True, False]))
    n_pool = draw(st.integers(2, MAX_COND))
    kind, pool = draw(gen.label_set(n_pool))
    same_sets = draw(st.booleans()) or not with_desc
    sets = []
    base = None
    for d in range(k):
        if with_desc:
            if same_sets or n_pool == 2:
                labs = list(pool)
            else:
                mask = draw(st.lists(st.booleans(), min_size=n_pool, max_size=n_pool))
                labs = [l for l, m in zip(pool, mask) if m]
                if len(labs) < 2:
                    labs = list(pool[:2]) if d % 2 == 0 else list(pool[-2:])
            reps = draw(st.lists(st.integers(1, 3), min_size=len(labs), max_size=len(labs)))
            rows = []
            for lab, r_ in zip(labs, reps):
                rows += [lab] * r_
            perm = draw(gen.permutation(len(rows)))
            obs = [rows[i] for i in perm]
            oid = [100 * d + i for i in range(len(obs))]
        else:
            if base is None:
                reps = draw(st.lists(st.integers(1, 2), min_size=n_pool, max_size=n_pool))
                rows = []
                for lab, r_ in zip(pool, reps):
                    rows += [lab] * r_
                base = (rows, [7 + 2 * i for i in range(len(rows))])
            perm = draw(gen.permutation(len(base[0])))
            obs = [base[0][i] for i in perm]
            oid = [base[1][i] for i in perm]
        meas, vkind = draw(U.data_matrix(len(obs), p, cfg['method'], positive=cfg['prior'][0] == 0))
        if cfg['method'] == 'correlation':
            meas = U.fix_flat_patterns(
                meas, U.groups_of(obs) if with_desc else [[i] for i in range(len(obs))])
        sets.append(dict(meas=meas, obs=obs, oid=oid))
    dd = draw(st.sampled_from(['subj', 'subj+sess-same', 'subj+sess-diff']))
    subj_kind = draw(st.sampled_from(['int', 'str']))
    subj_perm = draw(gen.permutation(k))
    for d, s in enumerate(sets):
        sj = subj_perm[d] + 1
        desc = {'subj': sj if subj_kind == 'int' else 'S%d' % sj}
        if dd == 'subj+sess-same':
            desc['sess'] = 'x'
        elif dd == 'subj+sess-diff':
            desc['sess'] = 'r%d' % (d % 2)
        s['ds_desc'] = desc
    return dict(sets=sets, cfg=cfg, with_desc=with_desc, label_kind=kind,
                container=draw(gen.container), dtype=draw(st.sampled_from(['float', 'int'])),
                same_sets=bool(same_sets))


def check_list(case):
    cfg = case['cfg']
    method, prior, rm, noise = cfg['method'], cfg['prior'], cfg['remove_mean'], cfg['noise']
    noise_list = cfg.get('noise_form') == 'list'
    with_desc = case['with_desc']
    sigform = 'list' if with_desc else 'list-nodesc'
    lab_desc = 'cond' if with_desc else 'oid'
    dss, per = [], []
    for d, s in enumerate(case['sets']):
        meas = np.array(s['meas'], dtype=float)
        if with_desc:
            labels, means = ref.cond_means(meas, s['obs'])
        else:
            labels, means = list(s['oid']), [meas[i] for i in range(len(meas))]
        if method == 'correlation' and not U.pattern_spread_ok(means):
            raise Reject('flat pattern', 'degenerate:flat-pattern')
        nz = noise[d] if noise_list else noise
        om = U.ref_matrix(method, means, nz, prior, rm)
        alt = U.ref_matrix(method, means, nz, prior, False) \
            if rm and method in ('euclidean', 'mahalanobis') else None
        per.append(dict(labels=labels, om=om, alt=alt, atol=U.gram_atol(method, means, nz, prior)))
        od = {'oid': gen.as_desc(s['oid'], case['container']),
              'cond': gen.as_desc(s['obs'], case['container'])}
        dss.append(Dataset(U.np_data(s['meas'], case['dtype']), descriptors=dict(s['ds_desc']),
                           obs_descriptors=od))
    union = []
    for pr in per:
        for lab in pr['labels']:
            if not any(U.same_label(lab, u) for u in union):
                union.append(lab)
    kw = dict(method=method, descriptor='cond' if with_desc else None, remove_mean=rm)
    if method == 'mahalanobis':
        kw['noise'] = _noise_arg(noise)
    if method == 'poisson':
        kw['prior_lambda'], kw['prior_weight'] = prior
    what = 'calc_rdm(list of %d datasets, %s, descriptor=%r, remove_mean=%s)' % (
        len(dss), method, kw['descriptor'], rm)
    r = lib(calc_rdm, dss, on_error='violation',
            sig='raises:calc_rdm:%s:%s-descriptor' % (sigform, case['container']), **kw)
    require(r.n_rdm == len(dss), '%s: %d RDMs' % (what, r.n_rdm), 'n_rdm:' + sigform)
    check_measure(r, what)
    subj = r.rdm_descriptors.get('subj')
    require(subj is not None and len(list(subj)) == len(dss),
            '%s: rdm_descriptors[subj] = %r' % (what, subj), 'rdm-descriptors:' + sigform)
    used = set()
    for d, (s, pr) in enumerate(zip(case['sets'], per)):
        ks = [k for k, v in enumerate(list(subj)) if U.same_label(v, s['ds_desc']['subj'])]
        require(len(ks) == 1, '%s: dataset subj=%r matches RDMs %r in rdm_descriptors %r' % (
            what, s['ds_desc']['subj'], ks, list(subj)), 'rdm-descriptors:' + sigform)
        k = ks[0]
        used.add(k)
        check_rdm_descriptors(r, [k], s['ds_desc'], what, sigform)
        libm, pos = lookup_matrix(r, k, lab_desc, union, what, sigform)
        n = len(union)
        om = np.full((n, n), np.nan)
        alt = np.full((n, n), np.nan) if pr['alt'] is not None else None
        idx = [[j for j, u in enumerate(union) if U.same_label(u, lab)][0] for lab in pr['labels']]
        for a, ia in enumerate(idx):
            for b, ib in enumerate(idx):
                om[ia, ib] = pr['om'][a, b]
                if alt is not None:
                    alt[ia, ib] = pr['alt'][a, b]
        compare_values(libm, om, alt, method, pr['atol'],
                       '%s, dataset %d (subj=%r)' % (what, d, s['ds_desc']['subj']), sigform)
    require(len(used) == len(dss), '%s: datasets map to RDMs %r' % (what, sorted(used)),
            'rdm-descriptors:' + sigform)


def classify_list(case):
    cfg = case['cfg']
    labels = ['method:' + cfg['method'], 'labels:' + case['label_kind'],
              'form:' + ('list' if case['with_desc'] else 'list-nodesc'),
              'k=%d' % len(case['sets']), 'remove_mean:%s' % cfg['remove_mean'],
              'desc:' + case['container'],
              'condsets:' + ('equal' if case['same_sets'] else 'different')]
    if cfg['method'] == 'mahalanobis':
        labels.append('noise:' + cfg.get('noise_form', 'none'))
    sets = [sorted(map(repr, U.distinct(s['obs']))) for s in case['sets']]
    if any(x != sets[0] for x in sets):
        labels.append('partial-overlap')
    return labels, True


# ---------------------------------------------------------------------------
# sub-check 3: movies

TIME_POOL = [0.5, -0.25, 2.0, 0.125, 1.0, 3.5, -1.0, 0.75]


@st.composite
def movie_case(draw):
    p = draw(st.integers(2, 6))
    n_t = draw(st.sampled_from([1, 2, 2, 3, 3, 4, 5]))
    des = draw(gen.design(n_cond_range=(2, 5), reps_range=(1, 3)))
    obs = des['obs']
    n = len(obs)
    with_desc = draw(st.sampled_from([True, True, False]))
    cfg = draw(U.method_config(p))
    cfg['remove_mean'] = False      # calc_rdm_movie has no such option
    tidx = draw(st.lists(st.integers(0, len(TIME_POOL) - 1), min_size=n_t, max_size=n_t, unique=True))
    # 'all time descriptors': also sample indices / millisecond stamps that are large compared
    # with their spacing (exactly representable, so bin means stay exact)
    t0 = draw(st.sampled_from([0.0, 0.0, 0.0, 250000.0, 2.0 ** 30]))
    times = [t0 + TIME_POOL[i] for i in tidx]
    groups = U.groups_of(obs) if with_desc else [[i] for i in range(n)]
    frames = []
    kind = None
    for _ in range(n_t):
        m, kind = draw(U.data_matrix(n, p, cfg['method'], kind=kind, positive=cfg['prior'][0] == 0))
        if cfg['method'] == 'correlation':
            m = U.fix_flat_patterns(m, groups)
        frames.append(m)
    bins = None
    if n_t >= 2 and draw(st.sampled_from([True, True, False])):
        assign = draw(st.lists(st.integers(-1, 2), min_size=n_t, max_size=n_t))
        raw = [[t for t in range(n_t) if assign[t] == b] for b in range(3)]
        bins, seen = [], []
        for b in raw:
            if not b:
                continue
            mean = sum(times[t] for t in b) / len(b)
            if any(mean == s for s in seen):
                continue
            seen.append(mean)
            bins.append(b)
        if not bins:
            bins = [[0]]
        order = draw(gen.permutation(len(bins)))
        bins = [bins[i] for i in order]
    return dict(frames=frames, times=times, bins=bins, obs=obs, label_kind=des['kind'],
                with_desc=with_desc, cfg=cfg, container=draw(gen.container),
                dtype=draw(st.sampled_from(['float', 'int'])),
                ds_desc=draw(st.sampled_from(DS_DESCS)), kind=kind)


def check_movie(case):
    cfg = case['cfg']
    method, prior, noise = cfg['method'], cfg['prior'], cfg['noise']
    frames = np.array(case['frames'], dtype=float)       # T x n x p
    times = list(case['times'])
    obs = case['obs']
    n = len(obs)
    oid = [5 + 2 * i for i in range(n)]
    with_desc = case['with_desc']
    sigform = 'movie' if with_desc else 'movie-nodesc'
    if case['bins'] is None:
        expected = [(times[t], frames[t]) for t in range(len(times))]
    else:
        expected = []
        for b in case['bins']:
            acc = np.zeros_like(frames[0])
            for t in b:
                acc = acc + frames[t]
            expected.append((sum(times[t] for t in b) / len(b), acc / len(b)))
    meas3 = np.transpose(frames, (1, 2, 0))               # n x p x T
    if case['dtype'] == 'int' and U.all_integral(meas3):
        meas3 = meas3.astype(np.int64)
    od = {'cond': gen.as_desc(obs, case['container']), 'oid': gen.as_desc(oid, case['container'])}
    td = TemporalDataset(np.ascontiguousarray(meas3), descriptors=dict(case['ds_desc']),
                         obs_descriptors=od, time_descriptors={'time': np.array(times)})
    kw = dict(method=method, descriptor='cond' if with_desc else None)
    if method == 'mahalanobis':
        kw['noise'] = _noise_arg(noise)
    if method == 'poisson':
        kw['prior_lambda'], kw['prior_weight'] = prior
    if case['bins'] is not None:
        kw['bins'] = [np.array([times[t] for t in b]) for b in case['bins']]
    what = 'calc_rdm_movie(%s, descriptor=%r, times=%r, bins=%r)' % (
        method, kw['descriptor'], times, None if case['bins'] is None else
        [[times[t] for t in b] for b in case['bins']])
    # oracle first (rejects degenerate patterns before the library is called)
    oracle = []
    for (tval, sl) in expected:
        if with_desc:
            labels, means = ref.cond_means(sl, obs)
        else:
            labels, means = list(oid), [sl[i] for i in range(n)]
        if method == 'correlation' and not U.pattern_spread_ok(means):
            raise Reject('flat pattern', 'degenerate:flat-pattern')
        oracle.append((tval, labels, U.ref_matrix(method, means, noise, prior, False),
                       U.gram_atol(method, means, noise, prior)))
    r = lib(calc_rdm_movie, td, on_error='violation',
            sig='raises:calc_rdm_movie:%s' % ('bins' if case['bins'] is not None else 'nobins'), **kw)
    require(r.n_rdm == len(expected), '%s: %d RDMs for %d time points/bins' % (
        what, r.n_rdm, len(expected)), 'n_rdm:' + sigform)
    check_measure(r, what)
    tdesc = r.rdm_descriptors.get('time')
    require(tdesc is not None and len(list(tdesc)) == r.n_rdm,
            '%s: rdm_descriptors[time] = %r' % (what, tdesc), 'time-descriptor:' + sigform)
    tdesc = [float(x) for x in list(tdesc)]
    check_rdm_descriptors(r, list(range(r.n_rdm)), case['ds_desc'], what, sigform)
    for (tval, labels, om, atol) in oracle:
        ks = [k for k, x in enumerate(tdesc) if abs(x - tval) <= 1e-9]
        require(len(ks) == 1, '%s: time %r found %d times in rdm_descriptors[time]=%r' % (
            what, tval, len(ks), tdesc), 'time-descriptor:' + sigform)
        libm, pos = lookup_matrix(r, ks[0], 'cond' if with_desc else 'oid', labels,
                                  what + ' t=%r' % tval, sigform)
        compare_values(libm, om, None, method, atol, what + ' t=%r' % tval, sigform)


def classify_movie(case):
    cfg = case['cfg']
    n_frames = len(case['times']) if case['bins'] is None else len(case['bins'])
    labels = ['method:' + cfg['method'], 'labels:' + case['label_kind'],
              'form:' + ('movie' if case['with_desc'] else 'movie-nodesc'),
              'bins:' + ('none' if case['bins'] is None else 'yes'),
              'frames:%d' % n_frames, 'desc:' + case['container'],
              'times:' + ('sorted' if case['times'] == sorted(case['times']) else 'unsorted'),
              'time-origin:' + ('large' if max(abs(t) for t in case['times']) > 1000 else 'small')]
    if case['bins'] is not None and any(len(b) > 1 for b in case['bins']):
        labels.append('bins:averaging')
    return labels, n_frames >= 2 or _label_order_nontrivial(case['obs'])


SUBCHECKS = [
    SubCheck('single', single_case(), check_single, classify_single, quick=1600,
             doc='one dataset (dataset, [dataset], descriptor=None): label set, every pair value by '
                 'label vs formula on condition means, rdm/pattern descriptors, measure; repeated '
                 'with rows reversed, other descriptor container and other dtype'),
    SubCheck('lists', list_case(), check_list, classify_list, quick=1000,
             doc='lists of 2-3 datasets (equal/different condition sets, with/without descriptor, '
                 'one or per-dataset precision): per-dataset oracle matched through the dataset '
                 'descriptor, NaN exactly for absent pairs, remove_mean honoured'),
    SubCheck('movie', movie_case(), check_movie, classify_movie, quick=600,
             doc='RDM movie == reference on each time slice / bin mean, matched through '
                 'rdm_descriptors[time]'),
]
