"""C16 - save / load round trip for RDMs, Dataset, TemporalDataset, every model class and Result;
hdf5 and pkl; path or open handle; overwrite guard."""
import os
os.environ.setdefault('TQDM_DISABLE', '1')

import io  # noqa: E402
import shutil  # noqa: E402
import tempfile  # noqa: E402

import numpy as np  # noqa: E402
from hypothesis import strategies as st  # noqa: E402

from vf import core, gen, ident_data as idd  # noqa: E402
from vf.core import SubCheck, Violation, Reject, require  # noqa: E402
from vf.props import c16_objects as ob  # noqa: E402
from vf.props import c11 as c11mod  # noqa: E402  (dataset spec / op strategies)

RULE = ("Hypothesis generates (a) RDMs specs (1-4 RDMs x 2-6 conditions, values incl. NaN/inf, measure "
        "None/ASCII/non-ASCII, object-level descriptors of type str (ASCII and non-ASCII), int, float, "
        "bool, None, vector, matrix; per-item descriptors as list or array of str/unicode/int/float/"
        "bool) followed by 0-3 structural operations (subset, subsample, subset_pattern, "
        "subsample_pattern, sort_by, reorder, append, copy); (b) identity-encoded Dataset / "
        "TemporalDataset objects after a 0-4 step C11 history, decorated with the same descriptor "
        "types and NaN/inf; (c) Results from eval_fixed, eval_bootstrap(_rdm/_pattern), "
        "bootstrap_crossval (three boot types), eval_dual_bootstrap, crossval on generated data "
        "(library RNG seeded from the case) with models of all classes, and hand-built Results "
        "incl. the abstract Model; each crossed with file type hdf5/pkl, target path (.h5/.hdf5/.pkl, "
        "type inferred or given) / BytesIO / open file, overwrite flag; (d) overwrite scenarios: "
        "existing path or open file x overwrite on/off. Oracle: own field-wise equality (bit-equal "
        "arrays incl. NaN positions, same keys, element-wise equal normalised values), library == "
        "without raising, same model classes/names/predictions, same variances/dof and identical "
        "test_all outputs for three test types, unchanged in-memory fingerprint, ValueError + "
        "unchanged bytes for the guard, new object only after overwrite. Non-trivial: object with "
        ">=1 string and >=1 numeric descriptor that went through >=1 structural operation, any "
        "Result, or an overwrite scenario; distinct by SHA1 of the case.")

ASSUMPTIONS = [
    "per-item descriptors are homogeneous lists/arrays of str, int, float or bool without NaN; mixed, "
    "None-valued, nested or ragged per-item values and tuples/lists at object level are outside the "
    "domain (HDF5 coerces or drops them)",
    "library == is required to be True only for NaN-free objects; with NaN inside (IEEE NaN != NaN) "
    "it must not raise and must answer what it answers for an in-memory copy",
    "int vs equal-valued float, np scalar vs python scalar, 0-d array vs scalar and list vs array of "
    "equal elements count as equal; a string never equals a number",
    "an open handle is rewound by the caller before loading a pickle (documented nowhere, what the "
    "in-tree tests do); BytesIO objects never count as 'existing files'; a pickle is read from the "
    "position the caller put the handle at (pkl_stream: objects in sequence, caller-written header)",
    "pickle has no overwrite guard (the property only demands it for HDF5 paths)",
    "models have no save() of their own: they round-trip inside a Result and through "
    "to_dict/model_from_dict",
    "evaluation routines that refuse a generated configuration are counted as rejected",
]

FMT_EXT = {'hdf5': ['.h5', '.hdf5'], 'pkl': ['.pkl']}


# ---------------------------------------------------------------------------------------
# strategies

def typed_value():
    return st.one_of(
        st.sampled_from(ob.ASCII_POOL).map(lambda v: {'t': 'str', 'v': v}),
        st.sampled_from(ob.UNI_POOL).map(lambda v: {'t': 'str', 'v': v}),
        st.integers(-50, 50).map(lambda v: {'t': 'int', 'v': v}),
        st.sampled_from([0.5, -2.0, 0.001, 3.0, float('inf')]).map(lambda v: {'t': 'float', 'v': v}),
        st.booleans().map(lambda v: {'t': 'bool', 'v': v}),
        st.just({'t': 'none', 'v': None}),
        st.integers(1, 4).flatmap(lambda n: gen.vector(n)).map(lambda v: {'t': 'vec', 'v': v}),
        st.integers(1, 3).flatmap(lambda n: gen.spd(n)).map(lambda v: {'t': 'mat', 'v': v}),
    )


@st.composite
def peritem(draw, allow_uni=True):
    t = draw(st.sampled_from(['str', 'str', 'uni', 'int', 'float', 'bool'] if allow_uni
                             else ['str', 'str', 'int', 'float', 'bool']))
    n = draw(st.integers(1, 6))
    if t == 'str':
        vals = draw(st.lists(st.sampled_from(ob.ASCII_POOL), min_size=n, max_size=n))
    elif t == 'uni':
        vals = draw(st.lists(st.sampled_from(ob.UNI_POOL), min_size=n, max_size=n))
    elif t == 'int':
        vals = draw(st.lists(st.integers(-9, 30), min_size=n, max_size=n))
    elif t == 'float':
        vals = draw(st.lists(st.sampled_from([0.5, -1.25, 2.0, 1e-3, float('inf')]), min_size=n, max_size=n))
    else:
        vals = draw(st.lists(st.booleans(), min_size=n, max_size=n))
    return {'t': t, 'values': vals, 'container': draw(gen.container)}


def desc_dict(names, value_strategy, lo=0):
    return st.lists(st.sampled_from(names), min_size=lo, max_size=3, unique=True).flatmap(
        lambda ks: st.fixed_dictionaries({k: value_strategy for k in ks}))


special = st.lists(st.tuples(st.integers(0, 200), st.sampled_from(['nan', 'inf', '-inf'])),
                   max_size=2).map(lambda lst: [list(x) for x in lst])


@st.composite
def io_config(draw):
    fmt = draw(st.sampled_from(['hdf5', 'pkl']))
    target = draw(st.sampled_from(['path', 'path', 'bytesio', 'file']))
    return {'fmt': fmt, 'target': target, 'ext': draw(st.sampled_from(FMT_EXT[fmt])),
            'explicit_type': draw(st.booleans()), 'overwrite': draw(st.booleans())}


@st.composite
def rdms_spec(draw, allow_uni=True, small=False):
    n_rdm = draw(st.integers(1, 3 if small else 4))
    n_cond = draw(st.integers(2, 4 if small else 6))
    spec = {
        'n_rdm': n_rdm, 'n_cond': n_cond,
        'dis': draw(gen.matrix(n_rdm, n_cond * (n_cond - 1) // 2)),
        'special': draw(special),
        'measure': draw(st.sampled_from([None, 'euclidean', 'crossnobis', 'Ähnlichkeit'])),
        'desc': draw(desc_dict(['session', 'subj', 'noise', 'note', 'flag'], typed_value())),
        'rdm_desc': draw(desc_dict(['subj', 'run', 'grp'], peritem(allow_uni))),
        'pat_desc': draw(desc_dict(['cond', 'cat', 'w'], peritem(allow_uni))),
    }
    return spec


RDM_OPS = ['subset', 'subsample', 'subset_pattern', 'subsample_pattern', 'sort_by', 'reorder',
           'append', 'copy']


def rdm_op():
    return st.fixed_dictionaries({'op': st.sampled_from(RDM_OPS), 'a': st.integers(0, 9),
                                  'm': st.integers(0, 63),
                                  'xs': st.lists(st.integers(0, 9), max_size=5)})


@st.composite
def rdms_case(draw):
    n_ops = draw(st.sampled_from([0, 1, 1, 2, 2, 3]))
    return {'spec': draw(rdms_spec()), 'ops': draw(st.lists(rdm_op(), min_size=n_ops, max_size=n_ops)),
            'io': draw(io_config())}


@st.composite
def dataset_decor(draw):
    return {'desc': draw(desc_dict(['noise', 'note', 'flag', 'extra'], typed_value())),
            'obs': draw(desc_dict(['lab', 'w'], peritem())),
            'ch': draw(desc_dict(['hemi', 'q'], peritem())),
            'special': draw(special)}


@st.composite
def dataset_case(draw):
    kind = draw(st.sampled_from(['ds', 'tds']))
    spec = draw(c11mod.dataset_spec(kind=kind, n_obs=draw(st.integers(1, 8))))
    names = c11mod.TDS_OPS if kind == 'tds' else c11mod.DS_OPS
    n_ops = draw(st.sampled_from([0, 1, 2, 2, 3, 4]))
    ops = draw(st.lists(c11mod.op_record(names), min_size=n_ops, max_size=n_ops))
    return {'spec': spec, 'ops': ops, 'decor': draw(dataset_decor()), 'io': draw(io_config())}


ROUTINES = ['fixed', 'bootstrap', 'bootstrap_rdm', 'bootstrap_pattern', 'bcv_both', 'bcv_pattern',
            'bcv_rdm', 'dual', 'crossval', 'manual']


@st.composite
def result_case(draw):
    routine = draw(st.sampled_from(ROUTINES))
    n_cond = draw(st.integers(4, 6))
    n_rdm = draw(st.integers(3, 6))
    n_pairs = n_cond * (n_cond - 1) // 2
    flexible = routine in ('bcv_both', 'bcv_pattern', 'bcv_rdm', 'dual', 'crossval', 'manual')
    kinds = ['fixed', 'fixed', 'select', 'interpolate'] if flexible else ['fixed']
    if routine in ('crossval', 'manual'):
        kinds = kinds + ['weighted']        # BFGS fits: only where few fits are needed
    if routine == 'manual':
        kinds = kinds + ['abstract']
    if routine in ('fixed', 'manual') and draw(st.integers(0, 5)) == 0:
        # many models: storage keys 'model_10', 'model_11' sort before 'model_2' alphabetically
        models = draw(st.lists(st.sampled_from(kinds), min_size=11, max_size=13))
    else:
        models = draw(st.lists(st.sampled_from(kinds), min_size=1, max_size=3))
    case = {
        'routine': routine, 'n_cond': n_cond, 'n_rdm': n_rdm, 'seed': draw(st.integers(0, 2 ** 20)),
        'method': draw(st.sampled_from(['cosine', 'corr', 'spearman'])),
        'data': draw(gen.matrix(n_rdm, n_pairs, kind='pos')),
        'base': draw(gen.matrix(3, n_pairs, kind='pos')),
        'models': models,
        'names': draw(st.lists(st.sampled_from(['m', 'model A', 'Modell-Ü', 'x1']), min_size=3, max_size=3)),
        'labels': draw(peritem(allow_uni=True)),
        'N': draw(st.integers(3, 6)),
        'theta': draw(gen.vector(3, kind='pos')),
        'io': draw(io_config()),
    }
    if routine == 'manual':
        n_m = len(models)
        n_boot = draw(st.integers(1, 4))
        n_cv = draw(st.integers(1, 3))
        vk = draw(st.sampled_from(['none', 'cov_nc', 'cov', 'vec', 'triple']))
        case['manual'] = {
            'evals': draw(st.lists(st.lists(gen.vector(n_cv, kind='grid', kmax=16), min_size=n_m, max_size=n_m),
                                   min_size=n_boot, max_size=n_boot)),
            'nan_eval': draw(st.booleans()),
            'var_kind': vk,
            'var': (None if vk == 'none' else draw(gen.spd(n_m + 2)) if vk == 'cov_nc'
                    else draw(gen.spd(n_m)) if vk == 'cov'
                    else draw(gen.pos_vector(n_m)) if vk == 'vec'
                    else [draw(gen.spd(n_m + 2)) for _ in range(3)]),
            'dof': draw(st.sampled_from([0, 1, 1, 2, 3, 5, 8, 12])),
            'nc': draw(gen.vector(2, kind='pos')),
            'nc_per_boot': draw(st.booleans()),
            'cv_method': draw(st.sampled_from(['fixed', 'bootstrap', 'bootstrap_rdm', 'bootstrap_pattern',
                                               'crossvalidation', 'bootstrap_crossval'])),
            'n_rdm': draw(st.one_of(st.none(), st.integers(2, 9))),
            'n_pattern': draw(st.one_of(st.none(), st.integers(2, 9))),
        }
    return case


@st.composite
def overwrite_case(draw):
    kind = draw(st.sampled_from(['rdms', 'rdms', 'dataset', 'result']))
    case = {'kind': kind, 'fmt': draw(st.sampled_from(['hdf5', 'hdf5', 'pkl'])),
            'target': draw(st.sampled_from(['path', 'path', 'file'])),
            'overwrite': draw(st.booleans()),
            'ext': None}
    case['ext'] = draw(st.sampled_from(FMT_EXT[case['fmt']]))
    # the existing HDF5 file may be named by a pathlib.Path: the refusal holds for it as well
    case['as_pathlib'] = case['fmt'] == 'hdf5' and case['target'] == 'path' and not case['overwrite'] \
        and draw(st.booleans())
    if kind == 'rdms':
        case['old'] = draw(rdms_spec(allow_uni=False, small=True))
        case['new'] = draw(rdms_spec(allow_uni=False, small=True))
    elif kind == 'dataset':
        case['old'] = {'spec': draw(c11mod.dataset_spec(n_obs=draw(st.integers(1, 4)))), 'ops': [],
                       'decor': draw(dataset_decor())}
        case['new'] = {'spec': draw(c11mod.dataset_spec(n_obs=draw(st.integers(1, 4)))), 'ops': [],
                       'decor': draw(dataset_decor())}
    else:
        a = draw(result_case())
        b = draw(result_case())
        for c in (a, b):
            c['routine'] = 'manual' if 'manual' in c else 'fixed'
            c['models'] = [k for k in c['models'] if k in ('fixed', 'abstract')] or ['fixed']
            if 'manual' in c:
                n_m = len(c['manual']['evals'][0])
                c['models'] = (c['models'] * 3)[:n_m]
        case['old'], case['new'] = a, b
    return case


# ---------------------------------------------------------------------------------------
# building objects

ASCII_ONLY = {'t': 'str'}


def build_dataset(case):
    """identity dataset -> C11 history -> decoration with descriptor types / NaN / inf"""
    try:
        state = idd.start(case['spec'], live=True)
        idd.run_ops(state, case['ops'])
    except Violation as v:
        raise Reject('C11 history failed: %s' % v.msg, kind='c11-history:' + v.sig)
    obj = state.obj
    dec = case['decor']
    obj.measurements = ob.apply_special(obj.measurements, dec['special'])
    m = obj.measurements
    if not dec['special'] and m.size and np.all(np.isfinite(m)) and np.all(m == np.round(m)) \
            and np.abs(m).max() < 2 ** 31:
        # integral recordings kept in an integer array (counts, raw ADC values): the stored array
        # is what comes back, with its number type (a deterministic function of the shape)
        pick = (m.shape[0] + 2 * m.shape[1]) % 3
        if pick == 1:
            obj.measurements = m.astype(np.int64)
        elif pick == 2:
            obj.measurements = m.astype(np.uint8 if m.min() >= 0 and m.max() < 256 else np.int32)
    if (obj.measurements.shape[0] + obj.measurements.shape[1]) % 4 == 0:
        # arrays in the byte order of the file they were read from (nifti, fif, MATLAB readers hand
        # out big-endian arrays): the numbers are what is stored and read back
        mm = obj.measurements
        obj.measurements = mm.astype(mm.dtype.newbyteorder('>'))
    obj.descriptors = dict(obj.descriptors)
    for k, v in dec['desc'].items():
        obj.descriptors[k] = ob.decode_value(v)
    obj.obs_descriptors = dict(obj.obs_descriptors)
    for k, v in dec['obs'].items():
        obj.obs_descriptors[k] = ob.decode_peritem(v, obj.n_obs)
    obj.channel_descriptors = dict(obj.channel_descriptors)
    for k, v in dec['ch'].items():
        obj.channel_descriptors[k] = ob.decode_peritem(v, obj.n_channel)
    return obj, state.log


def build_models(case):
    from rsatoolbox.rdm import RDMs
    from rsatoolbox.model import Model, ModelFixed, ModelSelect, ModelWeighted, ModelInterpolate
    n_cond = case['n_cond']
    pd = {'cond': ob.decode_peritem(case['labels'], n_cond)}
    base = RDMs(np.array(case['base'], dtype=float), dissimilarity_measure='euclidean',
                pattern_descriptors={'cond': list(pd['cond'])},
                rdm_descriptors={'part': ['p0', 'p1', 'p2']})
    out = []
    for i, kind in enumerate(case['models']):
        name = '%s%d' % (case['names'][i % 3], i)
        if kind == 'fixed':
            out.append(ModelFixed(name, base.subset('part', 'p%d' % (i % 3))))
        elif kind == 'select':
            out.append(ModelSelect(name, base.copy()))
        elif kind == 'weighted':
            out.append(ModelWeighted(name, base.copy()))
        elif kind == 'interpolate':
            out.append(ModelInterpolate(name, base.copy()))
        else:
            out.append(Model(name))
    return out, pd


def build_result(case):
    from rsatoolbox.rdm import RDMs
    from rsatoolbox import inference as inf
    from rsatoolbox.inference.result import Result
    models, pd = build_models(case)
    routine = case['routine']
    if routine == 'manual':
        mc = case['manual']
        ev = np.array(mc['evals'], dtype=float)
        if mc['nan_eval']:
            ev[-1] = np.nan
        nc = np.array(mc['nc'], dtype=float)
        if mc['nc_per_boot']:
            nc = np.repeat(nc[:, None], ev.shape[0], axis=1)
        var = None if mc['var'] is None else np.array(mc['var'], dtype=float)
        return core.lib(Result, models, ev, case['method'], mc['cv_method'], nc, variances=var,
                        dof=mc['dof'], n_rdm=mc['n_rdm'], n_pattern=mc['n_pattern'])
    data = RDMs(np.array(case['data'], dtype=float), dissimilarity_measure='euclidean',
                pattern_descriptors={'cond': list(pd['cond'])},
                rdm_descriptors={'subj': list(range(case['n_rdm']))})
    np.random.seed(case['seed'])
    m, n = case['method'], case['N']
    with core.watchdog(60):
        if routine == 'fixed':
            return core.lib(inf.eval_fixed, models, data, method=m)
        if routine == 'bootstrap':
            return core.lib(inf.eval_bootstrap, models, data, method=m, N=n)
        if routine == 'bootstrap_rdm':
            return core.lib(inf.eval_bootstrap_rdm, models, data, method=m, N=n)
        if routine == 'bootstrap_pattern':
            return core.lib(inf.eval_bootstrap_pattern, models, data, method=m, N=n)
        if routine == 'bcv_both':
            return core.lib(inf.bootstrap_crossval, models, data, method=m, N=n, k_pattern=2, k_rdm=2)
        if routine == 'bcv_pattern':
            return core.lib(inf.bootstrap_crossval, models, data, method=m, N=n, k_pattern=2, k_rdm=1,
                            boot_type='pattern')
        if routine == 'bcv_rdm':
            return core.lib(inf.bootstrap_crossval, models, data, method=m, N=n, k_pattern=1, k_rdm=2,
                            boot_type='rdm')
        if routine == 'dual':
            return core.lib(inf.eval_dual_bootstrap, models, data, method=m, N=n, k_pattern=2, k_rdm=2)
        tr, te, ce = core.lib(inf.sets_k_fold, data, k_pattern=2, k_rdm=2, random=False)
        return core.lib(inf.crossval, models, data, tr, te, ce, method=m)


# ---------------------------------------------------------------------------------------
# save / load plumbing

class Target:
    """a fresh temporary directory per case; removed in close()"""

    def __init__(self, io_cfg):
        self.cfg = io_cfg
        self.dir = tempfile.mkdtemp(prefix='vf_c16_')
        self.path = os.path.join(self.dir, 'obj' + io_cfg['ext'])
        self.handle = None

    def open_target(self):
        t = self.cfg['target']
        if t == 'path':
            return self.path
        if self.handle is None:
            self.handle = io.BytesIO() if t == 'bytesio' else open(self.path, 'w+b')
        return self.handle

    def load_arg(self):
        if self.cfg['target'] == 'path':
            return self.path
        if self.cfg['target'] == 'file':
            self.handle.flush()
        if self.cfg['fmt'] == 'pkl':
            self.handle.seek(0)
        return self.handle

    def file_type_for_load(self):
        if self.cfg['target'] == 'path' and not self.cfg.get('explicit_type'):
            return None         # inferred from the extension
        return self.cfg['fmt']

    def close(self):
        try:
            if self.handle is not None:
                self.handle.close()
        finally:
            shutil.rmtree(self.dir, ignore_errors=True)


def save_obj(obj, tgt, tag, overwrite=None):
    cfg = tgt.cfg
    ow = cfg['overwrite'] if overwrite is None else overwrite
    err = None
    try:
        obj.save(tgt.open_target(), file_type=cfg['fmt'], overwrite=ow)
    except (Violation, Reject, core.Inconclusive):
        raise
    except Exception as e:  # noqa: BLE001
        err = (type(e).__name__, str(e))
    # raised outside the handler so that no traceback keeps the library's h5py.File alive
    if err is not None:
        left = ''
        if cfg['target'] == 'path' and os.path.exists(tgt.path):
            left = ' (a %d-byte file is left behind)' % os.path.getsize(tgt.path)
        raise Violation('%s: save(%s, %s) raises %s: %s%s' % (
            tag, cfg['target'], cfg['fmt'], err[0], err[1], left),
            'save-raises:%s:%s' % (cfg['fmt'], err[0]))


def load_obj(loader, tgt, tag):
    cfg = tgt.cfg
    err = None
    try:
        return loader(tgt.load_arg(), file_type=tgt.file_type_for_load())
    except (Violation, Reject, core.Inconclusive):
        raise
    except Exception as e:  # noqa: BLE001
        err = (type(e).__name__, str(e))
    raise Violation('%s: load(%s, %s) raises %s: %s' % (tag, cfg['target'], cfg['fmt'], err[0], err[1]),
                    'load-raises:%s:%s' % (cfg['fmt'], err[0]))


# ---------------------------------------------------------------------------------------
# round trips

def roundtrip_rdms(r, tgt, tag='rdms'):
    from rsatoolbox.rdm import load_rdm
    before = ob.fp_rdms(r)
    save_obj(r, tgt, tag)
    require(ob.fp_rdms(r) == before, '%s: save() changed the in-memory object' % tag,
            'save-mutates:rdms')
    lo = load_obj(load_rdm, tgt, tag)
    ob.cmp_rdms(lo, r, tag)
    ob.lib_eq(lo, r, tag, ob.has_nan(r.dissimilarities))
    # the loaded object is the caller's: working on it in place and reading the unchanged file
    # again still yields the saved object
    lo.dissimilarities[...] = 0
    lo.descriptors['scratch'] = 1
    for v in lo.pattern_descriptors.values():
        if isinstance(v, np.ndarray) and v.dtype.kind in 'if' and v.size:
            v[...] = 0
    again = load_obj(load_rdm, tgt, tag + ' (second load)')
    ob.cmp_rdms(again, r, tag + ':second-load')
    return again


def roundtrip_dataset(d, tgt, tag='dataset'):
    from rsatoolbox.data.dataset import load_dataset
    before = ob.fp_dataset(d)
    save_obj(d, tgt, tag)
    require(ob.fp_dataset(d) == before, '%s: save() changed the in-memory object' % tag,
            'save-mutates:dataset')
    lo = load_obj(load_dataset, tgt, tag)
    ob.cmp_dataset(lo, d, tag)
    ob.lib_eq(lo, d, tag, ob.has_nan(d.measurements))
    lo.measurements[...] = 0
    lo.descriptors['scratch'] = 1
    again = load_obj(load_dataset, tgt, tag + ' (second load)')
    ob.cmp_dataset(again, d, tag + ':second-load')
    return again


TEST_TYPES = ['t-test', 'bootstrap', 'ranksum']


def _thetas(model, case):
    name = type(model).__name__
    th = np.array(case['theta'], dtype=float)
    if name == 'ModelSelect':
        return [None, int(case['seed'] % 3)]
    if name in ('ModelWeighted', 'ModelInterpolate'):
        return [None, th[:model.n_param]]
    return [None]


def cmp_models(lo_models, models, case, tag):
    require(len(lo_models) == len(models), '%s: %d models loaded, %d saved' % (
        tag, len(lo_models), len(models)), 'result:models:count')
    for i, (a, b) in enumerate(zip(lo_models, models)):
        require(type(a) is type(b), '%s: model %d loaded as %s, saved %s' % (
            tag, i, type(a).__name__, type(b).__name__), 'result:models:class')
        require(ob.veq(a.name, b.name), '%s: model %d name loaded %r, saved %r' % (tag, i, a.name, b.name),
                'result:models:name')
        if b.rdm_obj is None:
            require(a.rdm_obj is None, '%s: model %d gained an rdm' % (tag, i), 'result:models:rdm')
            continue
        ob.cmp_rdms(a.rdm_obj, b.rdm_obj, 'result:models:rdm')
        for th in _thetas(b, case):
            pa = a.predict(th) if th is not None else a.predict()
            pb = b.predict(th) if th is not None else b.predict()
            ob.cmp_array(pa, pb, '%s: prediction of model %d (%s, theta=%s)' % (
                tag, i, type(b).__name__, None if th is None else np.asarray(th).tolist()),
                'result:models:prediction')
            ra = a.predict_rdm(th) if th is not None else a.predict_rdm()
            rb = b.predict_rdm(th) if th is not None else b.predict_rdm()
            ob.cmp_array(ra.dissimilarities, rb.dissimilarities, '%s: predict_rdm of model %d' % (tag, i),
                         'result:models:prediction')
            ob.cmp_dict(ra.pattern_descriptors, rb.pattern_descriptors,
                        '%s: predict_rdm pattern descriptors of model %d' % (tag, i),
                        'result:models:prediction-descriptors')


def _opt_array(lo, orig, what, sig):
    if orig is None or lo is None:
        require(orig is None and lo is None, '%s: loaded %s, saved %s' % (
            what, ob._show(lo), ob._show(orig)), sig)
        return
    ob.cmp_array(lo, orig, what, sig)


def cmp_result(lo, res, case, tag='result'):
    from rsatoolbox.inference.result import Result
    require(type(lo) is Result, '%s: loaded a %s' % (tag, type(lo).__name__), 'result:type')
    ob.cmp_array(lo.evaluations, res.evaluations, tag + ' evaluations', 'result:evaluations')
    ob.cmp_array(lo.noise_ceiling, res.noise_ceiling, tag + ' noise_ceiling', 'result:noise_ceiling')
    _opt_array(lo.variances, res.variances, tag + ' variances', 'result:variances')
    for f in ('dof', 'method', 'cv_method', 'n_rdm', 'n_pattern', 'n_model', 'n_bootstraps'):
        require(ob.veq(getattr(lo, f), getattr(res, f)), '%s: %s loaded %r, saved %r' % (
            tag, f, getattr(lo, f), getattr(res, f)), 'result:' + f)
    cmp_models(lo.models, res.models, case, tag)
    for f in ('model_var', 'diff_var', 'noise_ceil_var'):
        _opt_array(getattr(lo, f), getattr(res, f),
                   '%s (cv_method=%s, n_rdm=%s, n_pattern=%s) %s derived from the stored variances' % (
                       tag, res.cv_method, res.n_rdm, res.n_pattern, f), 'result:derived-variances')
    for tt in TEST_TYPES:
        try:
            want = res.test_all(tt)
        except Exception:  # noqa: BLE001  this result does not support the test type
            continue
        try:
            got = lo.test_all(tt)
        except Exception as e:  # noqa: BLE001
            raise Violation('%s: test_all(%r) works before saving, raises %s after loading: %s' % (
                tag, tt, type(e).__name__, e), 'result:test_all:' + tt)
        for nm, g, w in zip(('p_pairwise', 'p_zero', 'p_noise'), got, want):
            ob.cmp_array(g, w, '%s: test_all(%r) %s' % (tag, tt, nm), 'result:test_all:' + tt)


def roundtrip_result(res, case, tgt, tag='result'):
    from rsatoolbox.inference import load_results
    before = ob.fp_result(res)
    save_obj(res, tgt, tag)
    require(ob.fp_result(res) == before, '%s: save() changed the in-memory object' % tag,
            'save-mutates:result')
    lo = load_obj(load_results, tgt, tag)
    cmp_result(lo, res, case, tag)
    return lo


# ---------------------------------------------------------------------------------------
# checks

def check_rdms(case):
    r = core.lib(ob.build_rdms, case['spec'])
    r, _ = ob.rdms_history(r, case['ops'])
    if case['io']['fmt'] == 'pkl' and r.n_rdm % 2 == 1:
        # pickle keeps python objects as they are: per-item lists that mix strings and numbers
        # (HDF5 coerces such lists, so they are used with the pickle format only)
        mixed = ['a', 1, 2.5, 'b7', 30]
        r.rdm_descriptors['mixed'] = [mixed[i % len(mixed)] for i in range(r.n_rdm)]
        r.pattern_descriptors['mixed'] = [mixed[(i + 1) % len(mixed)] for i in range(r.n_cond)]
    tgt = Target(case['io'])
    try:
        roundtrip_rdms(r, tgt)
    finally:
        tgt.close()


def _types_of(specs):
    out = set()
    for d in specs:
        for v in d.values():
            out.add(v['t'])
    return out


def classify_rdms(case):
    s = case['spec']
    io_ = case['io']
    types = _types_of([s['desc'], s['rdm_desc'], s['pat_desc']])
    labels = ['fmt:' + io_['fmt'], 'target:' + io_['target'], 'overwrite-flag:%s' % io_['overwrite'],
              'ops:%d' % len(case['ops'])]
    labels += ['dtype:' + t for t in sorted(types)]
    labels += ['op:' + o['op'] for o in case['ops']]
    if s['special']:
        labels.append('nan/inf')
    if s['measure'] is None:
        labels.append('measure:none')
    has_str = bool(types & {'str', 'uni'})
    has_num = bool(types & {'int', 'float', 'bool', 'vec', 'mat'})
    return labels, has_str and has_num and len(case['ops']) >= 1


def check_dataset(case):
    from rsatoolbox.data.dataset import Dataset
    d, _ = build_dataset(case)
    require(isinstance(d, Dataset), 'history did not yield a dataset', 'harness')
    tgt = Target(case['io'])
    try:
        roundtrip_dataset(d, tgt, type(d).__name__)
    finally:
        tgt.close()


def classify_dataset(case):
    io_ = case['io']
    dec = case['decor']
    types = _types_of([dec['desc'], dec['obs'], dec['ch']])
    labels = ['fmt:' + io_['fmt'], 'target:' + io_['target'], 'kind:' + case['spec']['kind'],
              'ops:%d' % len(case['ops'])]
    labels += ['dtype:' + t for t in sorted(types)]
    if dec['special']:
        labels.append('nan/inf')
    return labels, len(case['ops']) >= 1


def check_result(case):
    res = build_result(case)
    tgt = Target(case['io'])
    try:
        roundtrip_result(res, case, tgt)
    finally:
        tgt.close()
    # models also round-trip through their own dict form
    from rsatoolbox.model import model_from_dict
    lo = [core.lib(model_from_dict, m.to_dict(), on_error='violation', sig='model_from_dict:raises')
          for m in res.models]
    cmp_models(lo, res.models, case, 'model dict round trip')


def classify_result(case):
    io_ = case['io']
    labels = ['fmt:' + io_['fmt'], 'target:' + io_['target'], 'routine:' + case['routine']]
    labels += ['model:' + k for k in sorted(set(case['models']))]
    labels.append('n_models>10' if len(case['models']) > 10 else 'n_models<=3')
    if case['routine'] == 'manual':
        labels.append('variances:' + case['manual']['var_kind'])
    return labels, True


def _build_any(kind, spec):
    if kind == 'rdms':
        return core.lib(ob.build_rdms, spec)
    if kind == 'dataset':
        return build_dataset(spec)[0]
    return build_result(spec)


def _cmp_any(kind, lo, obj, spec, tag):
    if kind == 'rdms':
        ob.cmp_rdms(lo, obj, tag)
    elif kind == 'dataset':
        ob.cmp_dataset(lo, obj, tag)
    else:
        cmp_result(lo, obj, spec, tag)


def check_overwrite(case):
    from rsatoolbox.rdm import load_rdm
    from rsatoolbox.data.dataset import load_dataset
    from rsatoolbox.inference import load_results
    kind, fmt = case['kind'], case['fmt']
    loader = {'rdms': load_rdm, 'dataset': load_dataset, 'result': load_results}[kind]
    old = _build_any(kind, case['old'])
    new = _build_any(kind, case['new'])
    cfg = {'fmt': fmt, 'target': case['target'], 'ext': case['ext'], 'explicit_type': True,
           'overwrite': False}
    tgt = Target(cfg)
    try:
        save_obj(old, tgt, 'first save', overwrite=False)
        if case['target'] == 'path':
            with open(tgt.path, 'rb') as f:
                bytes0 = f.read()
        if not case['overwrite']:
            if fmt == 'hdf5' and case['target'] == 'path':
                # the guard: refuse, leave the file alone
                try:
                    if case.get('as_pathlib'):
                        import pathlib
                        new.save(pathlib.Path(tgt.path), file_type=fmt, overwrite=False)
                    else:
                        new.save(tgt.path, file_type=fmt, overwrite=False)
                except ValueError:
                    pass
                except OSError as e:
                    # (a Path is refused by the file layer today, not by the guard: any refusal
                    # that leaves the file alone is accepted for it)
                    if not case.get('as_pathlib'):
                        raise Violation('saving onto an existing HDF5 path raises %s instead of '
                                        'ValueError: %s' % (type(e).__name__, e), 'guard:wrong-error')
                except Exception as e:  # noqa: BLE001
                    raise Violation('saving onto an existing HDF5 path raises %s instead of ValueError: '
                                    '%s' % (type(e).__name__, e), 'guard:wrong-error')
                else:
                    raise Violation('saving onto an existing HDF5 path with overwrite=False did not '
                                    'raise', 'guard:no-error')
                if not case.get('as_pathlib'):
                    # (refused before the file is opened: not a byte changes; a Path is refused by the
                    # file layer after opening it for appending, which may touch file metadata --
                    # there the file must still hold exactly the old object, checked below)
                    with open(tgt.path, 'rb') as f:
                        require(f.read() == bytes0, 'refused save modified the existing file',
                                'guard:file-changed')
                lo = load_obj(loader, tgt, 'after refused save')
                _cmp_any(kind, lo, old, case['old'], 'guard:old-object')
            return      # pickle / handles without overwrite: nothing is promised
        save_obj(new, tgt, 'overwriting save', overwrite=True)
        lo = load_obj(loader, tgt, 'after overwrite')
        _cmp_any(kind, lo, new, case['new'], 'overwrite:' + kind)
    finally:
        tgt.close()


def classify_overwrite(case):
    return (['kind:' + case['kind'], 'fmt:' + case['fmt'], 'target:' + case['target'],
             'overwrite:%s' % case['overwrite'], 'pathlib' if case.get('as_pathlib') else 'str-or-handle'],
            True)




# ---------------------------------------------------------------------------------------
# pickle streams: a handle is a position in a stream.  Two objects written one after the other into
# one open handle (optionally behind a header the caller wrote) are read back, in order, from where
# the caller positioned the handle.

@st.composite
def stream_case(draw):
    case = draw(overwrite_case())
    case['fmt'] = 'pkl'
    case['target'] = draw(st.sampled_from(['bytesio', 'file']))
    case['header'] = draw(st.sampled_from([0, 0, 7, 64]))
    return case


def check_stream(case):
    from rsatoolbox.rdm import load_rdm
    from rsatoolbox.data.dataset import load_dataset
    from rsatoolbox.inference import load_results
    kind = case['kind']
    loader = {'rdms': load_rdm, 'dataset': load_dataset, 'result': load_results}[kind]
    first = _build_any(kind, case['old'])
    second = _build_any(kind, case['new'])
    d = tempfile.mkdtemp(prefix='vf_c16_stream_')
    h = io.BytesIO() if case['target'] == 'bytesio' else open(os.path.join(d, 'stream.bin'), 'w+b')
    try:
        head = bytes(range(33, 33 + case['header']))
        h.write(head)
        for obj, nm in ((first, 'first'), (second, 'second')):
            core.lib(obj.save, h, file_type='pkl', on_error='violation', sig='stream:save-raises')
        h.flush()
        h.seek(len(head))
        for obj, spec, nm in ((first, case['old'], 'first'), (second, case['new'], 'second')):
            tag = 'pickle stream (%s, %d-byte header): %s object' % (case['target'], len(head), nm)
            lo = core.lib(loader, h, file_type='pkl', on_error='violation', sig='stream:load-raises')
            _cmp_any(kind, lo, obj, spec, tag)
    finally:
        h.close()
        shutil.rmtree(d, ignore_errors=True)


def classify_stream(case):
    return (['kind:' + case['kind'], 'target:' + case['target'], 'header:%d' % case['header']], True)



# ---------------------------------------------------------------------------------------
# tall arrays: thousands of rows (searchlight RDMs, single-trial datasets, bootstrap evaluations)

@st.composite
def tall_case(draw):
    return dict(kind=draw(st.sampled_from(['rdms', 'dataset'])),
                rows=draw(st.sampled_from([4097, 4100, 5000, 8193, 9000, 12289])),
                fmt=draw(st.sampled_from(['hdf5', 'hdf5', 'pkl'])),
                target=draw(st.sampled_from(['path', 'bytesio'])))


def check_tall(case):
    from rsatoolbox.rdm import RDMs, load_rdm
    from rsatoolbox.data.dataset import Dataset, load_dataset
    n = case['rows']
    if case['kind'] == 'rdms':
        arr = np.arange(n, dtype=float)[:, None] * 8.0 + np.arange(3, dtype=float)[None, :] + 1.0
        obj = RDMs(arr.copy(), rdm_descriptors={'vox': np.arange(n)[::-1].copy()})
        loader, get = load_rdm, (lambda o: (o.dissimilarities, o.rdm_descriptors['vox']))
    else:
        arr = np.arange(n, dtype=float)[:, None] * 8.0 + np.arange(2, dtype=float)[None, :] + 1.0
        obj = Dataset(arr.copy(), obs_descriptors={'trial': np.arange(n)[::-1].copy()})
        loader, get = load_dataset, (lambda o: (o.measurements, o.obs_descriptors['trial']))
    ext = '.h5' if case['fmt'] == 'hdf5' else '.pkl'
    tgt = Target({'fmt': case['fmt'], 'target': case['target'], 'ext': ext, 'explicit_type': True,
                  'overwrite': False})
    try:
        save_obj(obj, tgt, 'tall ' + case['kind'])
        lo = load_obj(loader, tgt, 'tall ' + case['kind'])
        a, dsc = get(lo)
        a = np.asarray(a, dtype=float)
        require(a.shape == arr.shape, 'tall %s: loaded shape %s, saved %s' % (case['kind'], a.shape, arr.shape),
                'tall:shape')
        bad = np.flatnonzero(~np.all(a == arr, axis=1))
        require(bad.size == 0, 'tall %s (%d rows, %s): %d rows differ after reloading, first %d: loaded %s, '
                'saved %s' % (case['kind'], n, case['fmt'], bad.size, int(bad[0]) if bad.size else -1,
                              a[bad[0]] if bad.size else None, arr[bad[0]] if bad.size else None),
                'tall:values')
        require(np.array_equal(np.asarray(dsc), np.arange(n)[::-1]), 'tall %s: per-row descriptor differs '
                'after reloading' % case['kind'], 'tall:descriptor')
    finally:
        tgt.close()


def classify_tall(case):
    return ['kind:' + case['kind'], 'fmt:' + case['fmt'], 'target:' + case['target'],
            'rows:%d' % case['rows']], True


# ---------------------------------------------------------------------------------------
# empty sequences: a list-valued descriptor of length 0 -- an object-level list that happens to be
# empty ("excluded runs: none"), or the per-item descriptors of an object that a no-match subset
# reduced to zero elements along one axis -- comes back as an empty sequence (not as None / absent)

EMPTY_AXES = {'rdms': ['rdm'], 'ds': ['obs', 'channel'], 'tds': ['obs', 'channel', 'time']}


@st.composite
def empty_case(draw):
    kind = draw(st.sampled_from(['rdms', 'ds', 'tds']))
    return {'kind': kind,
            'mode': draw(st.sampled_from(['obj-desc', 'zero-axis'])),
            'axis': draw(st.sampled_from(EMPTY_AXES[kind])),
            'container': draw(gen.container),
            'n': draw(st.tuples(st.integers(1, 3), st.integers(2, 4), st.integers(1, 3))),
            'values': draw(gen.matrix(3, 36)),
            'labels': draw(st.lists(st.sampled_from(ob.ASCII_POOL), min_size=4, max_size=4)),
            'extra': draw(desc_dict(['session', 'note', 'flag'], typed_value())),
            'fmt': draw(st.sampled_from(['hdf5', 'hdf5', 'hdf5', 'pkl'])),
            'target': draw(st.sampled_from(['path', 'bytesio', 'file'])),
            'explicit_type': draw(st.booleans())}


def check_empty(case):
    from rsatoolbox.rdm import RDMs
    from rsatoolbox.data.dataset import Dataset, TemporalDataset
    kind, mode, axis = case['kind'], case['mode'], case['axis']
    n0, n1, n2 = case['n']
    vals = np.array(case['values'], dtype=float)
    lab = list(case['labels'])
    desc = {k: ob.decode_value(v) for k, v in case['extra'].items()}
    if mode == 'obj-desc':
        desc['excluded'] = [] if case['container'] == 'list' else np.array([], dtype=int)
    if kind == 'rdms':
        n_pair = n1 * (n1 - 1) // 2
        obj = core.lib(RDMs, vals[:n0, :n_pair].copy(), dissimilarity_measure='euclidean', descriptors=desc,
                       rdm_descriptors={'sel': list(range(n0)), 'name': lab[:n0],
                                        'arr': np.arange(n0) * 0.5},
                       pattern_descriptors={'cond': lab[:n1]})
        if mode == 'zero-axis':
            obj = core.lib(obj.subset, 'sel', -1)
            require(obj.n_rdm == 0, 'subset on an absent value kept %d rdms' % obj.n_rdm, 'harness')
    else:
        obs = {'sel': list(range(n0)), 'name': lab[:n0], 'arr': np.arange(n0) * 0.5}
        ch = {'sel': list(range(n1)), 'roi': lab[:n1]}
        if kind == 'ds':
            obj = core.lib(Dataset, vals[:n0, :n1].copy(), descriptors=desc, obs_descriptors=obs,
                           channel_descriptors=ch)
        else:
            obj = core.lib(TemporalDataset, vals[:n0, :n1 * n2].reshape(n0, n1, n2).copy(), descriptors=desc,
                           obs_descriptors=obs, channel_descriptors=ch,
                           time_descriptors={'sel': list(range(n2)), 'time': [0.25 * i for i in range(n2)]})
        if mode == 'zero-axis':
            obj = core.lib(getattr(obj, 'subset_' + axis), 'sel', -1)
            ax = {'obs': 0, 'channel': 1, 'time': 2}[axis]
            require(obj.measurements.shape[ax] == 0, 'subset on an absent value kept %d elements'
                    % obj.measurements.shape[ax], 'harness')
    ext = FMT_EXT[case['fmt']][0]
    tgt = Target({'fmt': case['fmt'], 'target': case['target'], 'ext': ext,
                  'explicit_type': case['explicit_type'], 'overwrite': False})
    try:
        if kind == 'rdms':
            roundtrip_rdms(obj, tgt, 'empty-seq:rdms')
        else:
            roundtrip_dataset(obj, tgt, 'empty-seq:dataset')
    finally:
        tgt.close()


def classify_empty(case):
    labels = ['kind:' + case['kind'], 'mode:' + case['mode'], 'fmt:' + case['fmt'], 'target:' + case['target']]
    if case['mode'] == 'zero-axis':
        labels.append('axis:' + case['axis'])
    else:
        labels.append('container:' + case['container'])
    return labels, True

# ---------------------------------------------------------------------------------------
# exhaustive grid: one fixed object of every kind x format x target x extension x flags

GRID_RDMS = {'n_rdm': 2, 'n_cond': 3, 'dis': [[1.0, 2.0, 0.5], [0.25, 4.0, 3.0]], 'special': [[1, 'nan']],
             'measure': 'crossnobis',
             'desc': {'noise': {'t': 'mat', 'v': [[2.0, 0.5], [0.5, 1.0]]}, 'subj': {'t': 'str', 'v': 'Ünï'},
                      'session': {'t': 'int', 'v': 3}, 'flag': {'t': 'none', 'v': None}},
             'rdm_desc': {'run': {'t': 'int', 'values': [2, 1], 'container': 'array'}},
             'pat_desc': {'cond': {'t': 'uni', 'values': ['b10', 'bär', 'b9'], 'container': 'list'}}}
GRID_DATA = {'kind': 'ds', 'oids': [3, 1, 2], 'chids': [2, 1], 'oid_container': 'list',
             'chid_container': 'array',
             'obs': {'cond': {'values': ['b', 'a', 'b'], 'container': 'array'},
                     'sess': {'values': [1, 0, 1], 'container': 'list'}},
             'ch': {'roi': {'values': ['V1', 'IT'], 'container': 'list'},
                    'name': {'values': ['ch1', 'ch0'], 'container': 'array'}},
             'desc': {'subj': 4, 'note': 'pilot'}}
GRID_DECOR = {'desc': {'noise': {'t': 'mat', 'v': [[1.0, 0.25], [0.25, 2.0]]}, 'extra': {'t': 'float', 'v': 0.5}},
              'obs': {'lab': {'t': 'uni', 'values': ['π', 'a', 'ß2'], 'container': 'list'}},
              'ch': {'q': {'t': 'bool', 'values': [True, False], 'container': 'array'}},
              'special': [[2, 'inf']]}
GRID_RESULT = {'routine': 'bootstrap_pattern', 'n_cond': 5, 'n_rdm': 3, 'seed': 11, 'method': 'corr',
               'data': [[((i * 7 + j * 3) % 11 + 1) / 8.0 for j in range(10)] for i in range(3)],
               'base': [[((i * 5 + j * 2 + (j * j) % 3) % 9 + 1) / 8.0 for j in range(10)] for i in range(3)],
               'models': ['fixed', 'fixed'], 'names': ['m', 'Modell-Ü', 'x1'],
               'labels': {'t': 'str', 'values': ['a', 'b10', 'b9', 'c', 'V1'], 'container': 'list'},
               'N': 4, 'theta': [0.5, 0.25, 1.0]}


def _grid_object(kind):
    import copy
    if kind == 'rdms':
        return copy.deepcopy(GRID_RDMS)
    if kind in ('dataset', 'temporal'):
        spec = copy.deepcopy(GRID_DATA)
        ops = [{'op': 'sort_by', 'a': 1, 'b': 0, 'm': 0, 'xs': []}]
        if kind == 'temporal':
            spec['kind'] = 'tds'
            spec['time'] = {'time': {'values': [0.5, 0.0], 'container': 'array'},
                            'tgrp': {'values': ['p', 'q'], 'container': 'list'}}
        return {'spec': spec, 'ops': ops, 'decor': copy.deepcopy(GRID_DECOR)}
    return copy.deepcopy(GRID_RESULT)


def enumerate_grid(tier, seed):
    for kind in ('rdms', 'dataset', 'temporal', 'result'):
        for fmt in ('hdf5', 'pkl'):
            for ext in FMT_EXT[fmt]:
                for target in ('path', 'bytesio', 'file'):
                    for explicit in (False, True):
                        if target != 'path' and not explicit:
                            continue
                        for ow in (False, True):
                            yield {'sub': 'roundtrip', 'kind': kind, 'obj': _grid_object(kind),
                                   'io': {'fmt': fmt, 'target': target, 'ext': ext,
                                          'explicit_type': explicit, 'overwrite': ow}}
                for target in ('path', 'file'):
                    for ow in (False, True):
                        new = _grid_object(kind)
                        old = _grid_object(kind)
                        # make the old object larger and differently keyed
                        if kind == 'rdms':
                            old['desc']['old_only'] = {'t': 'int', 'v': 1}
                            old['pat_desc']['old_p'] = {'t': 'int', 'values': [1, 2, 3], 'container': 'list'}
                        elif kind == 'result':
                            old['models'] = ['fixed', 'fixed', 'fixed']
                            old['routine'] = 'fixed'
                        else:
                            old['decor']['desc']['old_only'] = {'t': 'int', 'v': 1}
                            old['decor']['obs']['old_o'] = {'t': 'int', 'values': [1, 2, 3], 'container': 'list'}
                        yield {'sub': 'overwrite', 'kind': 'dataset' if kind == 'temporal' else kind,
                               'fmt': fmt, 'ext': ext, 'target': target, 'overwrite': ow,
                               'old': old, 'new': new}


def check_grid(case):
    if case['sub'] == 'overwrite':
        return check_overwrite(case)
    kind = case['kind']
    if kind == 'rdms':
        return check_rdms({'spec': case['obj'], 'ops': [{'op': 'sort_by', 'a': 0, 'm': 0, 'xs': []}],
                           'io': case['io']})
    if kind in ('dataset', 'temporal'):
        return check_dataset(dict(case['obj'], io=case['io']))
    return check_result(dict(case['obj'], io=case['io']))


def classify_grid(case):
    if case['sub'] == 'overwrite':
        return (['grid:overwrite', 'kind:' + case['kind'], 'fmt:' + case['fmt'],
                 'target:' + case['target']], True)
    return (['grid:roundtrip', 'kind:' + case['kind'], 'fmt:' + case['io']['fmt'],
             'target:' + case['io']['target']], True)


SUBCHECKS = [
    SubCheck('rdms', rdms_case(), check_rdms, classify_rdms, quick=400, thorough=6000,
             doc='RDMs after a short structural history: save/load in both formats to path / BytesIO / '
                 'open file; own field-wise equality, library ==, in-memory object unchanged'),
    SubCheck('dataset', dataset_case(), check_dataset, classify_dataset, quick=300, thorough=5000,
             doc='Dataset / TemporalDataset after a C11 history, decorated with all descriptor types'),
    SubCheck('result', result_case(), check_result, classify_result, quick=200, thorough=3000,
             doc='Results of every evaluation routine and hand-built ones with all model classes: '
                 'evaluations, variances, dof, derived variances, test_all x 3 test types, model '
                 'classes / names / predictions'),
    SubCheck('overwrite', overwrite_case(), check_overwrite, classify_overwrite, quick=200,
             thorough=3000,
             doc='existing target x overwrite flag: ValueError + unchanged bytes for HDF5 paths, '
                 'exactly the new object after overwrite=True (path or open file, both formats)'),
    SubCheck('tall', tall_case(), check_tall, classify_tall, quick=10, thorough=100,
             doc='RDMs / datasets with 4097-12289 rows (more than one I/O block) through both formats'),
    SubCheck('pkl_stream', stream_case(), check_stream, classify_stream, quick=120, thorough=1500,
             doc='two objects pickled one after the other into one open handle (optionally behind a '
                 'caller-written header) are read back in order from the position the caller set'),
    SubCheck('empty_seq', empty_case(), check_empty, classify_empty, quick=80, thorough=1000,
             doc='RDMs / Dataset / TemporalDataset holding a length-0 sequence: an empty object-level list '
                 'or array descriptor, or every per-item descriptor along an axis that a no-match subset '
                 'reduced to zero elements; the loaded value is an empty sequence again'),
    core.Enumeration('grid', enumerate_grid, check_grid, classify_grid,
                     doc='exhaustive: one fixed object of each of the four kinds (RDMs, Dataset, '
                         'TemporalDataset, Result) x file type x extension x target (path, BytesIO, open '
                         'file) x explicit/inferred type x overwrite flag, and existing target x '
                         'overwrite on/off', tiers=('quick', 'thorough')),
]
